"""Checker self-validation (thorough tier).

Every variant is an edit of a scratch copy of <repo>/pyasn1 (under $TMPDIR, removed afterwards):

  kind 'fire'    a realistic breakage of the property: the check MUST report a violation of the named rule
                 (the variant must still byte-compile);
  kind 'silent'  a behaviour-preserving edit (reformatting through ast.unparse, renamed locals, extra LOG
                 lines, re-spelt literals): the check must report exactly what it reports on the unedited tree.

A rule that misses its must-fire variant, or fires on a silent one, makes the thorough run an ANALYSIS-ERROR:
the checker is broken and nothing it says is believed.  A variant whose anchor text no longer exists in the
tree is 'stale' (reported, not counted): the tree under analysis may legitimately differ from the pinned one.
This validates the analyser; it is not the deciding step of any property.
"""
import ast
import os
import py_compile
import shutil
import sys
import tempfile
import time
from concurrent.futures import ProcessPoolExecutor
import multiprocessing

from sa.model import REPO

VARIANTS = []


def V(vid, props, rule, file, old, new, kind='fire', func=None, count=1):
    VARIANTS.append({'id': vid, 'props': props, 'rule': rule, 'file': file, 'old': old, 'new': new, 'kind': kind,
                     'func': func, 'count': count})


def T(vid, transform, props='*'):
    VARIANTS.append({'id': vid, 'props': props, 'rule': None, 'transform': transform, 'kind': 'silent'})


# --------------------------------------------------------------------------- silent transformations

def tf_unparse_all(root):
    """Round-trip every module through ast.unparse: comments gone, layout and line numbers changed."""
    for d, ds, fs in os.walk(root):
        for f in fs:
            if f.endswith('.py'):
                p = os.path.join(d, f)
                with open(p) as fh:
                    src = fh.read()
                with open(p, 'w') as fh:
                    fh.write(ast.unparse(ast.parse(src)) + '\n')


def tf_shift_lines(root):
    """Insert a comment block at the top of every module and blank lines before every def."""
    for d, ds, fs in os.walk(root):
        for f in fs:
            if f.endswith('.py'):
                p = os.path.join(d, f)
                with open(p) as fh:
                    lines = fh.read().split('\n')
                out = ['# shifted', '#', '#']
                for ln in lines:
                    if ln.lstrip().startswith('def ') or ln.lstrip().startswith('class '):
                        out.append('')
                    out.append(ln)
                with open(p, 'w') as fh:
                    fh.write('\n'.join(out))


def _rename_all_locals(root, pick):
    """Rename the locals of every function of every module (`pick(name)` decides which): name -> name + 'Rn'."""
    from sa import alpha
    for d, ds, fs in os.walk(root):
        for f in fs:
            if not f.endswith('.py'):
                continue
            p = os.path.join(d, f)
            with open(p) as fh:
                tree = ast.parse(fh.read())
            for key, fn in alpha.functions(tree):
                loc, nodes = alpha._locals(fn)
                ren = set(x for x in loc if pick(x))
                for n in nodes:
                    if isinstance(n, ast.Name) and n.id in ren:
                        n.id = n.id + 'Rn'
            with open(p, 'w') as fh:
                fh.write(ast.unparse(tree) + '\n')


def tf_rename_locals(root):
    """Every local of every function renamed (parameters, attributes and globals keep their names)."""
    _rename_all_locals(root, lambda name: True)


def tf_rename_some_locals(root):
    """About half of the locals renamed: the alignment has to cope with a mixture."""
    _rename_all_locals(root, lambda name: sum(map(ord, name)) % 2 == 0)


_CFLIP = {ast.Lt: ast.Gt, ast.Gt: ast.Lt, ast.LtE: ast.GtE, ast.GtE: ast.LtE}


class _FlipCompare(ast.NodeTransformer):
    def visit_Compare(self, n):
        self.generic_visit(n)
        if len(n.ops) == 1 and type(n.ops[0]) in _CFLIP and isinstance(n.comparators[0], (ast.Constant, ast.Name)) \
                and isinstance(n.left, (ast.Name, ast.Constant, ast.Attribute)):
            return ast.Compare(left=n.comparators[0], ops=[_CFLIP[type(n.ops[0])]()], comparators=[n.left])
        return n


class _ExpandAug(ast.NodeTransformer):
    def visit_AugAssign(self, n):
        if isinstance(n.target, ast.Name) and isinstance(n.op, (ast.Add, ast.Sub)) and isinstance(n.value, ast.Constant) \
                and type(n.value.value) is int:
            return ast.Assign(targets=[ast.Name(id=n.target.id, ctx=ast.Store())],
                              value=ast.BinOp(left=ast.Name(id=n.target.id, ctx=ast.Load()), op=n.op, right=n.value),
                              lineno=n.lineno)
        return n


class _SwapIf(ast.NodeTransformer):
    def visit_If(self, n):
        self.generic_visit(n)
        if n.orelse and not (len(n.orelse) == 1 and isinstance(n.orelse[0], ast.If)) and isinstance(n.test, ast.UnaryOp) \
                and isinstance(n.test.op, ast.Not):
            return ast.If(test=n.test.operand, body=n.orelse, orelse=n.body)
        return n


def _rewrite_all(root, cls):
    for d, ds, fs in os.walk(root):
        for f in fs:
            if f.endswith('.py'):
                p = os.path.join(d, f)
                with open(p) as fh:
                    tree = cls().visit(ast.parse(fh.read()))
                ast.fix_missing_locations(tree)
                with open(p, 'w') as fh:
                    fh.write(ast.unparse(tree) + '\n')


def tf_flip_compare(root):
    """`a < b` written `b > a` wherever both operands are names, attributes or literals."""
    _rewrite_all(root, _FlipCompare)


def tf_expand_aug(root):
    """`x += k` written `x = x + k` for integer literals k."""
    _rewrite_all(root, _ExpandAug)


def tf_swap_if(root):
    """`if not c: A else: B` written `if c: B else: A`."""
    _rewrite_all(root, _SwapIf)


class _FormatMessages(ast.NodeTransformer):
    """'...%s...' % x inside a raise statement -> '...{}...'.format(x)."""

    def visit_Raise(self, n):
        import re
        for c in ast.walk(n):
            if isinstance(c, ast.BinOp) and isinstance(c.op, ast.Mod) and isinstance(c.left, ast.Constant) and isinstance(c.left.value, str):
                specs = re.findall(r'%[a-zA-Z]', c.left.value)
                if '%%' in c.left.value or '{' in c.left.value or not specs or any(x not in ('%s', '%r') for x in specs) \
                        or c.left.value.count('%') != len(specs):
                    continue
                args = c.right.elts if isinstance(c.right, ast.Tuple) else [c.right]
                if len(args) != len(specs):
                    continue
                txt = c.left.value.replace('%s', '{}').replace('%r', '{!r}')
                new = ast.Call(func=ast.Attribute(value=ast.Constant(value=txt), attr='format', ctx=ast.Load()), args=list(args), keywords=[])
                c.__class__ = ast.Call
                c.__dict__.clear()
                c.__dict__.update(new.__dict__)
        return n


class _SortMethods(ast.NodeTransformer):
    """Runs of consecutive undecorated methods of a class in reverse alphabetical order."""

    def visit_ClassDef(self, n):
        self.generic_visit(n)
        idx = [i for i, x in enumerate(n.body) if isinstance(x, ast.FunctionDef) and not x.decorator_list]
        runs, cur = [], []
        for i in idx:
            if cur and i == cur[-1] + 1:
                cur.append(i)
            else:
                if cur:
                    runs.append(cur)
                cur = [i]
        if cur:
            runs.append(cur)
        for r in runs:
            ms = sorted([n.body[i] for i in r], key=lambda f: f.name, reverse=True)
            for i, m in zip(r, ms):
                n.body[i] = m
        return n


def tf_format_messages(root):
    _rewrite_all(root, _FormatMessages)


def tf_sort_methods(root):
    _rewrite_all(root, _SortMethods)


_JUMP = (ast.Return, ast.Raise, ast.Continue, ast.Break)


class _ElseAfterJump(ast.NodeTransformer):
    """`if c: ...; return` followed by statements -> `if c: ...; return` `else:` statements."""

    def _fix(self, body):
        out = []
        for i, s in enumerate(body):
            if isinstance(s, ast.If) and not s.orelse and s.body and isinstance(s.body[-1], _JUMP) and i + 1 < len(body):
                s.orelse = self._fix(body[i + 1:])
                out.append(s)
                return out
            out.append(s)
        return out

    def generic_visit(self, node):
        super().generic_visit(node)
        for f in ('body', 'orelse', 'finalbody'):
            b = getattr(node, f, None)
            if isinstance(b, list) and b and isinstance(b[0], ast.stmt):
                setattr(node, f, self._fix(b))
        return node


class _NoElseAfterJump(ast.NodeTransformer):
    """`if c: ...; return` `else:` rest -> `if c: ...; return`; rest  (pylint's no-else-return / -raise / -continue)."""

    def _fix(self, body):
        out = []
        for s in body:
            if isinstance(s, ast.If) and s.orelse and s.body and isinstance(s.body[-1], _JUMP) and \
                    not (len(s.orelse) == 1 and isinstance(s.orelse[0], ast.If)):
                rest = s.orelse
                s.orelse = []
                out.append(s)
                out.extend(rest)
            else:
                out.append(s)
        return out

    def generic_visit(self, node):
        super().generic_visit(node)
        for f in ('body', 'orelse', 'finalbody'):
            b = getattr(node, f, None)
            if isinstance(b, list) and b and isinstance(b[0], ast.stmt):
                setattr(node, f, self._fix(b))
        return node


def tf_else_after_jump(root):
    _rewrite_all(root, _ElseAfterJump)


def tf_no_else_after_jump(root):
    _rewrite_all(root, _NoElseAfterJump)


class _SplitIf(ast.NodeTransformer):
    """`if a and b: X` (no else) -> `if a: if b: X`."""

    def visit_If(self, n):
        self.generic_visit(n)
        if not n.orelse and isinstance(n.test, ast.BoolOp) and isinstance(n.test.op, ast.And) and len(n.test.values) == 2:
            return ast.If(test=n.test.values[0], body=[ast.If(test=n.test.values[1], body=n.body, orelse=[])], orelse=[])
        return n


class _UpdateToSetitem(ast.NodeTransformer):
    """module level `X.update({k: v, ...})` -> `X[k] = v` ..."""

    def visit_Module(self, m):
        out = []
        for s in m.body:
            if isinstance(s, ast.Expr) and isinstance(s.value, ast.Call) and isinstance(s.value.func, ast.Attribute) \
                    and s.value.func.attr == 'update' and len(s.value.args) == 1 and isinstance(s.value.args[0], ast.Dict) \
                    and isinstance(s.value.func.value, ast.Name):
                for k, v in zip(s.value.args[0].keys, s.value.args[0].values):
                    out.append(ast.Assign(targets=[ast.Subscript(value=ast.Name(id=s.value.func.value.id, ctx=ast.Load()),
                                                                 slice=k, ctx=ast.Store())], value=v, lineno=s.lineno))
            else:
                out.append(s)
        m.body = out
        return m


class _ImportStyle(ast.NodeTransformer):
    """`from pyasn1.type import univ` -> `import pyasn1.type.univ as univ`."""

    def visit_ImportFrom(self, n):
        if n.module in ('pyasn1.type', 'pyasn1.compat') and n.level == 0:
            return [ast.Import(names=[ast.alias(name='%s.%s' % (n.module, a.name), asname=a.asname or a.name)]) for a in n.names]
        return n


def tf_split_if(root):
    _rewrite_all(root, _SplitIf)


def tf_update_to_setitem(root):
    _rewrite_all(root, _UpdateToSetitem)


def tf_import_style(root):
    _rewrite_all(root, _ImportStyle)


def _leftmost(e):
    while True:
        if isinstance(e, ast.BoolOp):
            e = e.values[0]
        elif isinstance(e, ast.Compare):
            e = e.left
        elif isinstance(e, ast.UnaryOp):
            e = e.operand
        else:
            return e


def _chain_depth(e):
    d = 0
    while isinstance(e, (ast.Attribute, ast.Subscript)):
        if isinstance(e, ast.Subscript) and not isinstance(e.slice, (ast.Name, ast.Constant)):
            return -1
        d += 1
        e = e.value
    return d if isinstance(e, ast.Name) else -1


class _ExtractVariable(ast.NodeTransformer):
    """`if a.b.c == x:` -> `tmpxN = a.b.c` / `if tmpxN == x:` (leftmost operand of the test, attribute chains of depth >= 2)."""

    def __init__(self):
        self.k = 0

    def _fix(self, body):
        out = []
        for s in body:
            if isinstance(s, ast.If):
                lm = _leftmost(s.test)
                if _chain_depth(lm) >= 2:
                    self.k += 1
                    nm = 'tmpx%d' % self.k
                    out.append(ast.Assign(targets=[ast.Name(id=nm, ctx=ast.Store())],
                                          value=ast.parse(ast.unparse(lm), mode='eval').body, lineno=s.lineno))
                    lm.__class__ = ast.Name
                    lm.__dict__.clear()
                    lm.__dict__.update({'id': nm, 'ctx': ast.Load()})
            out.append(s)
        return out

    def generic_visit(self, node):
        super().generic_visit(node)
        for f in ('body', 'orelse', 'finalbody'):
            b = getattr(node, f, None)
            if isinstance(b, list) and b and isinstance(b[0], ast.stmt):
                if f == 'orelse' and isinstance(node, ast.If) and len(b) == 1 and isinstance(b[0], ast.If):
                    continue
                setattr(node, f, self._fix(b))
        return node


def tf_extract_variable(root):
    for d, ds, fs in os.walk(root):
        for f in fs:
            if f.endswith('.py'):
                p = os.path.join(d, f)
                with open(p) as fh:
                    tree = ast.parse(fh.read())
                for n in ast.walk(tree):
                    if isinstance(n, ast.FunctionDef):
                        _ExtractVariable().visit(n)
                ast.fix_missing_locations(tree)
                with open(p, 'w') as fh:
                    fh.write(ast.unparse(tree) + '\n')


class _AddLog(ast.NodeTransformer):
    def visit_If(self, node):
        self.generic_visit(node)
        if isinstance(node.test, ast.Name) and node.test.id == 'LOG' and not node.orelse:
            node.body.append(ast.parse("LOG('extra trace line')").body[0])
        return node


def tf_add_log(root):
    for rel in ('codec/ber/decoder.py', 'codec/ber/encoder.py'):
        p = os.path.join(root, rel)
        with open(p) as fh:
            tree = ast.parse(fh.read())
        tree = _AddLog().visit(tree)
        ast.fix_missing_locations(tree)
        with open(p, 'w') as fh:
            fh.write(ast.unparse(tree) + '\n')


def tf_respell_literals(root):
    """0x80 <-> 128 style re-spelling of guards (text level, decoder + encoder)."""
    reps = [('firstOctet < 128', 'firstOctet <= 0x7f'), ('firstOctet > 128', 'firstOctet >= 0x81'),
            ('if tagId < 31:', 'if tagId <= 30:'), ('if length < 0x80:', 'if length <= 127:'),
            ('if subId < 128:', 'if subId <= 0x7F:'), ('elif subId > 128:', 'elif subId >= 129:'),
            ('elif subId == 128:', 'elif subId == 0x80:'), ('if trailingBits > 7:', 'if trailingBits >= 8:'),
            ('if byte == 0xff:', 'if byte == 255:'), ('if substrateLen > 126:', 'if substrateLen >= 127:')]
    for rel in ('codec/ber/decoder.py', 'codec/ber/encoder.py', 'codec/cer/decoder.py'):
        p = os.path.join(root, rel)
        with open(p) as fh:
            s = fh.read()
        for a, b in reps:
            s = s.replace(a, b)
        with open(p, 'w') as fh:
            fh.write(s)


T('S-unparse', tf_unparse_all)
T('S-shift-lines', tf_shift_lines)
T('S-rename-locals', tf_rename_locals)
T('S-rename-some', tf_rename_some_locals)
T('S-flip-compare', tf_flip_compare)
T('S-expand-aug', tf_expand_aug)
T('S-swap-if', tf_swap_if)
T('S-format-messages', tf_format_messages)
T('S-sort-methods', tf_sort_methods)
T('S-else-after-jump', tf_else_after_jump)
T('S-no-else-after-jump', tf_no_else_after_jump)
T('S-split-if', tf_split_if)
T('S-update-to-setitem', tf_update_to_setitem)
T('S-import-style', tf_import_style)
T('S-extract-variable', tf_extract_variable)
T('S-add-log', tf_add_log)
T('S-respell', tf_respell_literals)

# --------------------------------------------------------------------------- must-fire variants
BD = 'pyasn1/codec/ber/decoder.py'
BE = 'pyasn1/codec/ber/encoder.py'
ST = 'pyasn1/codec/streaming.py'
CD = 'pyasn1/codec/cer/decoder.py'
DD = 'pyasn1/codec/der/decoder.py'
CE = 'pyasn1/codec/cer/encoder.py'
DE = 'pyasn1/codec/der/encoder.py'
UN = 'pyasn1/type/univ.py'
BA = 'pyasn1/type/base.py'
TG = 'pyasn1/type/tag.py'
CO = 'pyasn1/type/constraint.py'
US = 'pyasn1/type/useful.py'
ER = 'pyasn1/error.py'

# ---- tables (C01 C02 C03 C15 C16 C17)
V('M-wrong-family', ['C01', 'C16'], 'A1.pair', BD, "    univ.Enumerated.tagSet: IntegerPayloadDecoder(),", "    univ.Enumerated.tagSet: OctetStringPayloadDecoder(),")
V('M-cer-chunk', ['C02', 'C03'], 'A1.modes', CE, "    fixedChunkSize = 1000", "    fixedChunkSize = 100")
V('M-der-defmode', ['C02', 'C03'], 'A1.modes', DE, "    fixedDefLengthMode = True", "    fixedDefLengthMode = None")
V('M-enum-tag', ['C03', 'C13'], 'A1.x680', UN, "tag.Tag(tag.tagClassUniversal, tag.tagFormatSimple, 0x0A)", "tag.Tag(tag.tagClassUniversal, tag.tagFormatSimple, 0x0B)")
V('M-cer-true', ['C02', 'C03'], 'A1.modes', CE, "            substrate = (255,)", "            substrate = (1,)")
V('M-der-typemap-guard', ['C15'], 'A1.strict', DD, "        if typeId is not None:\n            TYPE_MAP[typeId] = typeDecoder",
  "        if typeId is not None and typeId not in TYPE_MAP:\n            TYPE_MAP[typeId] = typeDecoder")
V('M-der-indef', ['C15'], 'A1.strict', DD, "    supportIndefLength = False", "    supportIndefLength = True")
V('M-cer-bool-lax', ['C15'], 'A1.strict', CD, "        if byte == 0xff:\n            value = 1", "        if byte != 0x00:\n            value = 1")
V('M-drop-bytag', ['C16'], 'A1.total', BD, "    univ.Real.tagSet: RealPayloadDecoder(),\n", "")
V('M-segment-own-tag', ['C01', 'C02', 'C09'], 'A7.tag', BD, "    protoSegment = univ.OctetString('')", "    protoSegment = char.UTF8String()")
V('M-setof-nosort', ['C03', 'C04'], 'A9', CE, "            paddedChunks.sort(key=lambda x: x[0])", "            pass")
V('M-set-whole-tagset', ['C03', 'C04'], 'A9.set', DE, "            return compType.tagSet[-1:]", "            return compType.tagSet")
V('M-setof-pad-space', ['C03', 'C04'], 'A9.setof', CE, "            zero = str2octs('\\x00')", "            zero = str2octs(' ')")

# ---- generator protocol (C05 C06 C07)
V('M-del-rewind', ['C05', 'C06'], 'A2.retry', ST, "            substrate.seek(-len(received), os.SEEK_CUR)\n", "            pass\n")
V('M-rewind-abs', ['C05', 'C06'], 'A2.retry', ST, "            substrate.seek(-len(received), os.SEEK_CUR)\n", "            substrate.seek(-len(received))\n")
V('M-bare-yield', ['C05'], 'A2.prod', ST, "        if received is None:  # non-blocking stream can do this\n            yield error.SubstrateUnderrunError(context=context)",
  "        if received is None:  # non-blocking stream can do this\n            yield")
V('M-no-retry', ['C05', 'C06'], 'A2.retry', ST, "            if received is None:  # non-blocking stream has nothing yet\n                yield error.SubstrateUnderrunError()\n\n            else:\n                break",
  "            if received is None:  # non-blocking stream has nothing yet\n                yield error.SubstrateUnderrunError()\n\n            break")
V('M-del-forwarder', ['C05'], 'A2.cons', BD, "        for chunk in readFromStream(substrate, length, options):\n            if isinstance(chunk, SubstrateUnderrunError):\n                yield chunk\n\n        if not chunk:\n            raise error.PyAsn1Error('Empty substrate')",
  "        for chunk in readFromStream(substrate, length, options):\n            pass\n\n        if not chunk:\n            raise error.PyAsn1Error('Empty substrate')")
V('M-stmt-after-forwarder', ['C05'], 'A2.cons', BD, "                for component in decodeFun(substrate, componentType, **options):\n                    if isinstance(component, SubstrateUnderrunError):\n                        yield component\n\n                if not isDeterministic and namedTypes:",
  "                for component in decodeFun(substrate, componentType, **options):\n                    if isinstance(component, SubstrateUnderrunError):\n                        yield component\n\n                    seenIndices.add(idx)\n\n                if not isDeterministic and namedTypes:")
V('M-result-before-eoo', ['C05', 'C07'], 'A2.last', BD, "                if isinstance(value, SubstrateUnderrunError):\n                    yield value\n\n            if value is eoo.endOfOctets:\n                break\n\n            asn1Object = value",
  "                if isinstance(value, SubstrateUnderrunError):\n                    yield value\n\n            if value is eoo.endOfOctets:\n                break\n\n            yield value\n\n            asn1Object = value")
V('M-direct-read', ['C05', 'C06', 'C11'], 'A2.reads', BD, "        for chunk in readFromStream(substrate, length, options):\n            if isinstance(chunk, SubstrateUnderrunError):\n                yield chunk\n\n        component = self._createComponent(asn1Spec, tagSet, '', **options)",
  "        chunk = substrate.read(length)\n\n        component = self._createComponent(asn1Spec, tagSet, '', **options)")
V('M-eos-hier', ['C06'], 'A3.hier', ER, "class EndOfStreamError(SubstrateUnderrunError):", "class EndOfStreamError(PyAsn1Error):")
V('M-eos-malformed', ['C06'], 'A3.trunc', ST, "            raise error.EndOfStreamError(context=context)", "            raise error.PyAsn1Error('Short substrate', context=context)")
V('M-oneshot-no-raise', ['C06', 'C07'], 'A2.oneshot', BD, "            if isinstance(asn1Object, SubstrateUnderrunError):\n                raise error.SubstrateUnderrunError('Short substrate on input')\n\n", "")
V('M-short-tag-malformed', ['C06'], 'A3.trunc', BD, "                                raise error.SubstrateUnderrunError(\n                                    'Short octet stream on long tag decoding'\n                                )",
  "                                raise error.PyAsn1Error(\n                                    'Short octet stream on long tag decoding'\n                                )")
V('M-del-len-check', ['C07'], 'C07.len', BD, "                    bytesRead = substrate.tell() - original_position\n                    if bytesRead != length:\n                        raise PyAsn1Error(\n                            \"Read %s bytes instead of expected %s.\" % (bytesRead, length))\n", "")
V('M-eoo-rewind-1', ['C07'], 'C07.eoo', BD, "                substrate.seek(-2, os.SEEK_CUR)", "                substrate.seek(-1, os.SEEK_CUR)")
V('M-drop-null-check', ['C07', 'C08'], ('A2.drop', 'W.content'), BD, "        if chunk:\n            raise error.PyAsn1Error('Unexpected %d-octet substrate for Null' % length)\n\n", "")
V('M-tail-other-stream', ['C07'], 'A2.oneshot', BD, "                tail = next(readFromStream(substrate))", "                tail = next(readFromStream(streamingDecoder._substrate, 0))")

# ---- malformed input (C08 C10 C16 C18)
V('M-raise-valueerror', ['C08'], 'A3.raise', BD, "                raise error.PyAsn1Error('Invalid octet 0x80 in OID encoding')", "                raise ValueError('Invalid octet 0x80 in OID encoding')")
V('M-del-real-guard', ['C08'], 'A3.partial', BD, "            if not eo or not chunk:\n                raise error.PyAsn1Error('Real exponent screwed')\n\n", "")
V('M-del-empty-seg', ['C08'], 'A3.partial', BD, "            if not component:\n                raise error.PyAsn1Error('Empty BIT STRING segment')\n\n            trailingBits = oct2int(component[0])\n            if trailingBits > 7:\n                raise error.PyAsn1Error(\n                    'Trailing bits overflow %s' % trailingBits\n                )\n\n            bitString = self.protoComponent.fromOctetString(\n                component[1:], internalFormat=True,\n                prepend=bitString, padding=trailingBits\n            )\n\n        yield self._createComponent(asn1Spec, tagSet, bitString, **options)\n\n    def indefLenValueDecoder",
  "            trailingBits = oct2int(component[0])\n            if trailingBits > 7:\n                raise error.PyAsn1Error(\n                    'Trailing bits overflow %s' % trailingBits\n                )\n\n            bitString = self.protoComponent.fromOctetString(\n                component[1:], internalFormat=True,\n                prepend=bitString, padding=trailingBits\n            )\n\n        yield self._createComponent(asn1Spec, tagSet, bitString, **options)\n\n    def indefLenValueDecoder")
V('M-del-pad-check', ['C08'], 'W.content', BD, "            trailingBits = ord(trailingBits)\n            if trailingBits > 7:\n                raise error.PyAsn1Error(\n                    'Trailing bits overflow %s' % trailingBits\n                )\n", "            trailingBits = ord(trailingBits)\n")
V('M-pad-8', ['C08'], 'W.content', BD, "            trailingBits = ord(trailingBits)\n            if trailingBits > 7:", "            trailingBits = ord(trailingBits)\n            if trailingBits > 8:")
V('M-oid-0x80', ['C08'], 'W.content', BD, "            elif subId > 128:", "            elif subId >= 128:")
V('M-schemaless-none', ['C08', 'C16'], 'A13.value', BD, "        # an empty container is a value too\n        asn1Object.clear()\n", "        if not components:\n            asn1Object = None\n")
V('M-any-raw', ['C08', 'C10', 'C18'], 'A13.raw', BD, "        # a collecting caller (enclosing ANY) wants the raw octets back\n        isCollecting = bool(substrateFun)\n\n        # All inner fragments are of the same type, treat them as octet string\n        substrateFun = self.substrateCollector",
  "        # All inner fragments are of the same type, treat them as octet string\n        substrateFun = self.substrateCollector\n\n        isCollecting = bool(substrateFun)")
V('M-excess-indef', ['C08'], 'A3.partial', BD, "                if namedTypes and not isSetType and len(namedTypes) <= idx:\n                    raise error.PyAsn1Error(\n                        'Excessive components decoded at %r' % (asn1Object,)\n                    )\n\n", "")
V('M-state-cycle', ['C08'], 'A14.states', BD, "                    concreteDecoder = None\n                    state = self.defaultErrorState", "                    concreteDecoder = None\n                    state = stGetValueDecoder")
V('M-loop-no-progress', ['C08'], 'A14.progress', BD, "            subId = chunk[index]\n            index += 1\n            if subId < 128:", "            subId = chunk[index]\n            if subId < 128:\n                index += 1")
V('M-del-required', ['C10'], 'C10.req', BD, "                if not namedTypes.requiredComponents.issubset(seenIndices):\n                    raise error.PyAsn1Error(\n                        'ASN.1 object %s has uninitialized '\n                        'components' % asn1Object.__class__.__name__)\n\n                if namedTypes.hasOpenTypes:",
  "                if namedTypes.hasOpenTypes:")
V('M-any-no-eoo', ['C18'], 'A8.dec', BD, "        if not isTagged:\n            # the header of the untagged value went in, so does its\n            # end-of-octets sentinel (consumed by the item decoder)\n            chunk += EOO_SENTINEL\n\n", "")
V('M-any-eoo-always', ['C18'], 'A8.dec', BD, "        if not isTagged:\n            # the header of the untagged value went in, so does its\n            # end-of-octets sentinel (consumed by the item decoder)\n            chunk += EOO_SENTINEL\n", "        chunk += EOO_SENTINEL\n")

# ---- BER laxness / siblings (C09)
V('M-bool-eq-1', ['C09'], 'A1.lax', BD, "            self, asn1Spec, tagSet, value and 1 or 0, **options)", "            self, asn1Spec, tagSet, value == 1 and 1 or 0, **options)")
V('M-ber-no-constructed', ['C09'], 'A1.lax', BD, "class OctetStringPayloadDecoder(AbstractSimplePayloadDecoder):\n    protoComponent = univ.OctetString('')\n    supportConstructedForm = True",
  "class OctetStringPayloadDecoder(AbstractSimplePayloadDecoder):\n    protoComponent = univ.OctetString('')\n    supportConstructedForm = False")
V('M-set-arm-order', ['C09', 'C10'], 'A6.spec', BD, "                if not namedTypes:\n                    asn1Spec = None\n\n                elif isSetType:\n                    asn1Spec = namedTypes.tagMapUnique\n\n                elif len(namedTypes) <= idx:\n                    # all components seen, end-of-octets must follow\n                    asn1Spec = None\n",
  "                if not namedTypes:\n                    asn1Spec = None\n\n                elif len(namedTypes) <= idx:\n                    # all components seen, end-of-octets must follow\n                    asn1Spec = None\n\n                elif isSetType:\n                    asn1Spec = namedTypes.tagMapUnique\n")
V('M-len-leading-zero', ['C09', 'C13'], 'W.dec', BD, "                    length = 0\n                    for lengthOctet in encodedLength:", "                    if encodedLength and not oct2int(encodedLength[0]):\n                        raise error.PyAsn1Error('Leading zero in length')\n\n                    length = 0\n                    for lengthOctet in encodedLength:")
V('M-len-threshold', ['C09', 'C13', 'C01'], 'W.dec', BD, "                if firstOctet < 128:\n                    length = firstOctet", "                if firstOctet <= 128:\n                    length = firstOctet")

# ---- encoder header / pairing (C01 C03 C07 C13)
V('M-enc-len-threshold', ['C01', 'C03', 'C13'], 'W.enc', BE, "        if length < 0x80:", "        if length <= 0x80:")
V('M-enc-tag-threshold', ['C01', 'C03', 'C13'], 'W.enc', BE, "        if tagId < 31:", "        if tagId <= 31:")
V('M-eoo-unconditional', ['C01', 'C02', 'C03', 'C07'], 'A8.pair', BE, "                if not defModeOverride:\n                    substrate += self.eooOctetsSubstrate", "                if not defMode:\n                    substrate += self.eooOctetsSubstrate", func='SequenceEncoder')
V('M-default-skip-py', ['C01', 'C04', 'C17'], 'C04.default', CE, "                if namedType.isDefaulted and component == namedType.asn1Object:\n                    continue\n\n                compsMap[id(component)] = namedType\n                comps.append((component, asn1Spec[idx]))",
  "                compsMap[id(component)] = namedType\n                comps.append((component, asn1Spec[idx]))")
V('M-chunk-stride', ['C01', 'C02'], 'A7.unit', BE, "            pos += maxChunkSize\n", "            pos += maxChunkSize - 1\n")

# ---- tag algebra (C13 C03)
V('M-expl-universal', ['C13'], 'C13.expl', TG, "        if superTag.tagClass == tagClassUniversal:\n            raise error.PyAsn1Error(\"Can't tag with UNIVERSAL class tag\")\n", "")
V('M-impl-format', ['C13'], 'C13.impl', TG, "            superTag = Tag(superTag.tagClass, self.__superTags[-1].tagFormat, superTag.tagId)", "            superTag = Tag(superTag.tagClass, superTag.tagFormat, superTag.tagId)")
V('M-cmp-id-only', ['C13', 'C03'], 'C13.cmp', TG, "            [(superTag.tagClass, superTag.tagId) for superTag in superTags]", "            [superTag.tagId for superTag in superTags]")
V('M-expl-prepend', ['C13', 'C03'], 'C13.model', TG, "        return self.__class__(self.__baseTag, *self.__superTags + (superTag,))", "        return self.__class__(self.__baseTag, *(superTag,) + self.__superTags)")

# ---- constraints (C14)
V('M-del-constraint-call', ['C14'], 'C14.funnel', BA, "            try:\n                self.subtypeSpec(value)\n\n            except error.PyAsn1Error:\n                exType, exValue, exTb = sys.exc_info()\n                raise exType('%s at %s' % (exValue, self.__class__.__name__))\n", "            pass\n")
V('M-subtype-replace', ['C14'], 'C14.extend', BA, "        for arg, option in kwargs.items():\n            initializers[arg] += option\n\n        return self.__class__(value, **initializers)", "        for arg, option in kwargs.items():\n            initializers[arg] = option\n\n        return self.__class__(value, **initializers)")
V('M-seqof-no-incons', ['C14'], 'C14.enc', BE, "        if asn1Spec is None:\n            inconsistency = value.isInconsistent\n            if inconsistency:\n                raise inconsistency\n\n        else:\n            asn1Spec = asn1Spec.componentType",
  "        if asn1Spec is not None:\n            asn1Spec = asn1Spec.componentType")
V('M-other-value-writer', ['C14'], 'C14.funnel', UN, "    def __and__(self, value):\n        return self.clone(self._value & value)", "    def __and__(self, value):\n        result = self.clone()\n        result._value = self._value & value\n        return result")
V('M-vmap-forget', ['C14'], 'C14.vmap', CO, "        if self._values:\n            constraintSet._valueMap.add(self)\n            constraintSet._valueMap.update(self._valueMap)\n", "")
V('M-movesize-swap', ['C14'], 'C14.extend', BA, "            if not subtypeSpec:\n                subtypeSpec = sizeSpec", "            if subtypeSpec:\n                subtypeSpec = sizeSpec")

# ---- python-value arms (C17)
V('M-opt-after-lookup', ['C17'], 'A4.contra', BE, "                if namedType.isOptional and namedType.name not in value:\n                    if LOG:\n                        LOG('not encoding OPTIONAL component %r' % (namedType,))\n                    continue\n\n                try:\n                    component = value[namedType.name]\n\n                except KeyError:\n                    raise error.PyAsn1Error('Component name \"%s\" not found in %r' % (\n                        namedType.name, value))\n",
  "                try:\n                    component = value[namedType.name]\n\n                except KeyError:\n                    raise error.PyAsn1Error('Component name \"%s\" not found in %r' % (\n                        namedType.name, value))\n\n                if namedType.isOptional and namedType.name not in value:\n                    if LOG:\n                        LOG('not encoding OPTIONAL component %r' % (namedType,))\n                    continue\n")

# ---- wrapper (C11)
V('M-kind-fastpath', ['C11'], 'A12.kinds', BD, "        substrate = asSeekableStream(substrate)\n\n        streamingDecoder = cls.STREAMING_DECODER(", "        if not isinstance(substrate, bytes):\n            substrate = asSeekableStream(substrate)\n\n        else:\n            substrate = io.BytesIO(substrate)\n\n        streamingDecoder = cls.STREAMING_DECODER(")
V('M-no-octetstring-arm', ['C11'], 'A12.total', ST, "    elif isinstance(substrate, univ.OctetString):\n        return io.BytesIO(substrate.asOctets())\n", "")
V('M-peek-no-seekback', ['C11'], 'A12.cache', ST, "        result = self.read(n)\n        if result:\n            self._cache.seek(-len(result), os.SEEK_CUR)\n        return result", "        result = self.read(n)\n        return result")
V('M-peek-abs-late', ['C11'], 'A12.cache', ST, "        result = self.read(n)\n        if result:\n            self._cache.seek(-len(result), os.SEEK_CUR)\n        return result", "        result = self.read(n)\n        position = self._cache.tell()\n        self._cache.seek(position, os.SEEK_SET)\n        return result")
V('M-error-factory-builtin', ['C08'], 'A3.raise', UN, "        raise error.PyAsn1Error('Malformed Object ID %s at %s' % (value, self.__class__.__name__))\n", "        raise self._malformed(value)\n\n    def _malformed(self, value):\n        return ValueError('Malformed Object ID %s at %s' % (value, self.__class__.__name__))\n")
V('M-der-table-shared-by-generator', ['C03'], None, DE, "TYPE_MAP.update({\n    # Set & SetOf have same tags\n    univ.Set.typeId: SetEncoder()\n})", "TYPE_MAP.update((t.typeId, encoder.TYPE_MAP[t.typeId]) for t in (univ.Set,))")

# ---- purity (C12)
V('M-no-clone', ['C12'], 'A5.spec', BD, "            asn1Object = self.protoComponent.clone(tagSet=tagSet)\n\n        else:\n            asn1Object = asn1Spec.clone()\n\n        if substrateFun:\n            for chunk in substrateFun(asn1Object, substrate, length, options):\n                yield chunk\n\n            return\n\n        options = self._passAsn1Object(asn1Object, options)\n\n        if asn1Object.tagSet == tagSet:",
  "            asn1Object = self.protoComponent.clone(tagSet=tagSet)\n\n        else:\n            asn1Object = asn1Spec\n\n        if substrateFun:\n            for chunk in substrateFun(asn1Object, substrate, length, options):\n                yield chunk\n\n            return\n\n        options = self._passAsn1Object(asn1Object, options)\n\n        if asn1Object.tagSet == tagSet:")
V('M-class-cache', ['C12'], 'A5.stateless', BD, "    supportIndefLength = True\n\n    TAG_MAP = TAG_MAP\n    TYPE_MAP = TYPE_MAP\n\n    def __init__(self, **options):\n        self._tagMap = options.get('tagMap', self.TAG_MAP)\n        self._typeMap = options.get('typeMap', self.TYPE_MAP)\n\n        # Tag & TagSet objects caches\n        self._tagCache = {}\n        self._tagSetCache = {}",
  "    supportIndefLength = True\n\n    TAG_MAP = TAG_MAP\n    TYPE_MAP = TYPE_MAP\n\n    _tagCache = {}\n    _tagSetCache = {}\n\n    def __init__(self, **options):\n        self._tagMap = options.get('tagMap', self.TAG_MAP)\n        self._typeMap = options.get('typeMap', self.TYPE_MAP)")
V('M-codec-state', ['C12'], 'A5.stateless', BD, "        if tagSet[0].tagFormat != tag.tagFormatSimple:\n            raise error.PyAsn1Error('Simple tag format expected')\n\n        for chunk in readFromStream(substrate, length, options):\n            if isinstance(chunk, SubstrateUnderrunError):\n                yield chunk\n\n        if chunk:\n            value = from_bytes(chunk, signed=True)",
  "        if tagSet[0].tagFormat != tag.tagFormatSimple:\n            raise error.PyAsn1Error('Simple tag format expected')\n\n        self._lastLength = length\n\n        for chunk in readFromStream(substrate, length, options):\n            if isinstance(chunk, SubstrateUnderrunError):\n                yield chunk\n\n        if chunk:\n            value = from_bytes(chunk, signed=True)")
V('M-mutable-default', ['C12'], 'A5.default', BE, "    def encodeValue(self, value, asn1Spec, encodeFun, **options):\n        raise error.PyAsn1Error('Not implemented')", "    def encodeValue(self, value, asn1Spec, encodeFun, seen=[], **options):\n        raise error.PyAsn1Error('Not implemented')")
V('M-log-live-def', ['C12'], 'A5.log', BD, "        if LOG:\n            LOG('decoding %s as %stagged CHOICE' % (\n                tagSet, isTagged and 'explicitly ' or 'un'))", "        if LOG:\n            isTagged = bool(isTagged)\n            LOG('decoding %s as %stagged CHOICE' % (\n                tagSet, isTagged and 'explicitly ' or 'un'))\n            length = -1")
V('M-global-counter', ['C12'], 'A5.census', BE, "    def __call__(self, value, asn1Spec=None, **options):\n        try:\n            if asn1Spec is None:\n                typeId = value.typeId", "    def __call__(self, value, asn1Spec=None, **options):\n        global LOG\n        try:\n            if asn1Spec is None:\n                typeId = value.typeId")

# ---- containers (C19)
V('M-choice-clear', ['C19'], 'A10.companion', UN, "    def clear(self):\n        self._currentIdx = None\n        return Set.clear(self)", "    def clear(self):\n        return Set.clear(self)")
V('M-sort-list', ['C19'], 'A10.field', UN, "        self._componentValues = dict(\n            enumerate(sorted(self.components,\n                             key=key, reverse=reverse)))", "        self._componentValues = sorted(self.components,\n                                       key=key, reverse=reverse)")
V('M-stopiteration', ['C19', 'C08'], ('A10.pep479', 'A3.raise'), UN, "        if self._currentIdx is None:\n            return\n        yield self.componentType[self._currentIdx].getName()", "        if self._currentIdx is None:\n            raise StopIteration\n        yield self.componentType[self._currentIdx].getName()")
V('M-idx-before-set', ['C19'], 'A10.single', UN, "        oldIdx = self._currentIdx\n        Set.setComponentByPosition(self, idx, value, verifyConstraints, matchTags, matchConstraints)\n        self._currentIdx = idx", "        oldIdx = self._currentIdx\n        self._currentIdx = idx\n        Set.setComponentByPosition(self, idx, value, verifyConstraints, matchTags, matchConstraints)")
V('M-eq-return-value', ['C19'], 'A10.schema', BA, "    def __hash__(self):\n        return hash(self._value)", "    def __index__(self):\n        return self._value\n\n    def __hash__(self):\n        return hash(self._value)")

# ---- time (C20)
V('M-minutes-seconds', ['C20'], 'A11.width', US, "seconds % 3600 // 60)", "seconds % 3600)")
V('M-sign-unsigned', ['C20'], 'A11.sign', US, "            seconds = offset.days * 86400 + offset.seconds", "            seconds = offset.seconds")
V('M-comma-ok', ['C20'], 'A11.canon', CE, "        if self.COMMA_CHAR in numbers:\n            raise error.PyAsn1Error('Comma in fractions disallowed: %r' % value)\n\n", "")



# ---- variants added with the rules of seeded-change round 1
V('M-next-read', ['C05', 'C06'], 'A2.next', BD, "            for trailingBits in readFromStream(substrate, 1, options):\n                if isinstance(trailingBits, SubstrateUnderrunError):\n                    yield trailingBits\n\n            trailingBits = ord(trailingBits)",
  "            trailingBits = ord(next(readFromStream(substrate, 1, options)))")
V('M-cache-long-tags', ['C07', 'C12', 'C13', 'C16'], 'A5.cachekey', BD, "                    if isShortTag:\n                        # cache short tags\n                        tagCache[firstOctet] = lastTag", "                    tagCache[firstOctet] = lastTag")
V('M-enc-tag-fastpath', ['C01', 'C03', 'C13'], 'W.enc', BE, "        if tagId < 31:\n            return encodedTag | tagId,\n\n        else:", "        if tagId < 31:\n            return encodedTag | tagId,\n\n        elif tagId <= 0xff:\n            return encodedTag | 0x1F, tagId\n\n        else:")
V('M-prepend-truthy', ['C01', 'C09'], 'W.bits', UN, "        value = SizedInteger(integer.from_bytes(value) >> padding).setBitLength(len(value) * 8 - padding)\n\n        if prepend is not None:", "        value = SizedInteger(integer.from_bytes(value) >> padding).setBitLength(len(value) * 8 - padding)\n\n        if prepend:")
V('M-real-no-norm', ['C02', 'C03', 'C04'], 'W.real', BE, "            if encbase == 2:\n                while m & 0x1 == 0:\n                    m >>= 1\n                    e += 1\n\n            elif encbase == 8:", "            if encbase == 8:")
V('M-cache-truncate', ['C07', 'C11'], 'A12.tail', ST, "            self._cache = io.BytesIO(self._cache.read())\n", "            self._cache.seek(0)\n            self._cache.truncate()\n")
V('M-schemaless-one-tag', ['C16'], 'C16.tags', BD, "            tagSet=tag.TagSet(protoComponent.tagSet.baseTag, *tagSet.superTags)", "            tagSet=tag.TagSet(protoComponent.tagSet.baseTag, *tagSet.superTags[-1:])")
V('M-native-none', ['C17'], 'C17.native', 'pyasn1/codec/native/decoder.py', "            if field in pyObject:\n                asn1Value[field]", "            if field in pyObject and pyObject[field] is not None:\n                asn1Value[field]")
V('M-wraptype-get', ['C18', 'C12', 'C01'], 'A5.optleak', BE, "        wrapType = options.pop('wrapType', None)", "        wrapType = options.get('wrapType')")
V('M-any-yield-before-eoo', ['C18'], 'A8.dec', BD, "        if not isTagged:\n            # the header of the untagged value went in, so does its\n            # end-of-octets sentinel (consumed by the item decoder)\n            chunk += EOO_SENTINEL\n\n        if isCollecting:\n            yield chunk\n",
  "        if isCollecting:\n            yield chunk\n            return\n\n        if not isTagged:\n            chunk += EOO_SENTINEL\n\n        if isCollecting:\n            yield chunk\n")
V('M-empty-constructed', ['C15', 'C09'], 'W.content', BD, "            return\n\n        if tagSet[0].tagFormat == tag.tagFormatSimple:  # XXX what tag to check?\n            for chunk in readFromStream(substrate, length, options):",
  "            return\n\n        if not length:\n            yield self._createComponent(asn1Spec, tagSet, null, **options)\n\n            return\n\n        if tagSet[0].tagFormat == tag.tagFormatSimple:  # XXX what tag to check?\n            for chunk in readFromStream(substrate, length, options):")
V('M-trim-start', ['C20'], 'A11.trim', CE, "            searchIndex = len(numbers) - 1\n", "            searchIndex = min(numbers.index(self.DOT_CHAR) + 3, len(numbers) - 1)\n")
V('M-iter-probe-first', ['C05', 'C06', 'C07', 'C08'], 'A2.iter', BD, "        while True:\n            for asn1Object in self._singleItemDecoder(\n                    self._substrate, self._asn1Spec, **self._options):\n                yield asn1Object\n\n            for chunk in isEndOfStream(self._substrate):\n                if isinstance(chunk, SubstrateUnderrunError):\n                    yield chunk\n\n            if chunk:\n                break\n",
  "        while True:\n            for chunk in isEndOfStream(self._substrate):\n                if isinstance(chunk, SubstrateUnderrunError):\n                    yield chunk\n\n            if chunk:\n                break\n\n            for asn1Object in self._singleItemDecoder(\n                    self._substrate, self._asn1Spec, **self._options):\n                yield asn1Object\n")
V('M-short-read-eos', ['C05', 'C06'], 'A3.trunc', ST, "            # behave like a non-blocking stream\n            yield error.SubstrateUnderrunError(context=context)", "            if len(received) == 1:\n                raise error.EndOfStreamError(context=context)\n\n            # behave like a non-blocking stream\n            yield error.SubstrateUnderrunError(context=context)")
V('M-latch', ['C01', 'C02', 'C03'], 'A5.latch', CE, "            if namedType:\n                options.update(ifNotEmpty=namedType.isOptional)", "            if namedType and namedType.isOptional:\n                options.update(ifNotEmpty=True)")
V('M-attr-tagmap', ['C08'], 'A3.attr', BD, "                    '%s not in asn1Spec: %r' % (tagSet, asn1Spec)", "                    '%s not in asn1Spec: %s' % (tagSet, asn1Spec is None and '<none>' or asn1Spec.prettyPrintType())")
V('M-choice-empty', ['C08', 'C10'], 'A13.choice', BD, "        if not len(asn1Object):\n            raise error.PyAsn1Error(\n                'No alternative inside the explicitly tagged CHOICE %s' % (tagSet,))\n\n", "")
V('M-read-overflow', ['C08'], 'A3.size', ST, "        try:\n            received = substrate.read(size)\n\n        except OverflowError:\n            raise error.PyAsn1Error(\n                'Unsupported substrate size %s' % (size,), context=context)\n", "        received = substrate.read(size)\n")
V('M-nan', ['C08'], 'A3.partial', UN, "            elif value != value:\n                raise error.PyAsn1Error(\n                    'Bad real value syntax: %s' % (value,)\n                )\n", "")
V('M-pad-guard', ['C08'], 'W.bits', UN, "        if padding > len(value) * 8:", "        if padding > len(value) * 8 + 8:")
V('M-log-continue', ['C12'], 'A5.log', BE, "                    if LOG:\n                        LOG('not encoding DEFAULT component %r' % (namedType,))\n                    continue\n\n                if omitEmptyOptionals:\n                    options.update(ifNotEmpty=namedType.isOptional)\n\n                componentSpec",
  "                    if LOG:\n                        LOG('not encoding DEFAULT component %r' % (namedType,))\n                        continue\n\n                if omitEmptyOptionals:\n                    options.update(ifNotEmpty=namedType.isOptional)\n\n                componentSpec")
V('M-sortkey-static', ['C17', 'C03'], 'A9.dyn', DE, "                # TODO: support nested CHOICE ordering\n                return asn1Spec[names[0]].tagSet[-1:]", "                return encoder.SetEncoder._componentSortKey(componentAndType)")
V('M-vmap-ancestry', ['C14', 'C10'], 'C14.vmap', CO, "            constraintSet._valueMap.update(self._valueMap)\n", "")
V('M-clone-enumerate', ['C04', 'C19'], 'C04.clone', UN, "        myClone.clear()\n\n        for idx, componentValue in self._componentValues.items():", "        myClone.clear()\n\n        for idx, componentValue in enumerate(self._componentValues.values()):")
V('M-isdeterministic', ['C09', 'C10', 'C01', 'C02'], 'A6.spec', BD, "            isSetType = asn1Object.typeId == univ.Set.typeId\n            isDeterministic = not isSetType and not namedTypes.hasOptionalOrDefault", "            isSetType = asn1Object.typeId == univ.Set.typeId\n            isDeterministic = not namedTypes.hasOptionalOrDefault")
V('M-required-weaker', ['C10'], ('C10.req', 'A6.spec'), BD, "            if namedTypes:\n                if not namedTypes.requiredComponents.issubset(seenIndices):\n                    raise error.PyAsn1Error(\n                        'ASN.1 object %s has uninitialized '\n                        'components' % asn1Object.__class__.__name__)\n\n                if namedTypes.hasOpenTypes:",
  "            if namedTypes:\n                if (idx < len(namedTypes) and\n                        not namedTypes.requiredComponents.issubset(seenIndices)):\n                    raise error.PyAsn1Error(\n                        'ASN.1 object %s has uninitialized '\n                        'components' % asn1Object.__class__.__name__)\n\n                if namedTypes.hasOpenTypes:")
V('M-add-dedupe', ['C14', 'C10'], 'C14.vmap', CO, "    def __add__(self, value):\n        return self._derive(self._values + (value,))", "    def __add__(self, value):\n        if value in self._values:\n            return self\n\n        return self._derive(self._values + (value,))")



V('M-range-open', ['C14'], 'C14.denote', CO, "        if value < self.start or value > self.stop:", "        if value <= self.start or value > self.stop:")
V('M-size-open', ['C14'], 'C14.denote', CO, "        if valueSize < self.start or valueSize > self.stop:", "        if valueSize < self.start or valueSize >= self.stop:")
V('M-union-all', ['C14'], 'C14.denote', CO, "            except error.ValueConstraintError:\n                pass\n            else:\n                return", "            except error.ValueConstraintError:\n                break\n            else:\n                return")
V('M-optional-only', ['C01', 'C02', 'C09', 'C10'], ('A6.optdef', 'A6.spec'), 'pyasn1/type/namedtype.py', "            if namedType.isOptional or namedType.isDefaulted:\n                partialAmbiguousTypes = (namedType,) + partialAmbiguousTypes", "            if namedType.isOptional:\n                partialAmbiguousTypes = (namedType,) + partialAmbiguousTypes")


V('M-open-default-first', ['C18'], 'A6.open', BD, "                            try:\n                                openType = openTypes[governingValue]\n\n                            except KeyError:\n\n                                if LOG:\n                                    LOG('default open types map of component '\n                                        '\"%s.%s\" governed by component \"%s.%s\"'\n                                        ':' % (asn1Object.__class__.__name__,\n                                               namedType.name,\n                                               asn1Object.__class__.__name__,\n                                               namedType.openType.name))\n\n                                    for k, v in namedType.openType.items():\n                                        LOG('%s -> %r' % (k, v))\n\n                                try:\n                                    openType = namedType.openType[governingValue]\n\n                                except KeyError:\n                                    if LOG:\n                                        LOG('failed to resolve open type by governing '\n                                            'value %r' % (governingValue,))\n                                    continue\n\n                            if LOG:\n                                LOG('resolved open type %r by governing '\n                                    'value %r' % (openType, governingValue))\n\n                            containerValue = asn1Object.getComponentByPosition(idx)\n\n                            if containerValue.typeId in (\n                                    univ.SetOf.typeId, univ.SequenceOf.typeId):\n\n                                for pos, containerElement in enumerate(\n                                        containerValue):\n\n                                    stream = asSeekableStream(containerValue[pos].asOctets())\n\n                                    for component in decodeFun(stream, asn1Spec=openType, **options):",
  "                            try:\n                                openType = namedType.openType[governingValue]\n\n                            except KeyError:\n\n                                try:\n                                    openType = openTypes[governingValue]\n\n                                except KeyError:\n                                    continue\n\n                            containerValue = asn1Object.getComponentByPosition(idx)\n\n                            if containerValue.typeId in (\n                                    univ.SetOf.typeId, univ.SequenceOf.typeId):\n\n                                for pos, containerElement in enumerate(\n                                        containerValue):\n\n                                    stream = asSeekableStream(containerValue[pos].asOctets())\n\n                                    for component in decodeFun(stream, asn1Spec=openType, **options):")


V('M-pos-inside', ['C05', 'C07'], 'A2.pos', BD, "        original_position = substrate.tell()\n        # head = popSubstream(substrate, length)\n        while substrate.tell() - original_position < length:\n            for component in decodeFun(", "        # head = popSubstream(substrate, length)\n        original_position = 0\n        while substrate.tell() - original_position < length:\n            original_position = original_position or substrate.tell()\n            for component in decodeFun(")
V('M-oid-arc2-40', ['C01', 'C03'], 'W.oidenc', BE, "        if 0 <= second <= 39:", "        if 0 <= second <= 40:")
V('M-bit-shift', ['C01', 'C03'], 'W.bitenc', BE, "            alignedValue = value << (8 - valueLength % 8)", "            alignedValue = value << (7 - valueLength % 8)")


V('M-real-base-bits', ['C01', 'C03', 'C09'], 'W.realfmt', BD, "            b = fo >> 4 & 0x03  # base bits", "            b = fo >> 5 & 0x03  # base bits")
V('M-real-exp-len', ['C01', 'C03'], 'W.realfmt', BE, "            elif n == 3:\n                fo |= 2", "            elif n == 3:\n                fo |= 3")
V('M-real-sign-ext', ['C01', 'C09'], 'W.realfmt', BD, "            e = oct2int(eo[0]) & 0x80 and -1 or 0", "            e = oct2int(eo[0]) & 0x40 and -1 or 0")

IN = 'pyasn1/compat/integer.py'
V('M-int-nonminimal', ['C01', 'C02', 'C03'], 'W.int', IN, "            bits = (~value).bit_length()", "            bits = value.bit_length()")
V('M-tagimpl-base-format', ['C01', 'C03', 'C13'], 'C13.impl', TG, "self.__superTags[-1].tagFormat", "self.__superTags[0].tagFormat")

# ---- round 2 (DESIGN.md 11.1)
BASE = 'pyasn1/type/base.py'
OT = 'pyasn1/type/opentype.py'
NE = 'pyasn1/codec/native/encoder.py'
V('M-realbase-floor-mod', ['C01'], 'W.realbase', BE, "            m *= 2 ** (abs(e) % 3 * es)", "            m *= 2 ** (e % 3)")
V('M-realexp-no-ff', ['C01', 'C02', 'C03'], 'W.realexp', BE, "                if e == -1 and eo and not (oct2int(eo[0]) & 0x80):\n                    eo = int2oct(0xff) + eo\n", "")
V('M-iter-insertion-order', ['C04', 'C19'], 'A10.order', UN, "        for idx in range(0, len(self)):\n            yield self.getComponentByPosition(idx)", "        return iter(self._componentValues.values())")
V('M-components-insertion', ['C04', 'C19'], 'A10.order', UN, "        return [self._componentValues[idx]\n                for idx in sorted(self._componentValues)]", "        return list(self._componentValues.values())")
V('M-default-extra-cond', ['C04'], 'A6.defsib', BE, "                    if namedType.isDefaulted and component == namedType.asn1Object:", "                    if namedType.isDefaulted and namedType.asn1Object.isSameTypeWith(component) and component == namedType.asn1Object:")
V('M-cer-real-hint', ['C02', 'C03', 'C04'], 'A1.cerreal', CE, "    def _chooseEncBase(self, value):\n        m, b, e = value\n        return self._dropFloatingPoint(m, b, e)", "    binEncBase = 2")
V('M-probe-after-seek', ['C05', 'C06', 'C08'], 'A2.probe', ST, "            more = substrate.read(1)\n            if more:\n                substrate.seek(-1, os.SEEK_CUR)\n\n            substrate.seek(-len(received), os.SEEK_CUR)\n", "            substrate.seek(-len(received), os.SEEK_CUR)\n\n            more = substrate.read(1)\n            if more:\n                substrate.seek(-1, os.SEEK_CUR)\n")
V('M-none-is-absent', ['C17'], 'A6.omit', BE, "                if namedType.isDefaulted and component == namedType.asn1Object:\n                    if LOG:\n                        LOG('not encoding DEFAULT component %r' % (namedType,))\n                    continue\n\n                if omitEmptyOptionals:\n                    options.update(ifNotEmpty=namedType.isOptional)\n\n                componentSpec", "                if component is None and namedType.isOptional:\n                    continue\n\n                if namedType.isDefaulted and component == namedType.asn1Object:\n                    if LOG:\n                        LOG('not encoding DEFAULT component %r' % (namedType,))\n                    continue\n\n                if omitEmptyOptionals:\n                    options.update(ifNotEmpty=namedType.isOptional)\n\n                componentSpec")
V('M-binstr-zero-digit', ['C17'], 'W.binstr', UN, "        binString = bin(self._value)[2:].lstrip('0')", "        binString = bin(self._value)[2:]")
V('M-opentype-or', ['C18'], 'A6.mapref', OT, "        if typeMap is None:\n            self.__typeMap = {}\n        else:\n            self.__typeMap = typeMap", "        self.__typeMap = typeMap or {}")
V('M-sizespec-any-set', ['C14'], 'C14.fold', BASE, "            elif isinstance(subtypeSpec, constraint.ConstraintsIntersection):", "            elif isinstance(subtypeSpec, constraint.AbstractConstraintSet):")
V('M-eos-by-position', ['C11'], 'A12.eos', ST, "    else:\n        while True:\n            received = substrate.read(1)", "    else:\n        if substrate.tell() >= os.fstat(substrate.fileno()).st_size:\n            yield True\n            return\n\n        while True:\n            received = substrate.read(1)")
V('M-proto-octets', ['C16'], 'A1.proto', DD, "        typeDecoder = typeDecoder.__class__()\n        typeDecoder.supportConstructedForm = False\n        TAG_MAP[tagSet] = typeDecoder", "        TAG_MAP[tagSet] = OctetStringPayloadDecoder()")
V('M-native-read-unguarded', ['C12'], 'A5.encread', NE, "            if namedTypes and namedTypes[idx].isOptional and not value[idx].isValue:", "            if not value[idx].isValue and namedTypes and namedTypes[idx].isOptional:")
V('M-frac-rstrip', ['C20'], 'A11.frac', US, "            text += '.%d' % (dt.microsecond // 1000)", "            text += ('.%d' % (dt.microsecond // 1000)).rstrip('0')")
V('M-tagformat-last-octet', ['C01', 'C09', 'C13', 'C15'], 'W.dec', BD, "                        tagClass=tagClass, tagFormat=tagFormat, tagId=tagId", "                        tagClass=tagClass, tagFormat=integerTag & 0x20, tagId=tagId")
V('M-clone-only-values', ['C04', 'C12', 'C19'], 'C04.clone', UN, "        for idx, componentValue in enumerate(self._componentValues):\n            if componentValue is not noValue:\n                if isinstance(componentValue, base.ConstructedAsn1Type):\n                    myClone", "        for idx, componentValue in enumerate(self._componentValues):\n            if componentValue is not noValue and componentValue.isValue:\n                if isinstance(componentValue, base.ConstructedAsn1Type):\n                    myClone")
V('M-bits-zero-segment', ['C01', 'C02', 'C09'], 'W.bits', UN, "        value = SizedInteger(integer.from_bytes(value) >> padding).setBitLength(len(value) * 8 - padding)\n\n        if prepend is not None:\n            value = SizedInteger(", "        value = SizedInteger(integer.from_bytes(value) >> padding).setBitLength(len(value) * 8 - padding)\n\n        if prepend is not None and not value:\n            value = SizedInteger(prepend).setBitLength(len(prepend))\n\n        elif prepend is not None:\n            value = SizedInteger(")
V('M-sortkey-effective', ['C03', 'C04'], 'A9.set', DE, "                return component.getComponent().tagSet[-1:]", "                return component.effectiveTagSet")
V('M-sortkey-one-arm-recursive', ['C03', 'C17'], 'A9.dyn', DE, "                return asn1Spec[names[0]].tagSet[-1:]", "                return SetEncoder._componentSortKey((component[names[0]], asn1Spec[names[0]]))")
V('M-mask-eos', ['C06'], 'A3.mask', BD, "            for component in decodeFun(\n                    substrate, self.protoComponent, substrateFun=substrateFun,\n                    **options):\n                if isinstance(component, SubstrateUnderrunError):\n                    yield component\n\n            if not component:\n                raise error.PyAsn1Error('Empty BIT STRING segment')\n\n            trailingBits = oct2int(component[0])\n            if trailingBits > 7:\n                raise error.PyAsn1Error(\n                    'Trailing bits overflow", "            try:\n                for component in decodeFun(\n                        substrate, self.protoComponent, substrateFun=substrateFun,\n                        **options):\n                    if isinstance(component, SubstrateUnderrunError):\n                        yield component\n            except error.PyAsn1Error as exc:\n                raise error.PyAsn1Error('Malformed BIT STRING segment: %s' % (exc,))\n\n            if not component:\n                raise error.PyAsn1Error('Empty BIT STRING segment')\n\n            trailingBits = oct2int(component[0])\n            if trailingBits > 7:\n                raise error.PyAsn1Error(\n                    'Trailing bits overflow")
V('M-mark-relative', ['C11'], 'A12.mark', ST, "            self._markedPosition = 0\n\n    def tell(self):\n        return self._cache.tell()", "            self._markedPosition = 0\n\n    def tell(self):\n        return self._cache.tell() + self._markedPosition")

V('M-offset-divmod-signed', ['C20'], 'A11.div', US, "            seconds = offset.days * 86400 + offset.seconds\n            if seconds < 0:\n                text += '-'\n                seconds = -seconds\n            else:\n                text += '+'\n            text += '%.2d%.2d' % (seconds // 3600, seconds % 3600 // 60)", "            hours, minutes = divmod(offset.days * 1440 + offset.seconds // 60, 60)\n            text += '%s%.2d%.2d' % (hours < 0 and '-' or '+', abs(hours), minutes)")

# ---- round 3 (DESIGN.md 11.2)
CDM = 'pyasn1/codec/cer/decoder.py'
V('M-prepend-rewrapped', ['C01', 'C02', 'C04', 'C09'], 'W.sized', UN, "        if prepend is not None:\n            value = SizedInteger(\n                (SizedInteger(prepend) << len(value)) | value\n            ).setBitLength(len(prepend) + len(value))\n\n        if not internalFormat:\n            value = cls(value)\n\n        return value\n\n    def prettyIn", "        if prepend is not None:\n            prepend = SizedInteger(prepend)\n            value = SizedInteger(\n                (prepend << len(value)) | value\n            ).setBitLength(len(prepend) + len(value))\n\n        if not internalFormat:\n            value = cls(value)\n\n        return value\n\n    def prettyIn")
V('M-segment-implicit-tag', ['C01', 'C02'], 'W.segtag', BE, "        if asn1Spec is None:\n            baseTag = value.tagSet.baseTag\n\n            # strip off explicit tags\n            if baseTag:\n                tagSet = tag.TagSet(baseTag, baseTag)\n\n            else:\n                tagSet = tag.TagSet()\n\n            asn1Spec = value.clone(tagSet=tagSet)", "        if asn1Spec is None:\n            asn1Spec = value.clone(tagSet=value.tagSet[:1])")
V('M-eos-single-retry', ['C05', 'C06', 'C11'], 'A2.eosloop', ST, "        while True:\n            received = substrate.read(1)\n            if received is None:  # non-blocking stream has nothing yet\n                yield error.SubstrateUnderrunError()\n\n            else:\n                break\n", "        received = substrate.read(1)\n        if received is None:  # non-blocking stream has nothing yet\n            yield error.SubstrateUnderrunError()\n            received = substrate.read(1)\n")
V('M-none-is-ended', ['C05', 'C06'], 'A2.ended', ST, "            if more is not None and not more:", "            if not more:")
V('M-collector-method', ['C07', 'C09'], 'A5.methid', BD, "    @staticmethod\n    def substrateCollector(asn1Object, substrate, length, options):", "    def substrateCollector(self, asn1Object, substrate, length, options):")
V('M-typemap-alias', ['C09', 'C12', 'C15'], 'A1.alias', CDM, "TYPE_MAP = decoder.TYPE_MAP.copy()", "TYPE_MAP = decoder.TYPE_MAP")
V('M-useful-by-tag-only', ['C16'], 'A1.enctype', BE, "    char.BMPString.typeId: OctetStringEncoder(),\n    # useful types\n    useful.ObjectDescriptor.typeId: OctetStringEncoder(),\n    useful.GeneralizedTime.typeId: OctetStringEncoder(),\n    useful.UTCTime.typeId: OctetStringEncoder()\n}", "    char.BMPString.typeId: OctetStringEncoder()\n}")
V('M-eoo-by-value', ['C07', 'C09', 'C16'], 'A8.eooid', BD, "            if length == -1 and component is eoo.endOfOctets:", "            if length == -1 and component == eoo.endOfOctets:")
V('M-opentype-len', ['C18'], 'A6.truthy', OT, "    def __iter__(self):\n        return iter(self.__typeMap)", "    def __iter__(self):\n        return iter(self.__typeMap)\n\n    def __len__(self):\n        return len(self.__typeMap)")
V('M-open-skip-unseen', ['C18'], 'A6.openskip', BD, "                            governingValue = asn1Object.getComponentByName(\n                                namedType.openType.name\n                            )\n", "                            if namedTypes.getPositionByName(namedType.openType.name) not in seenIndices:\n                                continue\n\n                            governingValue = asn1Object.getComponentByName(\n                                namedType.openType.name\n                            )\n")
V('M-length-before-trim', ['C20'], 'A11.len', CE, "        if self.DOT_CHAR in numbers:\n\n            isModified = False", "        if not self.MIN_LENGTH < len(numbers) < self.MAX_LENGTH:\n            raise error.PyAsn1Error('Length constraint violated: %r' % value)\n\n        if self.DOT_CHAR in numbers:\n\n            isModified = False")
V('M-sign-with-hours', ['C20'], 'A11.parse', US, "                minutes = int(tz[:2]) * 60 + int(tz[2:])\n                if plusminus == '-':\n                    minutes *= -1\n", "                hours, minutes = int(plusminus + tz[:2]), int(tz[2:])\n                if hours < 0:\n                    minutes *= -1\n                minutes += hours * 60\n")
V('M-empty-before-consistency', ['C14'], 'C14.enc', BE, "    def _encodeComponents(self, value, asn1Spec, encodeFun, **options):\n\n        if asn1Spec is None:", "    def _encodeComponents(self, value, asn1Spec, encodeFun, **options):\n\n        if not value:\n            return []\n\n        if asn1Spec is None:")
V('M-real10-truediv', ['C01', 'C08'], 'W.real10', UN, "            m //= 10\n            e += 1", "            m /= 10\n            e += 1")
V('M-reverse-insertion', ['C04', 'C19'], 'A10.order', UN, "            enumerate([self._componentValues[idx]\n                       for idx in sorted(self._componentValues, reverse=True)]))", "            enumerate(reversed(self._componentValues.values())))")
V('M-sort-insertion', ['C19'], 'A10.order', UN, "            enumerate(sorted(self.components,\n                             key=key, reverse=reverse)))", "            enumerate(sorted(self._componentValues.values(),\n                             key=key, reverse=reverse)))")
V('M-sortkey-nested-static', ['C03', 'C17'], 'A9.dyn', DE, "                # TODO: support nested CHOICE ordering\n                return asn1Spec[names[0]].tagSet[-1:]", "                chosenSpec = asn1Spec[names[0]]\n\n                if chosenSpec.typeId == univ.Choice.typeId and not chosenSpec.tagSet:\n                    return chosenSpec.componentType.minTagSet[-1:]\n\n                return chosenSpec.tagSet[-1:]")

V('M-chunk-characters', ['C01', 'C02'], 'A7.unit', BE, "            chunk = octets[pos:pos + maxChunkSize]", "            chunk = value[pos:pos + maxChunkSize]")

# --------------------------------------------------------------------------- runner

def _copy_tree(repo, dest):
    shutil.copytree(os.path.join(repo, 'pyasn1'), os.path.join(dest, 'pyasn1'),
                    ignore=shutil.ignore_patterns('__pycache__', '*.pyc'))


def _apply(variant, root):
    """Apply the edit to the scratch copy; returns 'ok' / 'stale'."""
    if 'transform' in variant:
        variant['transform'](os.path.join(root, 'pyasn1'))
        return 'ok'
    p = os.path.join(root, variant['file'])
    with open(p) as fh:
        s = fh.read()
    if s.count(variant['old']) < 1:
        return 'stale'
    s = s.replace(variant['old'], variant['new'], 1)
    with open(p, 'w') as fh:
        fh.write(s)
    return 'ok'


def _compiles(root):
    for d, ds, fs in os.walk(os.path.join(root, 'pyasn1')):
        for f in fs:
            if f.endswith('.py'):
                try:
                    with open(os.path.join(d, f)) as fh:
                        compile(fh.read(), f, 'exec')
                except SyntaxError as e:
                    return str(e)
    return None


def _digest(res):
    """What a run reports, reduced to identities."""
    rc, ev = res
    return (rc, tuple(sorted((o['rule'], o['func'], o['key']) for o in ev['coverage']['violations'])),
            tuple(sorted((o['rule'], o['func'], o['key']) for o in ev['coverage']['known_findings_matched'])))


def _run_variant(args):
    idx, pid, repo = args
    variant = VARIANTS[idx]
    from sa import core, props
    from sa.model import AnalysisError
    tmp = tempfile.mkdtemp(prefix='pyasn1-sa-')
    try:
        _copy_tree(repo, tmp)
        st = _apply(variant, tmp)
        if st == 'stale':
            return (variant['id'], 'stale', 'anchor text not present in this tree')
        err = _compiles(tmp)
        if err:
            return (variant['id'], 'broken-variant', 'does not compile: %s' % err)
        try:
            rc, ev, lines, ctx = core.run_property(pid, props.PROPS[pid], 'quick', tmp)
        except AnalysisError as e:
            return (variant['id'], 'analysis-error', str(e))
        if rc == 2:
            return (variant['id'], 'analysis-error', '; '.join(ev['coverage'].get('undecided', []))[:300])
        return (variant['id'], 'ran', _digest((rc, ev)))
    finally:
        shutil.rmtree(tmp, ignore_errors=True)


def run_for_property(pid, repo=None, jobs=None):
    from sa import core, props
    repo = repo or os.environ.get('PYASN1_REPO', REPO)
    t0 = time.time()
    sel = [i for i, v in enumerate(VARIANTS) if v['props'] == '*' or pid in v['props']]
    rc, ev, lines, ctx = core.run_property(pid, props.PROPS[pid], 'quick', repo)
    base = _digest((rc, ev))
    jobs = jobs or min(16, max(1, len(sel)))
    results = {}
    with ProcessPoolExecutor(max_workers=jobs, mp_context=multiprocessing.get_context('spawn')) as ex:
        for r in ex.map(_run_variant, [(i, pid, repo) for i in sel]):
            results[r[0]] = r
    out_lines = []
    broken = []
    nfire = nsilent = nstale = 0
    per = []
    for i in sel:
        v = VARIANTS[i]
        vid, status, info = results[v['id']]
        if status == 'stale':
            nstale += 1
            out_lines.append('SELFTEST %s %-26s stale (%s)' % (pid, vid, info))
            per.append({'variant': vid, 'kind': v['kind'], 'status': 'stale'})
            continue
        if status == 'broken-variant':
            broken.append('%s: %s' % (vid, info))
            continue
        if v['kind'] == 'fire':
            if status == 'analysis-error':
                # a breakage that removes an anchor may legitimately stop the analyser: it is not silent
                nfire += 1
                out_lines.append('SELFTEST %s %-26s fires as ANALYSIS-ERROR (%s)' % (pid, vid, info[:70]))
                per.append({'variant': vid, 'kind': 'fire', 'status': 'analysis-error'})
                continue
            vrc, viol, known = info
            new = [x for x in viol if x not in base[1]]
            rules = v['rule'] if isinstance(v['rule'], (tuple, list)) else (v['rule'],)
            hit = [x for x in new if any(x[0].startswith(r_) for r_ in rules)]
            if hit:
                nfire += 1
                out_lines.append('SELFTEST %s %-26s fires: %s in %s' % (pid, vid, hit[0][0], hit[0][1]))
                per.append({'variant': vid, 'kind': 'fire', 'status': 'fired', 'rule': hit[0][0], 'func': hit[0][1]})
            else:
                broken.append('%s must fire rule %s for %s but reported %s' % (vid, v['rule'], pid, [x[0] for x in new] or 'nothing new'))
        else:
            if status == 'analysis-error':
                broken.append('%s (behaviour-preserving) stops the analyser: %s' % (vid, info))
                continue
            # a known finding may be withheld (function far from its reference form: no verdict); nothing may be added
            same = info[0] == base[0] and set(info[1]) == set(base[1]) and set(info[2]) <= set(base[2])
            if not same:
                diff = set(info[1]) ^ set(base[1])
                kd = set(info[2]) ^ set(base[2])
                broken.append('%s (behaviour-preserving) changes the report: violations %s known %s' % (vid, sorted(diff)[:3], sorted(kd)[:3]))
            else:
                nsilent += 1
                out_lines.append('SELFTEST %s %-26s silent as required' % (pid, vid))
                per.append({'variant': vid, 'kind': 'silent', 'status': 'silent'})
    summary = {'variants': len(sel), 'must_fire_ok': nfire, 'must_stay_silent_ok': nsilent, 'stale': nstale,
               'broken': broken, 'per_variant': per}
    return {'summary': summary, 'lines': out_lines, 'broken': '; '.join(broken) if broken else None,
            'wall_s': round(time.time() - t0, 3)}


# ---- round 4 (seeded changes d1..d3): rules added after first contact
ND = 'pyasn1/codec/native/decoder.py'
NTY = 'pyasn1/type/namedtype.py'
V('M-no-clear-indef', ['C08', 'C10', 'C16'], 'A13.clear', BD, "        asn1Object = asn1Spec.clone()\n        asn1Object.clear()\n", "        asn1Object = asn1Spec.clone()\n", count=2)
V('M-scalar-proto-tag', ['C16'], 'C16.tags', BD, "            return self.protoComponent.clone(value, tagSet=tagSet)", "            return self.protoComponent.clone(value)")
V('M-native-binvalue', ['C17'], 'C17.native', ND, "        return asn1Spec.clone(univ.BitString.fromBinaryString(pyObject))", "        return asn1Spec.clone(binValue=pyObject)")
V('M-openflag-elif', ['C18'], 'A6.openflag', NTY,
  "        self.__hasOpenTypes = any([True for namedType in self.__namedTypes\n                                   if namedType.openType])",
  "        self.__hasOpenTypes = any([True for namedType in self.__namedTypes\n                                   if namedType.openType and not namedType.isOptional])")
V('M-dot-window', ['C20'], 'A11.canon', CE, "        if self.DOT_CHAR in numbers:", "        if self.DOT_CHAR in numbers[-5:]:")
V('M-cer-bool-next', ['C05', 'C06'], 'A2.next', CD,
  "        for chunk in readFromStream(substrate, length, options):\n            if isinstance(chunk, SubstrateUnderrunError):\n                yield chunk\n\n        byte = oct2int(chunk[0])",
  "        chunk = next(readFromStream(substrate, length, options))\n\n        byte = oct2int(chunk[0])")
V('M-no-probe', ['C05', 'C06'], ('A2.probe', 'A3.trunc', 'A2.retry'), ST, "            more = substrate.read(1)", "            more = isinstance(substrate, io.BytesIO) and substrate.read(1) or None")

# round 5 (defects reported by agents, repaired in /repo; DESIGN.md section 10)
V('M-ifne-inherit', ['C01', 'C02'], 'A5.itemopt', BE, "        ifNotEmpty = options.pop('ifNotEmpty', False)", "        ifNotEmpty = options.get('ifNotEmpty', False)")
V('M-cer-bitseg', ['C03'], 'A7.bitseg', CE, "            options.update(maxChunkSize=maxChunkSize - 1)", "            options.update(maxChunkSize=maxChunkSize)")
V('M-cer-bitseg-unregistered', ['C03'], 'A7.bitseg', CE, "    univ.BitString.typeId: BitStringEncoder(),\n", "")
V('M-wrap-none', ['C05', 'C11'], 'A12.none', ST,
  "        if read_from_raw is None:  # non-blocking stream has nothing yet\n            return read_from_cache or None\n\n", "")
V('M-peek-none', ['C11'], 'A12.none', ST, "        if result:\n            self._cache.seek(-len(result), os.SEEK_CUR)", "        self._cache.seek(-len(result), os.SEEK_CUR)")


V('M-seg-octets-spec', ['C17', 'C02', 'C03'], 'W.segspec', BE,
  "        else:\n            baseTag = asn1Spec.tagSet.baseTag\n\n            # strip off explicit tags\n            if baseTag:\n                tagSet = tag.TagSet(baseTag, baseTag)\n\n            else:\n                tagSet = tag.TagSet()\n\n            asn1Spec = asn1Spec.clone(tagSet=tagSet)",
  "        elif not isOctetsType(value):\n            baseTag = asn1Spec.tagSet.baseTag\n\n            # strip off explicit tags\n            if baseTag:\n                tagSet = tag.TagSet(baseTag, baseTag)\n\n            else:\n                tagSet = tag.TagSet()\n\n            asn1Spec = asn1Spec.clone(tagSet=tagSet)")
V('M-seg-bits-spec', ['C17', 'C03'], 'W.segspec', BE, "            substrate += encodeFun(alignedValue[start:stop], None, **options)", "            substrate += encodeFun(alignedValue[start:stop], asn1Spec, **options)")
V('M-choice-eoo-probe', ['C01', 'C02', 'C09'], 'A8.probe', BD,
  "                    substrate, asn1Object.componentType.tagMapUnique,\n                    tagSet, length, state, **options)",
  "                    substrate, asn1Object.componentType.tagMapUnique,\n                    tagSet, length, state, **dict(options, allowEoo=True))")


# round 5 of seeded changes (e1..e3): rules added after first contact
CH = 'pyasn1/type/char.py'
V('M-real-int-raw', ['C04', 'C02'], 'W.real10in', UN, "            return self.__normalizeBase10((value, 10, 0))", "            return value, 10, 0")
V('M-wrap-drop-cached', ['C05', 'C11'], 'A12.cache', ST, "            return read_from_cache or None", "            return None")
V('M-cer-bool-table', ['C08'], 'A3.partial', CD,
  "        if byte == 0xff:\n            value = 1\n\n        elif byte == 0x00:\n            value = 0\n\n        else:\n            raise error.PyAsn1Error('Unexpected Boolean payload: %s' % byte)",
  "        value = {0xff: 1, 0x00: 0}[byte]")
V('M-char-surrogatepass', ['C10', 'C08'], 'C10.strictdec', CH,
  "                elif isinstance(value, bytes):\n                    return value.decode(self.encoding)",
  "                elif isinstance(value, bytes):\n                    return value.decode(self.encoding, 'surrogatepass')")
V('M-bits-form-outer', ['C13', 'C09'], 'A6.form', BD, "        if tagSet[0].tagFormat == tag.tagFormatSimple:  # XXX what tag to check?", "        if tagSet[-1].tagFormat == tag.tagFormatSimple:")
V('M-empty-is-consistent', ['C14', 'C10'], 'C14.consult', UN,
  "        if self._componentValues is noValue:\n            return True\n\n        mapping = {}\n\n        for idx, value in self._componentValues.items():",
  "        if self._componentValues is noValue:\n            return True\n\n        if not self._componentValues:\n            return False\n\n        mapping = {}\n\n        for idx, value in self._componentValues.items():")
V('M-items-skip-absent', ['C17'], 'C17.items', UN,
  "            if self._componentTypeLen:\n                yield self.componentType[idx].name, self[idx]",
  "            if self._componentTypeLen:\n                component = self.getComponentByPosition(idx, instantiate=False)\n                if component is not noValue:\n                    yield self.componentType[idx].name, component")
V('M-offset-wrapped', ['C20'], 'A11.tz', US, "            self.__offset = datetime.timedelta(minutes=offset)", "            offset = (offset + 720) % 1440 - 720\n            self.__offset = datetime.timedelta(minutes=offset)")


V('M-bits-empty-any-form', ['C09'], 'A6.zeroseg', BD,
  "        if tagSet[0].tagFormat == tag.tagFormatSimple:  # XXX what tag to check?\n\n            # (the constructed form may well consist of no segments at all)\n            if not length:\n                raise error.PyAsn1Error('Empty BIT STRING substrate')\n",
  "        if not length:\n            raise error.PyAsn1Error('Empty BIT STRING substrate')\n\n        if tagSet[0].tagFormat == tag.tagFormatSimple:  # XXX what tag to check?\n")
V('M-copy-not-cleared', ['C04', 'C19'], 'C04.copyvalue', UN, "        # the copy of a value is a value, also when there is nothing in it\n        myClone.clear()\n\n", "")
V('M-native-list-not-cleared', ['C17'], 'C17.clear', ND, "        # an empty list is a value all the same\n        asn1Value.clear()\n\n", "")


V('M-union-add-widens', ['C14'], 'C14.narrow', CO, "    def __add__(self, value):\n        return ConstraintsIntersection(self, value)\n", "    def __add__(self, value):\n        return self._derive(self._values + (value,))\n")


# round 6 of seeded changes (f1..f3)
V('M-bitslice-unsized', ['C01', 'C02'], 'W.bitslice', UN, "            return self.clone([self[x] for x in range(*i.indices(len(self)))])",
  "            start, stop, step = i.indices(len(self))\n            if step == 1:\n                width = max(stop - start, 0)\n                bits = (self._value >> (len(self) - start - width)) & ((1 << width) - 1)\n                return self.clone(SizedInteger(bits))\n            return self.clone([self[x] for x in range(start, stop, step)])")
V('M-bitslice-class', ['C13'], 'W.bitslice', UN, "            return self.clone([self[x] for x in range(*i.indices(len(self)))])", "            return self.__class__([self[x] for x in range(*i.indices(len(self)))])")
V('M-required-unless-valued', ['C10', 'C09'], 'C10.reqset', NTY,
  "[idx for idx, nt in enumerate(self.__namedTypes) if not nt.isOptional and not nt.isDefaulted]",
  "[idx for idx, nt in enumerate(self.__namedTypes) if not (nt.isOptional or nt.isDefaulted or nt.asn1Object.isValue)]")
V('M-cer-setof-empty-early', ['C14'], 'C14.encall', CE, "        chunks = self._encodeComponents(\n            value, asn1Spec, encodeFun, **options)\n\n        # sort by serialised and padded components",
  "        if not len(value):\n            return null, True, True\n\n        chunks = self._encodeComponents(\n            value, asn1Spec, encodeFun, **options)\n\n        # sort by serialised and padded components")
V('M-dynnames-sorted', ['C16'], 'C16.dynorder', UN, "            return (self._idxToKeyMap[idx] for idx in range(len(self._idxToKeyMap)))", "            return iter(sorted(self._keyToIdxMap))")
V('M-asbinary-zfill', ['C17'], 'W.binstr', UN, "        binString = bin(self._value)[2:].lstrip('0')\n        return '0' * (len(self._value) - len(binString)) + binString", "        return bin(self._value)[2:].zfill(len(self._value))")


# round 7 of seeded changes (g1..g3): operators, properties, class constants, tables
V('M-ber-omit-empty', ['C01', 'C10'], 'A1.omit', BE, "    omitEmptyOptionals = False", "    omitEmptyOptionals = True")
V('M-biteq-no-length', ['C02', 'C10'], 'W.biteq', UN, "        return self is other or self._value == other and len(self._value) == len(other)", "        return self is other or self._value == other")
V('M-choice-efftag-plain', ['C07', 'C09'], 'A10.efftag', UN, "            return component.effectiveTagSet", "            return component.tagSet")
V('M-octets-radd-appends', ['C09', 'C08'], 'W.radd', UN, "        return self.clone(self.prettyIn(value) + self._value)", "        return self + value")
V('M-eos-any-seekable', ['C11', 'C05'], 'A12.eospos', ST, "    if isinstance(substrate, io.BytesIO):\n        cp = substrate.tell()", "    if isinstance(substrate, io.BytesIO) or substrate.seekable():\n        cp = substrate.tell()")
V('M-der-flag-on-shared', ['C12', 'C15'], 'A1.shared', DD, "        typeDecoder = typeDecoder.__class__()\n", "")
V('M-value-set-xor', ['C14'], 'C14.setops', CO, "        return self.__class__(*(self._set.union(constraint)))\n\n    def __sub__(self, constraint):\n        return self.__class__(*(self._set.difference(constraint)))", "        return self.__class__(*(self._set.union(constraint)))\n\n    def __sub__(self, constraint):\n        return self.__class__(*(self._set ^ set(constraint)))")
V('M-native-setof-by-tag', ['C17'], 'A1.nativeof', ND, "    univ.SetOf.typeId: SequenceOfOrSetOfPayloadDecoder(),\n", "")
V('M-novalue-hashable', ['C19'], 'A10.plug', BA, "        '__slots__',\n", "        '__slots__',\n        '__hash__',\n")
V('M-cer-set-member-own-tags', ['C13'], 'C13.setspec', CE, "                comps.append((component, asn1Spec[idx]))", "                comps.append((component, None))")


if __name__ == '__main__':
    from sa import props
    pids = sys.argv[1:] or sorted(props.PROPS)
    bad = 0
    for pid in pids:
        r = run_for_property(pid)
        for l in r['lines']:
            print(l)
        print('== %s: fire %d silent %d stale %d wall %.1fs %s' % (pid, r['summary']['must_fire_ok'], r['summary']['must_stay_silent_ok'],
                                                                  r['summary']['stale'], r['wall_s'], ('BROKEN: ' + r['broken']) if r['broken'] else 'ok'))
        bad += bool(r['broken'])
    sys.exit(1 if bad else 0)
