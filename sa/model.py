"""Program model: modules, import/alias resolution, classes, C3 MRO, lookup.

All facts come from parsing the files under <repo>/pyasn1.  `if` statements on
`sys.version_info` are resolved for the Python-3/CPython view (the only view
the pinned test-suite and this sandbox can run); the other arm is ignored.
"""
import ast
import hashlib
import os

REPO = os.environ.get('PYASN1_REPO', '/repo')
PKG = 'pyasn1'


class AnalysisError(Exception):
    """The analyser cannot decide (missing anchor, unknown shape)."""


def norm(node):
    """Normalised text of a node: the key used for finding identity."""
    if node is None:
        return '<none>'
    if isinstance(node, str):
        return node
    return ' '.join(ast.unparse(node).split())


class External(object):
    def __init__(self, name):
        self.name = name
        self.qualname = name

    def __eq__(self, other):
        return isinstance(other, External) and other.name == self.name

    def __ne__(self, other):
        return not self.__eq__(other)

    def __hash__(self):
        return hash(('External', self.name))

    def __repr__(self):
        return '<External %s>' % self.name


class ValueRef(object):
    """A module- or class-level name bound to an expression."""

    def __init__(self, module, expr, cls=None, stmt=None):
        self.module = module
        self.expr = expr
        self.cls = cls
        self.stmt = stmt

    def __repr__(self):
        return '<ValueRef %s>' % norm(self.expr)


class FuncInfo(object):
    def __init__(self, module, node, cls=None, outer=None):
        self.module = module
        self.node = node
        self.cls = cls
        self.outer = outer
        self.name = node.name
        if outer is not None:
            self.qualname = outer.qualname + '.<locals>.' + node.name
        elif cls is not None:
            self.qualname = cls.qualname + '.' + node.name
        else:
            self.qualname = module.name + '.' + node.name
        self.decorators = [norm(d) for d in node.decorator_list]

    @property
    def short(self):
        q = self.qualname
        return q[len(PKG) + 1:] if q.startswith(PKG + '.') else q

    @property
    def is_generator(self):
        for n in walk_own(self.node):
            if isinstance(n, (ast.Yield, ast.YieldFrom)):
                return True
        return False

    def params(self):
        a = self.node.args
        names = [x.arg for x in a.posonlyargs + a.args + a.kwonlyargs]
        if a.vararg:
            names.append(a.vararg.arg)
        if a.kwarg:
            names.append(a.kwarg.arg)
        return names

    def loc(self, node=None):
        n = node if node is not None else self.node
        return '%s:%d' % (self.module.relpath, getattr(n, 'lineno', 0))

    def __repr__(self):
        return '<Func %s>' % self.qualname


class ClassInfo(object):
    def __init__(self, module, node, outer=None):
        self.module = module
        self.node = node
        self.name = node.name
        self.outer = outer
        if outer is not None:
            self.qualname = outer.qualname + '.' + node.name
        else:
            self.qualname = module.name + '.' + node.name
        self.attrs = {}      # name -> list of ('func', FuncInfo)|('value', expr, stmt)|('class', ClassInfo)
        self.bases = []      # resolved later
        self.mro = None
        self.body = []       # py3 view, flattened

    @property
    def short(self):
        q = self.qualname
        return q[len(PKG) + 1:] if q.startswith(PKG + '.') else q

    def own(self, name):
        d = self.attrs.get(name)
        return d[-1] if d else None

    def lookup(self, name):
        """(owner ClassInfo, definition) of attribute `name` along the MRO."""
        for c in self.mro:
            if isinstance(c, ClassInfo):
                d = c.own(name)
                if d is not None:
                    return c, d
        return None, None

    def method(self, name):
        owner, d = self.lookup(name)
        if d is not None and d[0] == 'func':
            return d[1]
        return None

    def is_subclass_of(self, other):
        return other in self.mro

    def subclass_of_name(self, qualname):
        for c in self.mro:
            if c.qualname == qualname:
                return True
        return False

    def __repr__(self):
        return '<Class %s>' % self.qualname


class Module(object):
    def __init__(self, name, path, relpath, src):
        self.name = name
        self.path = path
        self.relpath = relpath
        self.src = src
        self.tree = ast.parse(src, filename=path)
        self.tree._src = src
        self.tree._root = path[:-len(relpath)] if path.endswith(relpath) else None
        from sa import alpha
        self.alpha_renames = alpha.normalise(self.tree, relpath)
        self.fn_status = getattr(self.tree, '_sa_status', {})   # key ('Class.method') -> (status, distance, limit)
        self.bindings = {}   # name -> list of binding tuples
        self.body = []       # py3 view, flattened top-level statements
        for parent in ast.walk(self.tree):
            for child in ast.iter_child_nodes(parent):
                child.parent = parent
        self.tree.parent = None

    def bind(self, name, b):
        self.bindings.setdefault(name, []).append(b)

    def __repr__(self):
        return '<Module %s>' % self.name


def walk_own(fnode):
    """Walk a function body without descending into nested defs/lambdas/classes."""
    stack = list(reversed(fnode.body)) if hasattr(fnode, 'body') and isinstance(fnode.body, list) else [fnode]
    while stack:
        n = stack.pop()
        yield n
        for c in ast.iter_child_nodes(n):
            if isinstance(c, (ast.FunctionDef, ast.AsyncFunctionDef, ast.Lambda, ast.ClassDef)):
                continue
            stack.append(c)


def py3_truth(expr, module=None):
    """Truth of a version test on the CPython-3 view; None if not a version test."""
    PY = (3, 12)

    def val(e):
        # returns ('v', value) or None
        if isinstance(e, ast.Constant):
            return ('v', e.value)
        if isinstance(e, ast.Tuple):
            xs = [val(x) for x in e.elts]
            if all(xs):
                return ('v', tuple(x[1] for x in xs))
            return None
        if isinstance(e, ast.Attribute) and e.attr == 'version_info':
            return ('v', PY)
        if isinstance(e, ast.Name) and e.id == 'version_info':
            return ('v', PY)
        if isinstance(e, ast.Subscript):
            b = val(e.value)
            i = val(e.slice)
            if b and i:
                try:
                    return ('v', b[1][i[1]])
                except Exception:
                    return None
            return None
        if isinstance(e, ast.Name) and e.id == 'implementation':
            return ('v', 'CPython')
        if isinstance(e, ast.Name) and module is not None:
            bs = module.bindings.get(e.id)
            if bs and bs[-1][0] == 'value':
                t = py3_truth(bs[-1][1], module)
                if t is not None:
                    return ('v', t)
        return None

    if isinstance(expr, ast.Compare) and len(expr.ops) == 1:
        l, r = val(expr.left), val(expr.comparators[0])
        if l and r:
            op = expr.ops[0]
            try:
                if isinstance(op, ast.Lt):
                    return l[1] < r[1]
                if isinstance(op, ast.LtE):
                    return l[1] <= r[1]
                if isinstance(op, ast.Gt):
                    return l[1] > r[1]
                if isinstance(op, ast.GtE):
                    return l[1] >= r[1]
                if isinstance(op, ast.Eq):
                    return l[1] == r[1]
                if isinstance(op, ast.NotEq):
                    return l[1] != r[1]
            except TypeError:
                return None
        return None
    if isinstance(expr, ast.BoolOp):
        ts = [py3_truth(v, module) for v in expr.values]
        if isinstance(expr.op, ast.Or):
            if any(t is True for t in ts):
                return True
            if all(t is False for t in ts):
                return False
            return None
        else:
            if any(t is False for t in ts):
                return False
            if all(t is True for t in ts):
                return True
            return None
    if isinstance(expr, ast.UnaryOp) and isinstance(expr.op, ast.Not):
        t = py3_truth(expr.operand, module)
        return None if t is None else (not t)
    if isinstance(expr, ast.Name):
        v = val(expr)
        if v and isinstance(v[1], bool):
            return v[1]
    return None


def mentions_version(expr):
    for n in ast.walk(expr):
        if isinstance(n, ast.Attribute) and n.attr == 'version_info':
            return True
        if isinstance(n, ast.Name) and n.id in ('version_info', '_PY2'):
            return True
    return False


def flatten_py3(stmts, module):
    """Replace version-dependent `if` statements by their live arm."""
    out = []
    for s in stmts:
        if isinstance(s, ast.If) and mentions_version(s.test):
            t = py3_truth(s.test, module)
            if t is True:
                out.extend(flatten_py3(s.body, module))
                continue
            if t is False:
                out.extend(flatten_py3(s.orelse, module))
                continue
        out.append(s)
    return out


class Program(object):
    def __init__(self, repo=None):
        self.repo = repo or REPO
        self.modules = {}
        self.classes = {}
        self.functions = {}
        self._load()

    # ------------------------------------------------------------------ load
    def _load(self):
        root = os.path.join(self.repo, PKG)
        if not os.path.isdir(root):
            raise AnalysisError('no package directory %s' % root)
        h = hashlib.sha256()
        paths = []
        for d, ds, fs in os.walk(root):
            ds.sort()
            for f in sorted(fs):
                if f.endswith('.py'):
                    paths.append(os.path.join(d, f))
        for p in paths:
            rel = os.path.relpath(p, self.repo)
            name = rel[:-3].replace(os.sep, '.')
            if name.endswith('.__init__'):
                name = name[:-9]
            with open(p, 'rb') as fh:
                raw = fh.read()
            h.update(rel.encode() + b'\0' + raw)
            try:
                self.modules[name] = Module(name, p, rel, raw.decode('utf-8'))
            except SyntaxError as e:
                raise AnalysisError('cannot parse %s: %s' % (rel, e))
        self.digest = h.hexdigest()
        for m in self.modules.values():
            self._scan_module(m)
        for c in list(self.classes.values()):
            self._resolve_bases(c)
        for c in self.classes.values():
            self._mro(c)

    def _scan_module(self, m):
        # two passes so that `_PY2 = sys.version_info < (3,)` is known first
        for s in m.tree.body:
            if isinstance(s, ast.Assign) and len(s.targets) == 1 and isinstance(s.targets[0], ast.Name):
                if mentions_version(s.value):
                    m.bind(s.targets[0].id, ('value', s.value, s))
        m.bindings_pre = dict(m.bindings)
        m.bindings = {}
        m.body = flatten_py3(m.tree.body, _Pre(m))
        self._scan_block(m, m.body, None, None)

    def _scan_block(self, m, stmts, cls, outerfunc):
        for s in stmts:
            if isinstance(s, ast.Import):
                for a in s.names:
                    if cls is None:
                        m.bind(a.asname or a.name.split('.')[0], ('module', a.name if a.asname else a.name.split('.')[0]))
            elif isinstance(s, ast.ImportFrom):
                for a in s.names:
                    if cls is None:
                        m.bind(a.asname or a.name, ('from', s.module, a.name))
            elif isinstance(s, (ast.FunctionDef, ast.AsyncFunctionDef)):
                fi = FuncInfo(m, s, cls, outerfunc)
                self.functions[fi.qualname] = fi
                if cls is not None and outerfunc is None:
                    cls.attrs.setdefault(s.name, []).append(('func', fi))
                elif outerfunc is None:
                    m.bind(s.name, ('func', fi))
                self._scan_nested(m, s, fi)
            elif isinstance(s, ast.ClassDef):
                ci = ClassInfo(m, s, cls)
                self.classes[ci.qualname] = ci
                if cls is not None:
                    cls.attrs.setdefault(s.name, []).append(('class', ci))
                elif outerfunc is None:
                    m.bind(s.name, ('class', ci))
                ci.body = flatten_py3(s.body, m)
                self._scan_block(m, ci.body, ci, None)
            elif isinstance(s, ast.Assign):
                for t in s.targets:
                    self._bind_target(m, cls, t, s.value, s)
            elif isinstance(s, ast.AugAssign):
                pass
            elif isinstance(s, ast.Try):
                # class/module level try: (e.g. Real._plusInf) - take body, then handlers are alternatives
                self._scan_block(m, s.body, cls, outerfunc)
                self._scan_block(m, s.orelse, cls, outerfunc)
            elif isinstance(s, ast.If):
                # non-version if at module/class level: scan both arms
                self._scan_block(m, s.body, cls, outerfunc)
                self._scan_block(m, s.orelse, cls, outerfunc)

    def _bind_target(self, m, cls, t, value, stmt):
        if isinstance(t, ast.Name):
            if cls is not None:
                cls.attrs.setdefault(t.id, []).append(('value', value, stmt))
            else:
                m.bind(t.id, ('value', value, stmt))
        elif isinstance(t, (ast.Tuple, ast.List)):
            for i, e in enumerate(t.elts):
                if isinstance(e, ast.Name):
                    sub = ast.Subscript(value=value, slice=ast.Constant(value=i), ctx=ast.Load())
                    if isinstance(value, (ast.Tuple, ast.List)) and len(value.elts) == len(t.elts):
                        sub = value.elts[i]
                    if cls is not None:
                        cls.attrs.setdefault(e.id, []).append(('value', sub, stmt))
                    else:
                        m.bind(e.id, ('value', sub, stmt))

    def _scan_nested(self, m, fnode, fi):
        for n in walk_own(fnode):
            for c in ast.iter_child_nodes(n):
                if isinstance(c, (ast.FunctionDef, ast.AsyncFunctionDef)):
                    sub = FuncInfo(m, c, fi.cls, fi)
                    self.functions[sub.qualname] = sub
                    self._scan_nested(m, c, sub)
        for c in fnode.body:
            if isinstance(c, (ast.FunctionDef, ast.AsyncFunctionDef)):
                sub = FuncInfo(m, c, fi.cls, fi)
                if sub.qualname not in self.functions:
                    self.functions[sub.qualname] = sub
                    self._scan_nested(m, c, sub)

    # --------------------------------------------------------------- resolve
    def module_of(self, name):
        return self.modules.get(name)

    def resolve_name(self, m, name, _depth=0):
        if _depth > 20:
            return None
        bs = m.bindings.get(name)
        if not bs:
            return External(name)
        b = bs[-1]
        k = b[0]
        if k == 'module':
            return self.modules.get(b[1]) or External(b[1])
        if k == 'from':
            full = '%s.%s' % (b[1], b[2])
            if full in self.modules:
                return self.modules[full]
            src = self.modules.get(b[1])
            if src is None:
                return External(full)
            return self.resolve_name(src, b[2], _depth + 1)
        if k == 'class':
            return b[1]
        if k == 'func':
            return b[1]
        if k == 'value':
            r = self.resolve_expr(m, b[1], _depth + 1)
            if isinstance(r, (Module, ClassInfo, FuncInfo)):
                return r
            return ValueRef(m, b[1], stmt=b[2])
        return None

    def resolve_expr(self, m, expr, _depth=0):
        """Resolve a Name/Attribute chain to Module/ClassInfo/FuncInfo/ValueRef/External."""
        if _depth > 20:
            return None
        if isinstance(expr, ast.Name):
            return self.resolve_name(m, expr.id, _depth + 1)
        if isinstance(expr, ast.Attribute):
            base = self.resolve_expr(m, expr.value, _depth + 1)
            if isinstance(base, Module):
                if '%s.%s' % (base.name, expr.attr) in self.modules and expr.attr not in base.bindings:
                    return self.modules['%s.%s' % (base.name, expr.attr)]
                return self.resolve_name(base, expr.attr, _depth + 1)
            if isinstance(base, ClassInfo):
                owner, d = base.lookup(expr.attr)
                if d is None:
                    return None
                if d[0] == 'func':
                    return d[1]
                if d[0] == 'class':
                    return d[1]
                r = self.resolve_expr(owner.module, d[1], _depth + 1)
                if isinstance(r, (Module, ClassInfo, FuncInfo)):
                    return r
                return ValueRef(owner.module, d[1], cls=owner, stmt=d[2])
            if isinstance(base, External):
                return External(base.name + '.' + expr.attr)
            return None
        return None

    def resolve_class(self, m, expr):
        r = self.resolve_expr(m, expr)
        return r if isinstance(r, ClassInfo) else None

    def _resolve_bases(self, c):
        for b in c.node.bases:
            r = self.resolve_expr(c.module, b)
            if isinstance(r, ClassInfo):
                c.bases.append(r)
            else:
                c.bases.append(External(norm(b)))

    def _mro(self, c, _stack=()):
        if c.mro is not None:
            return c.mro
        if c in _stack:
            raise AnalysisError('inheritance cycle at %s' % c.qualname)
        seqs = []
        for b in c.bases:
            if isinstance(b, ClassInfo):
                seqs.append(list(self._mro(b, _stack + (c,))))
            else:
                seqs.append([b])
        seqs.append(list(c.bases))
        res = [c]
        seqs = [s for s in seqs if s]
        while seqs:
            for s in seqs:
                cand = s[0]
                if not any(cand in t[1:] for t in seqs):
                    break
            else:
                raise AnalysisError('inconsistent MRO for %s' % c.qualname)
            res.append(cand)
            seqs = [[x for x in s if x != cand] for s in seqs]
            seqs = [s for s in seqs if s]
        c.mro = res
        return res

    # ------------------------------------------------------------- accessors
    def func(self, qualname):
        q = qualname if qualname.startswith(PKG + '.') else PKG + '.' + qualname
        f = self.functions.get(q)
        if f is None:
            # method inherited? resolve through the class
            mod_cls, _, meth = q.rpartition('.')
            c = self.classes.get(mod_cls)
            if c is not None:
                f = c.method(meth)
        if f is None:
            raise AnalysisError('anchor function not found: %s' % qualname)
        return f

    def own_func(self, qualname):
        q = qualname if qualname.startswith(PKG + '.') else PKG + '.' + qualname
        return self.functions.get(q)

    def cls(self, qualname):
        q = qualname if qualname.startswith(PKG + '.') else PKG + '.' + qualname
        c = self.classes.get(q)
        if c is None:
            # maybe an alias at module level
            modname, _, name = q.rpartition('.')
            m = self.modules.get(modname)
            if m is not None:
                r = self.resolve_name(m, name)
                if isinstance(r, ClassInfo):
                    return r
            raise AnalysisError('anchor class not found: %s' % qualname)
        return c

    def mod(self, name):
        q = name if name.startswith(PKG) else PKG + '.' + name
        m = self.modules.get(q)
        if m is None:
            raise AnalysisError('anchor module not found: %s' % name)
        return m

    def subclasses(self, c):
        return [k for k in self.classes.values() if c in k.mro]

    def all_functions(self):
        return sorted(self.functions.values(), key=lambda f: f.qualname)

    def is_exc_family(self, c, rootname='pyasn1.error.PyAsn1Error'):
        return isinstance(c, ClassInfo) and c.subclass_of_name(rootname)


class _Pre(object):
    """Module facade exposing only the version-variable bindings (first pass)."""

    def __init__(self, m):
        self.bindings = m.bindings_pre


def enclosing_function(node):
    n = getattr(node, 'parent', None)
    while n is not None and not isinstance(n, (ast.FunctionDef, ast.AsyncFunctionDef)):
        n = getattr(n, 'parent', None)
    return n


def ancestors(node, stop=None):
    n = getattr(node, 'parent', None)
    while n is not None and n is not stop:
        yield n
        n = getattr(n, 'parent', None)
