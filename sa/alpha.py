"""Alpha-normalisation of function locals.

Many rules name a local variable of the analysed function (`concreteDecoder`, `chunk`, `idx` ...): the name is
how the rule was written down when the instance was confirmed by reading.  A behaviour-preserving rename of a
local must not change any verdict, so before any rule runs the model renames the locals of each function *back*
to the names of the reference table `sa/localnames.json` (generated from the tree on which the rule instances
were confirmed, by `python -m sa.alpha --generate`).

The mapping is computed from the code, never from the names:

  * the locals of a function are its Store-bound names that are not parameters, not declared global/nonlocal,
    not `except ... as` names and not mentioned by a nested def/lambda/class;
  * each local gets a fingerprint: the ordered list of its binding shapes, where a shape is the statement kind,
    the position of the name inside the target, and the bound expression with every local replaced by `_`;
  * the sequence of fingerprints (order of first binding) is aligned with the reference sequence of the same
    function (difflib); an aligned pair with different names becomes a rename current -> reference;
  * the set of renames is applied only if it is injective and no target collides with a name that stays.

The result is alpha-equivalent to the file on disk (a consistent renaming of locals inside one function), so a
verdict on the normalised tree is a verdict on the real one.  Locals that cannot be aligned keep their names:
the rules then behave exactly as they did without this pass.  Line numbers are untouched.
"""
import ast
import difflib
import json
import os

TABLE = os.path.join(os.path.dirname(os.path.abspath(__file__)), 'localnames.json')
_SCOPES = (ast.FunctionDef, ast.AsyncFunctionDef, ast.Lambda, ast.ClassDef)


def _own(fn):
    """Nodes of the function body in source order, nested scopes yielded but not entered."""
    out = []

    def rec(n):
        out.append(n)
        if isinstance(n, _SCOPES):
            return
        for c in ast.iter_child_nodes(n):
            rec(c)
    for s in fn.body:
        rec(s)
    return out


def _locals(fn):
    a = fn.args
    banned = set(x.arg for x in a.args + a.kwonlyargs + a.posonlyargs)
    if a.vararg:
        banned.add(a.vararg.arg)
    if a.kwarg:
        banned.add(a.kwarg.arg)
    order = []
    nodes = _own(fn)
    for n in nodes:
        if isinstance(n, ast.Name) and isinstance(n.ctx, ast.Store) and n.id not in order:
            order.append(n.id)
        elif isinstance(n, (ast.Global, ast.Nonlocal)):
            banned.update(n.names)
        elif isinstance(n, ast.ExceptHandler) and n.name:
            banned.add(n.name)
        elif isinstance(n, (ast.Import, ast.ImportFrom)):
            for al in n.names:
                banned.add((al.asname or al.name).split('.')[0])
        elif isinstance(n, _SCOPES):
            for m in ast.walk(n):
                if isinstance(m, ast.Name):
                    banned.add(m.id)
                elif isinstance(m, ast.arg):
                    banned.add(m.arg)
            if hasattr(n, 'name'):
                banned.add(n.name)
    return [x for x in order if x not in banned], nodes


def _mask(node, loc):
    """Text of `node` with locals replaced by `_` (on a clone: the tree is not touched)."""
    if node is None:
        return ''
    t = ast.parse(ast.unparse(node), mode='eval').body if isinstance(node, ast.expr) else None
    if t is None:
        return type(node).__name__
    for m in ast.walk(t):
        if isinstance(m, ast.Name) and m.id in loc:
            m.id = '_'
    return ' '.join(ast.unparse(t).split())


def _names_in_target(t):
    """Store names of a target with their structural path."""
    out = []

    def rec(x, path):
        if isinstance(x, ast.Name):
            out.append((x.id, path))
        elif isinstance(x, (ast.Tuple, ast.List)):
            for i, e in enumerate(x.elts):
                rec(e, path + '.%d' % i)
        elif isinstance(x, ast.Starred):
            rec(x.value, path + '*')
    rec(t, '')
    return out


def fingerprints(fn):
    """[(local name, fingerprint)] in order of first binding."""
    loc, nodes = _locals(fn)
    locset = set(loc)
    shapes = dict((x, []) for x in loc)

    def add(target, kind, value):
        for name, path in _names_in_target(target):
            if name in shapes:
                shapes[name].append('%s%s:%s' % (kind, path, _mask(value, locset)))
    for n in nodes:
        if isinstance(n, ast.Assign):
            for t in n.targets:
                add(t, '=', n.value)
        elif isinstance(n, ast.AugAssign):
            add(n.target, type(n.op).__name__ + '=', n.value)
        elif isinstance(n, ast.AnnAssign) and n.value is not None:
            add(n.target, '=', n.value)
        elif isinstance(n, (ast.For, ast.AsyncFor)):
            add(n.target, 'for', n.iter)
        elif isinstance(n, ast.comprehension):
            add(n.target, 'comp', n.iter)
        elif isinstance(n, ast.withitem) and n.optional_vars is not None:
            add(n.optional_vars, 'with', n.context_expr)
        elif isinstance(n, ast.NamedExpr):
            add(n.target, ':=', n.value)
    return [(x, '|'.join(shapes[x])) for x in loc]


def functions(tree):
    """(key, FunctionDef) for every def of a module, keys unique ('Class.func', 'func', '#n' on repeats)."""
    seen = {}
    out = []

    def rec(body, prefix):
        for n in body:
            if isinstance(n, (ast.FunctionDef, ast.AsyncFunctionDef)):
                k = prefix + n.name
                seen[k] = seen.get(k, 0) + 1
                if seen[k] > 1:
                    k = '%s#%d' % (k, seen[k])
                out.append((k, n))
                rec(n.body, k + '.')
            elif isinstance(n, ast.ClassDef):
                rec(n.body, prefix + n.name + '.')
            else:
                for f in ('body', 'orelse', 'finalbody', 'handlers'):
                    sub = getattr(n, f, None)
                    if isinstance(sub, list):
                        rec([x for x in sub if isinstance(x, ast.stmt)] +
                            [y for x in sub if isinstance(x, ast.ExceptHandler) for y in x.body], prefix)
    rec(tree.body, '')
    return out


_FLIP = {ast.Lt: ast.Gt, ast.Gt: ast.Lt, ast.LtE: ast.GtE, ast.GtE: ast.LtE, ast.Eq: ast.Eq, ast.NotEq: ast.NotEq}


def _is_const(e):
    return isinstance(e, ast.Constant) or (isinstance(e, ast.UnaryOp) and isinstance(e.op, ast.USub) and isinstance(e.operand, ast.Constant))


class _NormalForm(ast.NodeTransformer):
    """Two spelling normalisations that cannot change behaviour:

      `c < x`  ->  `x > c`      single comparison, literal on the left and not on the right (no evaluation order
                                to preserve: a literal has no effects)
      `x = x + k` -> `x += k`   local name, + or -, integer literal k (then `x` is a number: no in-place/aliasing
                                difference between the two forms)
      `if a: if b: X` -> `if a and b: X`   neither `if` has an else and the inner one is the whole body
    """

    def __init__(self):
        self.count = 0

    def visit_Call(self, n):
        # f(*(X + (y, z)))  ->  f(*X, y, z)      f(*((y,) + X))  ->  f(y, *X)
        # the same argument list, built by the call instead of by a tuple concatenation (X is evaluated before y either way)
        self.generic_visit(n)
        if any(isinstance(a, ast.Starred) and isinstance(a.value, ast.BinOp) and isinstance(a.value.op, ast.Add) for a in n.args):
            def flat(v):
                if isinstance(v, ast.BinOp) and isinstance(v.op, ast.Add) and (isinstance(v.left, ast.Tuple) or isinstance(v.right, ast.Tuple)):
                    return flat(v.left) + flat(v.right)
                if isinstance(v, ast.Tuple) and not any(isinstance(x, ast.Starred) for x in v.elts):
                    return list(v.elts)
                return [ast.Starred(value=v, ctx=ast.Load())]
            new = []
            changed = False
            for a in n.args:
                if isinstance(a, ast.Starred) and isinstance(a.value, ast.BinOp) and isinstance(a.value.op, ast.Add):
                    parts = flat(a.value)
                    if len(parts) > 1:
                        changed = True
                        new.extend(parts)
                        continue
                new.append(a)
            if changed:
                self.count += 1
                n.args = new
                for x in ast.walk(n):
                    if not hasattr(x, 'lineno') and isinstance(x, (ast.expr, ast.stmt)):
                        ast.copy_location(x, n)
                ast.fix_missing_locations(n)
        return n

    def visit_Compare(self, n):
        self.generic_visit(n)
        if len(n.ops) == 1 and type(n.ops[0]) in _FLIP and _is_const(n.left) and not _is_const(n.comparators[0]):
            self.count += 1
            return ast.copy_location(ast.Compare(left=n.comparators[0], ops=[_FLIP[type(n.ops[0])]()],
                                                 comparators=[n.left]), n)
        return n

    def visit_If(self, n):
        # `if a: if b: X` (no else on either, nothing else in the outer body)  ->  `if a and b: X`
        self.generic_visit(n)
        def is_log(t):
            return isinstance(t, ast.Name) and t.id == 'LOG'
        # `if a != b: X else: Y` -> `if a == b: Y else: X` (also `is not`, `not in`, `not c`): one spelling of a two-armed test
        if n.orelse and not (len(n.orelse) == 1 and isinstance(n.orelse[0], ast.If)):
            t = n.test
            pos = None
            if isinstance(t, ast.Compare) and len(t.ops) == 1 and isinstance(t.ops[0], (ast.NotEq, ast.IsNot, ast.NotIn)):
                op = {ast.NotEq: ast.Eq, ast.IsNot: ast.Is, ast.NotIn: ast.In}[type(t.ops[0])]()
                pos = ast.copy_location(ast.Compare(left=t.left, ops=[op], comparators=t.comparators), t)
            elif isinstance(t, ast.UnaryOp) and isinstance(t.op, ast.Not):
                pos = t.operand
            if pos is not None and not (isinstance(pos, ast.Name) and pos.id == 'LOG'):
                n.test = pos
                n.body, n.orelse = n.orelse, n.body
                self.count += 1
        while not n.orelse and len(n.body) == 1 and isinstance(n.body[0], ast.If) and not n.body[0].orelse:
            inner = n.body[0]
            if is_log(n.test) or is_log(inner.test):
                break       # `if LOG:` blocks stay as they are: the effect rules look at them as units
            vals = []
            for t in (n.test, inner.test):
                vals.extend(t.values if isinstance(t, ast.BoolOp) and isinstance(t.op, ast.And) else [t])
            n.test = ast.copy_location(ast.BoolOp(op=ast.And(), values=vals), n.test)
            n.body = inner.body
            self.count += 1
        # `if (x := E) is not None:`  ->  `x = E` / `if x is not None:`   when the assignment expression is what the test
        # evaluates first (left operand of the comparison / first operand of and-or / operand of not)
        holder, attr = None, None
        cur, parent, pattr = n.test, n, 'test'
        while True:
            if isinstance(cur, ast.NamedExpr):
                holder, attr = parent, pattr
                break
            if isinstance(cur, ast.Compare):
                cur, parent, pattr = cur.left, cur, 'left'
            elif isinstance(cur, ast.BoolOp):
                cur, parent, pattr = cur.values[0], cur, ('values', 0)
            elif isinstance(cur, ast.UnaryOp) and isinstance(cur.op, ast.Not):
                cur, parent, pattr = cur.operand, cur, 'operand'
            else:
                break
        if holder is not None and isinstance(cur.target, ast.Name):
            name = ast.copy_location(ast.Name(id=cur.target.id, ctx=ast.Load()), cur)
            if isinstance(attr, tuple):
                getattr(holder, attr[0])[attr[1]] = name
            else:
                setattr(holder, attr, name)
            asg = ast.copy_location(ast.Assign(targets=[ast.Name(id=cur.target.id, ctx=ast.Store())], value=cur.value), n)
            ast.fix_missing_locations(asg)
            asg.end_lineno = getattr(n, 'lineno', None)
            self.count += 1
            return [asg, n]
        return n

    def visit_While(self, n):
        # `while (x := E) is None: B`  ->  `while True: x = E; if not (x is None): break; B`
        # (the assignment expression is what the test evaluates first; no else clause)
        self.generic_visit(n)
        if n.orelse:
            return n
        holder, attr = None, None
        cur, parent, pattr = n.test, n, 'test'
        while True:
            if isinstance(cur, ast.NamedExpr):
                holder, attr = parent, pattr
                break
            if isinstance(cur, ast.Compare):
                cur, parent, pattr = cur.left, cur, 'left'
            elif isinstance(cur, ast.BoolOp):
                cur, parent, pattr = cur.values[0], cur, ('values', 0)
            elif isinstance(cur, ast.UnaryOp) and isinstance(cur.op, ast.Not):
                cur, parent, pattr = cur.operand, cur, 'operand'
            else:
                break
        if holder is None or not isinstance(cur.target, ast.Name):
            return n
        name = ast.copy_location(ast.Name(id=cur.target.id, ctx=ast.Load()), cur)
        if isinstance(attr, tuple):
            getattr(holder, attr[0])[attr[1]] = name
        else:
            setattr(holder, attr, name)
        asg = ast.copy_location(ast.Assign(targets=[ast.Name(id=cur.target.id, ctx=ast.Store())], value=cur.value), n)
        brk = ast.copy_location(ast.If(test=ast.UnaryOp(op=ast.Not(), operand=n.test), body=[ast.Break()], orelse=[]), n)
        loop = ast.copy_location(ast.While(test=ast.Constant(value=True), body=[asg, brk] + n.body, orelse=[]), n)
        ast.fix_missing_locations(loop)
        self.count += 1
        return loop

    def visit_Expr(self, n):
        # `yield from g` as a statement  ->  `for _yf in g: yield _yf`  (plain iteration: the library never sends into
        # or throws into its generators, so delegation and re-yielding are the same)
        self.generic_visit(n)
        if isinstance(n.value, ast.YieldFrom):
            self.count += 1
            self._yf = getattr(self, '_yf', 0) + 1
            var = '_yf%d' % self._yf
            loop = ast.For(target=ast.Name(id=var, ctx=ast.Store()), iter=n.value.value,
                           body=[ast.Expr(value=ast.Yield(value=ast.Name(id=var, ctx=ast.Load())))], orelse=[])
            ast.copy_location(loop, n)
            for x in ast.walk(loop):
                if not hasattr(x, 'lineno'):
                    ast.copy_location(x, n)
            ast.fix_missing_locations(loop)
            return loop
        return n

    def visit_Assign(self, n):
        self.generic_visit(n)
        v = n.value
        if (len(n.targets) == 1 and isinstance(n.targets[0], ast.Name) and isinstance(v, ast.BinOp)
                and isinstance(v.op, (ast.Add, ast.Sub)) and isinstance(v.left, ast.Name)
                and v.left.id == n.targets[0].id and isinstance(v.right, ast.Constant)
                and type(v.right.value) is int):
            self.count += 1
            return ast.copy_location(ast.AugAssign(target=n.targets[0], op=v.op, value=v.right), n)
        return n


def normal_form(tree):
    nf = _NormalForm()
    nf.visit(tree)
    return nf.count


_table = None


def table():
    global _table
    if _table is None:
        try:
            with open(TABLE) as fh:
                _table = json.load(fh)
        except IOError:
            _table = {}
    return _table


def plan(fn, ref):
    """{current name: reference name} for one function, or {} when nothing (safe) to do."""
    cur = fingerprints(fn)
    if not cur or [n for n, _ in cur] == [n for n, _ in ref]:
        return {}
    sm = difflib.SequenceMatcher(a=[fp for _, fp in ref], b=[fp for _, fp in cur], autojunk=False)
    ren = {}
    for blk in sm.get_matching_blocks():
        for k in range(blk.size):
            r, c = ref[blk.a + k][0], cur[blk.b + k][0]
            if r != c:
                ren[c] = r
    if not ren:
        return {}
    if len(set(ren.values())) != len(ren):
        return {}
    # names that stay in the function (anything mentioned anywhere, nested scopes included)
    staying = set()
    for m in ast.walk(fn):
        if isinstance(m, ast.Name) and m.id not in ren:
            staying.add(m.id)
        elif isinstance(m, ast.arg):
            staying.add(m.arg)
    ren = dict((c, r) for c, r in ren.items() if r not in staying)
    return ren


def normalise(tree, relpath):
    """Rename locals of every function of `tree` back to the reference names; returns the list of renames."""
    done = []
    k = normal_form(tree)
    if k:
        done.append('%s: %d spelling normalisation(s)' % (relpath, k))
    ref = table().get(relpath)
    if not ref:
        return done
    from sa import inline
    known_functions = set(ref.get('__functions__', []))
    if ref is not None:
        if getattr(tree, '_src', None) is None or not _is_reference_text(tree, relpath):
            done.extend('%s: %s' % (relpath, x) for x in inline.unroll_table_loops(tree, known_functions))
            done.extend('%s: %s' % (relpath, x) for x in inline.expand_constant_kwargs(tree))
        inl = inline.inline_helpers(tree, known_functions)
        done.extend('%s: %s' % (relpath, x) for x in inl)
        if inl:
            # an argument substituted into a helper's body can complete a spelling the first pass normalises
            # (`self.__class__(base, *superTags)` with superTags := X + (y,))
            normal_form(tree)
    proven = as_reference(tree, relpath, done)
    for key, fn in functions(tree):
        if key == '__functions__' or key in proven or (key not in ref and key not in known_functions):
            continue
        if key not in ref:
            ref = dict(ref)
            ref[key] = {'locals': [], 'cmp': [], 'jif': {}}      # a reference function without locals of its own
        ren = plan(fn, [tuple(x) for x in ref[key].get('locals', [])])
        if ren:
            for n in _own(fn):
                if isinstance(n, ast.Name) and n.id in ren:
                    n.id = ren[n.id]
            done.extend('%s:%s %s->%s' % (relpath, key, c, r) for c, r in sorted(ren.items()))
        known = set(x[0] for x in ref[key].get('locals', []))
        done.extend('%s:%s %s' % (relpath, key, x) for x in inline.inline_named_conditions(fn, known))
        # comparisons written the other way round than on the reference tree are turned back
        refcmp = set(ref[key].get('cmp', []))
        if refcmp:
            for n in _own(fn):
                if _flippable(n):
                    t = _text(n)
                    if t not in refcmp:
                        ft = _text(_flipped(n))
                        if ft in refcmp:
                            n.left, n.ops, n.comparators = n.comparators[0], [_FLIP[type(n.ops[0])]()], [n.left]
                            done.append('%s:%s `%s` read as `%s`' % (relpath, key, t, ft))
        done.extend('%s:%s %s' % (relpath, key, x) for x in _inline_explaining(fn, known))
        done.extend('%s:%s %s' % (relpath, key, x) for x in _inline_aliases(fn, known))
        # early-exit `if` vs if/else, as on the reference tree
        want = ref[key].get('jif', {})
        if want:
            done.extend('%s:%s %s' % (relpath, key, x) for x in _restyle(fn, want))
    return done


# ------------------------------------------------------------------------------------------- reference substitution

REFDIR = os.path.join(os.path.dirname(os.path.abspath(__file__)), 'reference')
_reftrees = {}


def reference_functions(relpath):
    """{key: FunctionDef} of the reference copy of one module (sa/reference/<relpath>.txt), in spelling normal form."""
    if relpath not in _reftrees:
        p = os.path.join(REFDIR, relpath + '.txt')
        try:
            with open(p) as fh:
                t = ast.parse(fh.read())
        except (IOError, SyntaxError):
            _reftrees[relpath] = {}
            return {}
        normal_form(t)
        _reftrees[relpath] = dict(functions(t))
    return _reftrees[relpath]


def _same(a, b):
    return ast.dump(a) == ast.dump(b)


def _is_reference_text(tree, relpath):
    try:
        with open(os.path.join(REFDIR, relpath + '.txt')) as fh:
            return fh.read() == getattr(tree, '_src', None)
    except IOError:
        return False


_NONEMPTY_CACHE = {}


def nonempty_generators(root):
    """{module name: generator functions of that module every path of which passes a `yield` before it finishes}.  Only
    pyasn1/codec/streaming.py is looked at (the stream readers every decoder loop iterates over)."""
    if root in _NONEMPTY_CACHE:
        return _NONEMPTY_CACHE[root]
    out = {}
    rel = 'pyasn1/codec/streaming.py'
    try:
        with open(os.path.join(root, rel)) as fh:
            t = ast.parse(fh.read())
        from sa.cfg import CFG
        names = set()
        for f in t.body:
            if not isinstance(f, ast.FunctionDef):
                continue
            if not any(isinstance(x, (ast.Yield, ast.YieldFrom)) for x in ast.walk(f)):
                continue
            g = CFG(f)
            def yields(n):
                return n.ast is not None and n.kind == 'stmt' and any(isinstance(x, (ast.Yield, ast.YieldFrom)) for x in ast.walk(n.ast))
            if g.must_pass(g.entry, g.exit, yields):
                names.add(f.name)
        out['pyasn1.codec.streaming'] = names
    except Exception:
        out = {}
    _NONEMPTY_CACHE[root] = out
    return out


def _container_attrs(tree):
    """Attribute names every store to which, in this module, assigns a container built on the spot."""
    good, bad = set(), set()
    for n in ast.walk(tree):
        tgts = []
        if isinstance(n, ast.Assign):
            tgts = [(t, n.value) for t in n.targets]
        elif isinstance(n, (ast.AugAssign, ast.AnnAssign)) and n.value is not None:
            tgts = [(n.target, None)]
        elif isinstance(n, (ast.For, ast.With, ast.Delete)):
            for x in ast.walk(n.target if isinstance(n, ast.For) else n):
                if isinstance(x, ast.Attribute) and isinstance(x.ctx, (ast.Store, ast.Del)):
                    bad.add(x.attr)
        for t, v in tgts:
            for x in ast.walk(t):
                if isinstance(x, ast.Attribute) and isinstance(x.ctx, ast.Store):
                    fresh = x is t and v is not None and (
                        isinstance(v, (ast.Dict, ast.List, ast.Set, ast.ListComp, ast.SetComp, ast.DictComp)) or
                        (isinstance(v, ast.Call) and isinstance(v.func, ast.Name) and v.func.id in ('set', 'dict', 'list', 'frozenset') and
                         len(v.args) <= 1))
                    (good if fresh else bad).add(x.attr)
        if isinstance(n, ast.Call) and isinstance(n.func, ast.Name) and n.func.id in ('setattr', 'delattr') and len(n.args) >= 2:
            if isinstance(n.args[1], ast.Constant):
                bad.add(n.args[1].value)
            else:
                return set()
    return good - bad


def _nonempty_names(tree, relpath):
    root = getattr(tree, '_root', None)
    if not root:
        return set()
    table_ = nonempty_generators(root)
    names = set()
    for n in tree.body:
        if isinstance(n, ast.ImportFrom) and n.module in table_ and not n.level:
            for a in n.names:
                if a.name in table_[n.module]:
                    names.add(a.asname or a.name)
    if relpath.replace('/', '.')[:-3] in table_:
        names |= table_[relpath.replace('/', '.')[:-3]]
    # a local definition or assignment of the same name hides the import
    for n in ast.walk(tree):
        if isinstance(n, (ast.FunctionDef, ast.ClassDef)) and n.name in names and relpath.replace('/', '.')[:-3] not in table_:
            names.discard(n.name)
        elif isinstance(n, ast.Name) and isinstance(n.ctx, ast.Store) and n.id in names:
            names.discard(n.id)
        elif isinstance(n, ast.arg) and n.arg in names:
            names.discard(n.arg)
    return names


def as_reference(tree, relpath, done):
    """A function whose behavioural normal form (sa/equiv.py) equals that of the reference function of the same name is
    analysed in its reference form: its body is replaced by the reference body.  The replacement is behaviour-preserving
    because the two are proven equivalent; every rule then sees exactly the shape on which its instances were confirmed.
    Functions that differ in behaviour (or whose equivalence cannot be proven) stay as they are.  Returns the keys replaced."""
    if os.environ.get('SA_NO_EQUIV'):
        return set()
    from sa import equiv
    try:
        with open(os.path.join(REFDIR, relpath + '.txt')) as fh:
            if fh.read() == getattr(tree, '_src', None):
                return set()            # the module is the reference module
    except IOError:
        pass
    reff = reference_functions(relpath)
    if not reff:
        return set()
    equiv.NONEMPTY = frozenset(_nonempty_names(tree, relpath))
    equiv.NONNULL_ATTRS = frozenset(_container_attrs(tree))
    proven = set()
    cur = functions(tree)
    status = {}
    tree._sa_status = status
    ref_table = table().get(relpath) or {}
    for key, fn in cur:
        r = reff.get(key)
        if r is None:
            status[key] = ('new', 0, 0)
            continue
        if _same(fn, r):
            continue
        # nested defs are compared as part of their parent only
        ok, why = equiv.equivalent(fn, r)
        if not ok:
            status[key] = ('differs',) + distance(fn, r, [tuple(x) for x in ref_table.get(key, {}).get('locals', [])])
            continue
        new = ast.parse(ast.unparse(r)).body[0]
        normal_form(new)
        base = fn.lineno
        last = getattr(fn, 'end_lineno', fn.lineno)
        for n in ast.walk(new):
            if hasattr(n, 'lineno'):
                n.lineno = min(base + n.lineno - 1, last)
                n.end_lineno = min(base + getattr(n, 'end_lineno', n.lineno) - 1, last) if getattr(n, 'end_lineno', None) else n.lineno
        fn.args, fn.body, fn.decorator_list, fn.returns = new.args, new.body, new.decorator_list, new.returns
        proven.add(key)
        status[key] = ('equivalent', 0, 0)
        done.append('%s:%s proven equivalent to its reference form (same behavioural normal form); analysed in that form' % (relpath, key))
    for key in reff:
        if key not in dict(cur):
            status[key] = ('gone', 0, 0)
    return proven


_MASK = None


def distance(fn, ref, ref_locals):
    """(changed lines, limit): how far a function is from its reference form.  Two measures, the smaller one counts: changed
    lines of the behavioural normal form with the numbering masked, and changed lines of the source after the locals
    have been renamed towards the reference.  limit = max(7, 6 % of the size): every confirmed behaviour-changing patch
    kept under seeded/ stays below it, most restructurings do not (tools/nf_distance.py)."""
    import difflib
    import re
    from sa import equiv
    global _MASK
    if _MASK is None:
        _MASK = re.compile(r'(#|@|<|lv|after|tv|item|exc|tryjoin)\d+(\.\d+)?(in|g|h\d+)?')

    def changed(a, b):
        """Lines deleted or inserted (the larger count); a block that only moved counts as two lines, not twice its size."""
        from collections import Counter
        sm = difflib.SequenceMatcher(None, a, b, autojunk=False)
        dele, ins = Counter(), Counter()
        for tag, i1, i2, j1, j2 in sm.get_opcodes():
            if tag != 'equal':
                dele.update(a[i1:i2])
                ins.update(b[j1:j2])
        moved = dele & ins
        nm = sum(moved.values())
        return max(sum(dele.values()) - nm, sum(ins.values()) - nm) + min(nm, 2)
    d1 = None
    size = 0
    try:
        a = [_MASK.sub(r'\1N', x) for x in equiv.normal_form(ref).split('\n')]
        b = [_MASK.sub(r'\1N', x) for x in equiv.normal_form(fn).split('\n')]
        d1 = changed(a, b)
        size = len(a)
    except Exception:
        pass
    ren = plan(fn, ref_locals) if ref_locals else {}
    c2 = ast.parse(ast.unparse(fn)).body[0]
    for n in ast.walk(c2):
        if isinstance(n, ast.Name) and n.id in ren:
            n.id = ren[n.id]

    def lines(f):
        body = [x for x in f.body if not (isinstance(x, ast.Expr) and isinstance(x.value, ast.Constant))]
        return [l.strip() for st in body for l in ast.unparse(st).split('\n')]
    la, lb = lines(ref), lines(c2)
    d2 = changed(la, lb)
    size = max(size, len(la))
    d = d2 if d1 is None else min(d1, d2)
    return d, max(7, (6 * size + 99) // 100)


_JUMPS = (ast.Return, ast.Raise, ast.Continue, ast.Break)


def _blocks(fn):
    """Statement lists of a function (nested scopes not entered), outermost first."""
    out = []

    def rec(stmts):
        out.append(stmts)
        for s in stmts:
            if isinstance(s, _SCOPES):
                continue
            for f in ('body', 'orelse', 'finalbody'):
                b = getattr(s, f, None)
                if isinstance(b, list) and b and isinstance(b[0], ast.stmt):
                    rec(b)
            for h in getattr(s, 'handlers', []) or []:
                rec(h.body)
    rec(fn.body)
    return out


def _jump_ifs(fn):
    """[(key, if node, style, block, index)] for every `if` whose body ends in return/raise/continue/break and which is
    either followed by more statements and has no else ('A': early exit) or has a plain else ('B')."""
    seen = {}
    out = []
    for blk in _blocks(fn):
        for i, s in enumerate(blk):
            if not (isinstance(s, ast.If) and s.body and isinstance(s.body[-1], _JUMPS)):
                continue
            if not s.orelse and i + 1 < len(blk):
                style = 'A'
            elif s.orelse:
                style = 'B'
            else:
                continue
            t = _text(s.test)
            seen[t] = seen.get(t, 0) + 1
            out.append(('%s#%d' % (t, seen[t]), s, style, blk, i))
    return out


def _restyle(fn, want):
    """Bring early-exit ifs into the reference style.  Both directions keep behaviour: the body always jumps away, so
    the statements after the `if` run exactly when its test is false."""
    done = []
    for _ in range(200):
        changed = False
        for key, s, style, blk, i in _jump_ifs(fn):
            w = want.get(key)
            if w is None or w == style:
                continue
            if style == 'A':      # if c: ...jump; rest   ->   if c: ...jump else: rest
                s.orelse = blk[i + 1:]
                del blk[i + 1:]
            else:                 # if c: ...jump else: rest   ->   if c: ...jump; rest
                rest = s.orelse
                s.orelse = []
                blk[i + 1:i + 1] = rest
            done.append('`if %s` read as %s' % (key.split('#')[0][:50], 'if/else' if w == 'B' else 'early exit'))
            changed = True
            break
        if not changed:
            break
    return done


_HEAD_SAFE_CALLS = ('len', 'isinstance', 'ord', 'int', 'oct2int')


def _head_exprs(stmt):
    """Expressions of `stmt` that are evaluated exactly once, first thing, when the statement is reached."""
    if isinstance(stmt, ast.If):
        return [stmt.test]
    if isinstance(stmt, (ast.Assign, ast.AugAssign, ast.Return, ast.Expr, ast.Raise)):
        return [stmt]
    return []


def _inline_explaining(fn, known):
    """`t = <pure chain>` immediately followed by the one statement that uses `t` (in its head expression, with no
    other call in it): `t` is replaced by the chain and the binding dropped.  Only for locals the reference tree does
    not have.  Evaluating the chain one statement later is unobservable: nothing runs in between."""
    done = []
    for blk in _blocks(fn):
        i = 0
        while i + 1 < len(blk):
            s, nxt = blk[i], blk[i + 1]
            i += 1
            if not (isinstance(s, ast.Assign) and len(s.targets) == 1 and isinstance(s.targets[0], ast.Name)):
                continue
            v = s.targets[0].id
            if v in known or isinstance(s.value, (ast.Constant, ast.Name)):
                continue
            if not _simple(s.value):
                # any expression at all, when the next statement tests nothing but the variable (`t = f(x)` / `if t:`):
                # the expression is evaluated at the same point either way
                hs = _head_exprs(nxt)
                bare = len(hs) == 1 and isinstance(nxt, (ast.If, ast.While)) and (
                    (isinstance(hs[0], ast.Name) and hs[0].id == v) or
                    (isinstance(hs[0], ast.UnaryOp) and isinstance(hs[0].op, ast.Not) and isinstance(hs[0].operand, ast.Name) and hs[0].operand.id == v))
                if not bare or isinstance(nxt, ast.While) or any(isinstance(x, (ast.Yield, ast.YieldFrom, ast.Lambda)) for x in ast.walk(s.value)):
                    continue
            stores = [x for x in _own(fn) if isinstance(x, ast.Name) and x.id == v and isinstance(x.ctx, ast.Store)]
            loads = [x for x in _own(fn) if isinstance(x, ast.Name) and x.id == v and isinstance(x.ctx, ast.Load)]
            if len(stores) != 1 or not loads:
                continue
            heads = _head_exprs(nxt)
            inside = [x for h in heads for x in ast.walk(h) if isinstance(x, ast.Name) and x.id == v and isinstance(x.ctx, ast.Load)]
            if len(inside) != len(loads):
                continue
            calls = [c for h in heads for c in ast.walk(h) if isinstance(c, ast.Call)]
            if any(not (isinstance(c.func, ast.Name) and c.func.id in _HEAD_SAFE_CALLS) for c in calls):
                continue
            if isinstance(nxt, (ast.Assign, ast.AugAssign)) and any(
                    isinstance(x, ast.Name) and isinstance(x.ctx, ast.Store) and x.id in [y.id for y in ast.walk(s.value) if isinstance(y, ast.Name)]
                    for x in ast.walk(nxt)):
                pass    # the target is bound after the right-hand side is evaluated: still fine
            for x in inside:
                new = ast.parse(ast.unparse(s.value), mode='eval').body
                for a in ('lineno', 'col_offset', 'end_lineno', 'end_col_offset'):
                    if hasattr(x, a):
                        setattr(new, a, getattr(x, a))
                        for sub in ast.walk(new):
                            if not hasattr(sub, 'lineno'):
                                pass
                x.__class__ = new.__class__
                x.__dict__.clear()
                x.__dict__.update(new.__dict__)
            for h in heads:
                ast.fix_missing_locations(h)
            i -= 1
            del blk[i]
            done.append('explaining variable `%s = %s` inlined' % (v, _text(s.value)[:40]))
    return done


def _inline_aliases(fn, known):
    """`t = <call-free chain of attributes / subscripts>` bound once, to a local the reference tree does not have, with
    every use in a statement that follows the binding in the same block (or nested in such a statement) and no re-binding
    of the chain's names in between: the uses are read as the chain.  Unlike the explaining-variable pass this may move the
    read across a call, so it is a *reading aid for the rules* (they look for `namedType.asn1Object`, not for a name the
    author chose for it), applied only where the function could not be proven equivalent to its reference form."""
    done = []
    for blk in _blocks(fn):
        i = 0
        while i < len(blk):
            s = blk[i]
            i += 1
            if not (isinstance(s, ast.Assign) and len(s.targets) == 1 and isinstance(s.targets[0], ast.Name)):
                continue
            v = s.targets[0].id
            if v in known or not _simple(s.value) or isinstance(s.value, (ast.Constant, ast.Name)):
                continue
            if not isinstance(s.value, (ast.Attribute, ast.Subscript)):
                continue
            stores = [x for x in _own(fn) if isinstance(x, ast.Name) and x.id == v and isinstance(x.ctx, (ast.Store, ast.Del))]
            loads = [x for x in _own(fn) if isinstance(x, ast.Name) and x.id == v and isinstance(x.ctx, ast.Load)]
            if len(stores) != 1 or not loads:
                continue
            later = blk[i:]
            inside = [x for st in later for x in ast.walk(st) if isinstance(x, ast.Name) and x.id == v and isinstance(x.ctx, ast.Load)]
            if len(inside) != len(loads):
                continue
            if any(isinstance(st, (ast.FunctionDef, ast.Lambda, ast.ClassDef)) for st2 in later for st in ast.walk(st2)):
                continue
            names = set(y.id for y in ast.walk(s.value) if isinstance(y, ast.Name))
            if any(isinstance(x, ast.Name) and isinstance(x.ctx, (ast.Store, ast.Del)) and x.id in names for st in later for x in ast.walk(st)):
                continue
            for x in inside:
                new = ast.parse(ast.unparse(s.value), mode='eval').body
                for sub in ast.walk(new):
                    for a in ('lineno', 'col_offset', 'end_lineno', 'end_col_offset'):
                        if hasattr(x, a):
                            setattr(sub, a, getattr(x, a))
                x.__class__ = new.__class__
                x.__dict__.clear()
                x.__dict__.update(new.__dict__)
            i -= 1
            del blk[i]
            if not blk:
                blk.append(ast.Pass(lineno=s.lineno, col_offset=0))
            done.append('alias `%s = %s` read as the chain it names' % (v, _text(s.value)[:40]))
    return done


def _text(n):
    return ' '.join(ast.unparse(n).split())


def _simple(e):
    """Operand whose evaluation has no effect and raises nothing of interest: swapping two of them is unobservable."""
    if isinstance(e, (ast.Name, ast.Constant)):
        return True
    if isinstance(e, ast.Attribute):
        return _simple(e.value)
    if isinstance(e, ast.Subscript):
        return _simple(e.value) and (isinstance(e.slice, (ast.Name, ast.Constant)) or
                                     (isinstance(e.slice, ast.UnaryOp) and isinstance(e.slice.operand, ast.Constant)))
    if isinstance(e, ast.Call):
        return isinstance(e.func, ast.Name) and e.func.id == 'len' and len(e.args) == 1 and not e.keywords and _simple(e.args[0])
    if isinstance(e, ast.BinOp):
        return _simple(e.left) and _simple(e.right)
    if isinstance(e, ast.UnaryOp):
        return _simple(e.operand)
    return False


def _flippable(n):
    return isinstance(n, ast.Compare) and len(n.ops) == 1 and type(n.ops[0]) in _FLIP and \
        _simple(n.left) and _simple(n.comparators[0])


def _flipped(n):
    return ast.Compare(left=n.comparators[0], ops=[_FLIP[type(n.ops[0])]()], comparators=[n.left])


def generate(repo):
    out = {}
    root = os.path.join(repo, 'pyasn1')
    for d, ds, fs in os.walk(root):
        ds.sort()
        for f in sorted(fs):
            if not f.endswith('.py'):
                continue
            p = os.path.join(d, f)
            rel = os.path.relpath(p, repo)
            with open(p) as fh:
                tree = ast.parse(fh.read())
            normal_form(tree)
            ent = {}
            for key, fn in functions(tree):
                fps = fingerprints(fn)
                cmps = sorted(set(_text(n) for n in _own(fn) if _flippable(n)))
                jif = dict((k, style) for k, n_, style, b_, i_ in _jump_ifs(fn))
                if fps or cmps or jif:
                    ent[key] = {'locals': fps, 'cmp': cmps, 'jif': jif}
            ent['__functions__'] = sorted(k for k, fn in functions(tree))
            if ent:
                out[rel] = ent
    return out


if __name__ == '__main__':
    import sys
    if '--generate' in sys.argv:
        repo = os.environ.get('PYASN1_REPO', '/repo')
        t = generate(repo)
        with open(TABLE, 'w') as fh:
            json.dump(t, fh, indent=0, sort_keys=True)
        print('reference table: %d modules, %d functions, %d locals' % (
            len(t), sum(len(v['__functions__']) for v in t.values()), sum(len(x['locals']) for v in t.values() for k, x in v.items() if k != '__functions__')))
