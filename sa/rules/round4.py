"""Rules added after the fourth round (defects reported by the seeding agents against the pinned tree, DESIGN.md section 13)."""
import ast

from sa import x690
from sa.consteval import VInstance
from sa.model import AnalysisError, norm, walk_own
from sa.rules.tables import enc_chain, by_type


def _encoder_functions(ctx):
    for f in ctx.prog.all_functions():
        if f.module.name.startswith('pyasn1.codec.') and 'encoder' in f.module.name:
            yield f


def _forwards_options(call):
    return isinstance(call, ast.Call) and any(k.arg is None and norm(k.value) == 'options' for k in call.keywords)


def _removes(stmt, key):
    """Does this statement take `key` out of `options` (or force it off)?"""
    for c in ast.walk(stmt):
        if isinstance(c, ast.Call) and isinstance(c.func, ast.Attribute) and norm(c.func.value) == 'options':
            if c.func.attr == 'pop' and c.args and isinstance(c.args[0], ast.Constant) and c.args[0].value == key:
                return True
            if c.func.attr == 'update':
                for k in c.keywords:
                    if k.arg == key and isinstance(k.value, ast.Constant) and not k.value.value:
                        return True
        if isinstance(c, ast.Delete):
            for t in c.targets:
                if isinstance(t, ast.Subscript) and norm(t.value) == 'options' and isinstance(t.slice, ast.Constant) and t.slice.value == key:
                    return True
        if isinstance(c, ast.Assign) and isinstance(c.value, ast.Constant) and not c.value.value:
            for t in c.targets:
                if isinstance(t, ast.Subscript) and norm(t.value) == 'options' and isinstance(t.slice, ast.Constant) and t.slice.value == key:
                    return True
    return False


def rule_item_option(ctx):
    """A5.itemopt: an option that a component loop computes for ONE component (`options.update(K=<per-component value>)`
    inside the loop) is taken out of `options` by the function that acts on it before that function hands `**options`
    on - otherwise the components of the component inherit it (a SEQUENCE OF does not recompute it for its elements)."""
    keys = {}
    for f in _encoder_functions(ctx):
        for lp in [x for x in walk_own(f.node) if isinstance(x, (ast.For, ast.While))]:
            for c in ast.walk(lp):
                if isinstance(c, ast.Call) and norm(c.func) == 'options.update':
                    for k in c.keywords:
                        if k.arg and not isinstance(k.value, ast.Constant):
                            keys.setdefault(k.arg, []).append((f, c))
                elif isinstance(c, ast.Assign) and not isinstance(c.value, ast.Constant):
                    for t in c.targets:
                        if isinstance(t, ast.Subscript) and norm(t.value) == 'options' and isinstance(t.slice, ast.Constant) and \
                                isinstance(t.slice.value, str):
                            keys.setdefault(t.slice.value, []).append((f, c))
    if 'ifNotEmpty' not in keys:
        raise AnalysisError('per-component encoder option ifNotEmpty not found in the component loops')
    n = 0
    for key, sites in sorted(keys.items()):
        # the item encoders' `encode` is where `SingleItemEncoder.__call__` delivers the options; when every `encode`
        # takes the key out before handing options to `encodeValue`, no `encodeValue` ever sees it
        entry = [f for f in _encoder_functions(ctx) if f.cls is not None and f.name == 'encode' and f.node.args.kwarg is not None]
        if not entry:
            raise AnalysisError('no item encoder `encode(..., **options)` found')
        sealed = True
        for f in entry + [g for g in _encoder_functions(ctx) if g not in entry]:
            if f not in entry and sealed:
                break
            reads = []
            for c in walk_own(f.node):
                if isinstance(c, ast.Call) and isinstance(c.func, ast.Attribute) and norm(c.func.value) == 'options' and \
                        c.func.attr in ('get', 'pop') and c.args and isinstance(c.args[0], ast.Constant) and c.args[0].value == key:
                    reads.append(c)
                if isinstance(c, ast.Subscript) and norm(c.value) == 'options' and isinstance(c.slice, ast.Constant) and \
                        c.slice.value == key and isinstance(c.ctx, ast.Load):
                    reads.append(c)
            if not reads:
                continue
            cfg = ctx.cfg(f)
            fwd = [nd for nd in cfg.stmt_nodes() if nd.ast is not None and
                   any(_forwards_options(x) for e in _own_exprs(nd) for x in ast.walk(e))]
            for nd in fwd:
                n += 1
                ok = cfg.must_pass(cfg.entry, nd, lambda m: m.ast is not None and m.kind == 'stmt' and _removes(m.ast, key))
                ctx.ob('A5.itemopt', f, 'per-component option %r is removed before `%s`' % (key, nd.text()[:50]), ok,
                       'the option is computed by %s for one component and acted upon here, but it is still in `options` when '
                       'they are handed on: the components of that component inherit it (an OPTIONAL `SEQUENCE OF SEQUENCE OF` '
                       'holding one empty inner list is written as absent)' % sites[0][0].short if not ok else
                       'taken out of `options` on every path to the call', node=nd.ast)
                if f in entry and not ok:
                    sealed = False
    if n < 1:
        raise AnalysisError('A5.itemopt: no function acts on a per-component option and forwards options')


def _own_exprs(nd):
    from sa.cfg import node_exprs
    return node_exprs(nd)


# ------------------------------------------------------------------- A7.bitseg

class _Undecided(Exception):
    pass


def _int_of(e, env):
    """Evaluate a small integer expression over names bound in env (ints only)."""
    if isinstance(e, ast.Constant) and isinstance(e.value, int) and not isinstance(e.value, bool):
        return e.value
    if isinstance(e, ast.Name) and isinstance(env.get(e.id), int):
        return env[e.id]
    if isinstance(e, ast.BinOp):
        a, b = _int_of(e.left, env), _int_of(e.right, env)
        if isinstance(e.op, ast.Add):
            return a + b
        if isinstance(e.op, ast.Sub):
            return a - b
        if isinstance(e.op, ast.Mult):
            return a * b
        if isinstance(e.op, ast.FloorDiv) and b:
            return a // b
        if isinstance(e.op, ast.LShift) and 0 <= b < 64:
            return a << b
        if isinstance(e.op, ast.RShift) and 0 <= b < 64:
            return a >> b
    if isinstance(e, ast.UnaryOp) and isinstance(e.op, ast.USub):
        return -_int_of(e.operand, env)
    v = _opt_read(e, env)
    if v is not None:
        return v
    raise _Undecided('cannot evaluate `%s`' % norm(e)[:60])


def _opt_read(e, env):
    """options.get('maxChunkSize', d) / options['maxChunkSize'] / options.pop(...)"""
    if isinstance(e, ast.Call) and isinstance(e.func, ast.Attribute) and norm(e.func.value) == 'options' and \
            e.func.attr in ('get', 'pop') and e.args and isinstance(e.args[0], ast.Constant) and e.args[0].value == 'maxChunkSize':
        v = env['options']
        if e.func.attr == 'pop':
            env['options'] = None
        if v is None:
            if len(e.args) > 1:
                return _int_of(e.args[1], env)
            raise _Undecided('maxChunkSize read after it was removed')
        return v
    if isinstance(e, ast.Subscript) and norm(e.value) == 'options' and isinstance(e.slice, ast.Constant) and e.slice.value == 'maxChunkSize':
        if env['options'] is None:
            raise _Undecided('maxChunkSize read after it was removed')
        return env['options']
    return None


def _truth(e, env):
    if isinstance(e, ast.UnaryOp) and isinstance(e.op, ast.Not):
        return not _truth(e.operand, env)
    if isinstance(e, ast.BoolOp):
        vals = [_truth(x, env) for x in e.values]
        return all(vals) if isinstance(e.op, ast.And) else any(vals)
    if isinstance(e, ast.Compare) and len(e.ops) == 1:
        a, b = _int_of(e.left, env), _int_of(e.comparators[0], env)
        op = e.ops[0]
        table = {ast.Lt: a < b, ast.LtE: a <= b, ast.Gt: a > b, ast.GtE: a >= b, ast.Eq: a == b, ast.NotEq: a != b}
        if type(op) in table:
            return table[type(op)]
        raise _Undecided('comparison `%s`' % norm(e)[:60])
    return bool(_int_of(e, env))


def _mentions_opt(s):
    return any(isinstance(x, ast.Name) and x.id == 'options' for x in ast.walk(s))


def _chunk_option(stmts, env, base_names):
    """Run the straight-line / branching prefix of an overriding encodeValue; return the value of maxChunkSize that the
    delegating call hands to the base implementation, or None if control never delegates."""
    for s in stmts:
        if isinstance(s, ast.Expr) and isinstance(s.value, ast.Constant):
            continue
        if isinstance(s, ast.If):
            arm = s.body if _truth(s.test, env) else s.orelse
            r = _chunk_option(arm, env, base_names)
            if r is not None:
                return r
            continue
        if isinstance(s, ast.Assign) and len(s.targets) == 1 and isinstance(s.targets[0], ast.Name):
            nm = s.targets[0].id
            if nm == 'options':
                v = s.value      # options = dict(options, maxChunkSize=E)
                if isinstance(v, ast.Call) and isinstance(v.func, ast.Name) and v.func.id == 'dict' and v.args and norm(v.args[0]) == 'options':
                    for k in v.keywords:
                        if k.arg == 'maxChunkSize':
                            env['options'] = _int_of(k.value, env)
                    continue
                raise _Undecided('`%s`' % norm(s)[:60])
            try:
                env[nm] = _int_of(s.value, env)
            except _Undecided:
                if _mentions_opt(s.value):
                    raise
                env.pop(nm, None)
            continue
        if isinstance(s, ast.Assign) and len(s.targets) == 1 and isinstance(s.targets[0], ast.Subscript) and \
                norm(s.targets[0].value) == 'options':
            if isinstance(s.targets[0].slice, ast.Constant) and s.targets[0].slice.value == 'maxChunkSize':
                env['options'] = _int_of(s.value, env)
            continue
        if isinstance(s, ast.Expr) and isinstance(s.value, ast.Call) and norm(s.value.func) == 'options.update':
            for k in s.value.keywords:
                if k.arg == 'maxChunkSize':
                    env['options'] = _int_of(k.value, env)
                elif k.arg is None:
                    raise _Undecided('`%s`' % norm(s)[:60])
            continue
        if isinstance(s, ast.Return) and isinstance(s.value, ast.Call):
            c = s.value
            fn = norm(c.func)
            if fn.endswith('.encodeValue') and (fn.split('.encodeValue')[0].split('.')[-1] in base_names or fn.startswith('super(')):
                val = env['options']
                for k in c.keywords:
                    if k.arg == 'maxChunkSize':
                        val = _int_of(k.value, env)
                    elif k.arg is None and isinstance(k.value, ast.Call) and norm(k.value.func) == 'dict':
                        for kk in k.value.keywords:
                            if kk.arg == 'maxChunkSize':
                                val = _int_of(kk.value, env)
                if val is None:
                    val = 0
                return val
            raise _Undecided('returns `%s`' % fn[:60])
        if isinstance(s, ast.If) or not _mentions_opt(s) and not isinstance(s, (ast.Return, ast.Raise, ast.For, ast.While, ast.Try, ast.With)):
            continue
        raise _Undecided('`%s`' % norm(s)[:60])
    return None


def _base_names(cls):
    return set(c.name for c in cls.mro[1:] if hasattr(c, 'name')) | {'BitStringEncoder'}


def rule_bit_segments(ctx):
    """A7.bitseg: under CER a BIT STRING is written in segments of exactly 1000 CONTENTS octets (X.690 9.2), and the
    contents octets of a BIT STRING segment begin with the unused-bits octet (8.6.2.2).  The base encoder cuts the value
    every `maxChunkSize * 8` bits and puts one octet in front of the data of every primitive encoding, so the chunk
    size that reaches it under CER has to be one less than the segment size."""
    base = ctx.func('codec.ber.encoder.BitStringEncoder.encodeValue')
    # structural facts about the base implementation: bits per chunk = maxChunkSize * 8 (both the threshold and the cut)
    cuts = []
    for c in walk_own(base.node):
        if isinstance(c, ast.BinOp) and isinstance(c.op, (ast.Mult, ast.LShift)) and 'maxChunkSize' in norm(c):
            env1 = {'maxChunkSize': 1}
            try:
                cuts.append((c, _int_of(c, env1)))
            except _Undecided:
                raise AnalysisError('chunk arithmetic `%s` in %s' % (norm(c), base.short))
    if len(cuts) < 2:
        raise AnalysisError('expected the chunk threshold and the chunk cut in %s' % base.short)
    prefix = [r for r in walk_own(base.node) if isinstance(r, ast.Return) and isinstance(r.value, ast.Tuple) and r.value.elts and
              isinstance(r.value.elts[0], ast.BinOp) and isinstance(r.value.elts[0].op, ast.Add) and
              isinstance(r.value.elts[0].left, ast.Call) and norm(r.value.elts[0].left.func) in ('int2oct', 'bytes', 'ints2octs')]
    if not prefix:
        raise AnalysisError('primitive BIT STRING contents (unused-bits octet + data) not found in %s' % base.short)
    for c, bits in cuts:
        ctx.ob('A7.bitseg', base, 'a chunk of `%s` bits is maxChunkSize data octets' % norm(c), bits == 8,
               'with maxChunkSize = 1 this is %d bits' % bits, node=c)
    boolc = ctx.cls('type.univ.BitString')
    _, tid = ctx.ev.class_attr(boolc, 'typeId')
    _, ts = ctx.ev.class_attr(boolc, 'tagSet')
    e = enc_chain(ctx, 'cer')
    inst, how = by_type(e, tid, ts)
    if not isinstance(inst, VInstance):
        raise AnalysisError('no BIT STRING encoder in the CER tables')
    seg = e['fixedChunkSize']
    if not isinstance(seg, int) or isinstance(seg, bool):
        raise AnalysisError('CER fixedChunkSize does not evaluate')
    m = inst.ci.method('encodeValue')
    eff = seg
    detail = '%s runs with maxChunkSize = %d' % (m.short, seg)
    node = m.node
    hops = 0
    while m is not base and m.node is not base.node:
        hops += 1
        if hops > 4:
            raise AnalysisError('delegation chain of %s does not reach %s' % (inst.ci.short, base.short))
        base_names = _base_names(m.cls)
        env = {'options': eff}
        try:
            r = _chunk_option(m.node.body, env, base_names)
        except _Undecided as x:
            raise AnalysisError('%s: %s' % (m.short, x))
        if r is None:
            raise AnalysisError('%s does not delegate to the base BIT STRING encoder' % m.short)
        eff = r
        detail = '%s hands maxChunkSize = %d to %s' % (m.short, eff, base.short)
        # next hop: the method the delegation resolves to (the first base class that defines encodeValue)
        nxt = None
        for c in m.cls.mro[1:]:
            d = c.own('encodeValue') if hasattr(c, 'own') else None
            if d is not None and d[0] == 'func':
                nxt = d[1]
                break
        if nxt is None:
            raise AnalysisError('base encodeValue of %s not found' % m.short)
        m = nxt
    ctx.ob('A7.bitseg', inst.ci.method('encodeValue'), 'CER BIT STRING segments hold %d contents octets' % x690.CER_SEGMENT,
           eff + 1 == x690.CER_SEGMENT,
           '%s; with the unused-bits octet a full segment (and the largest primitive encoding) has %d contents octets, X.690 9.2 '
           'requires %d: a BIT STRING of %d bits is written primitive with %d contents octets' % (
               detail, eff + 1, x690.CER_SEGMENT, eff * 8, eff + 1) if eff + 1 != x690.CER_SEGMENT else detail, node=node)
    # DER (tables inherited from CER): no segmentation at all
    d = enc_chain(ctx, 'der')
    dinst, _ = by_type(d, tid, ts)
    if isinstance(dinst, VInstance) and d['fixedChunkSize'] == 0:
        m = dinst.ci.method('encodeValue')
        eff = 0
        if m.node is not base.node:
            try:
                eff = _chunk_option(m.node.body, {'options': 0}, _base_names(m.cls))
            except _Undecided as x:
                raise AnalysisError('%s: %s' % (m.short, x))
        ctx.ob('A7.bitseg', m, 'DER BIT STRING is never segmented', eff == 0,
               'maxChunkSize reaches the base encoder as %r' % eff, node=m.node)


# ------------------------------------------------------------------- A12.none

def _demanding_uses(expr, v):
    """Sub-expressions of `expr` that need `v` to be bytes (not None): len(v), v + x, v[...], f(v), iteration.  A use that sits
    behind `v is not None and ...` / `v is None or ...` in the same expression is guarded and not reported."""
    out = []

    def walk(e, guarded):
        if isinstance(e, ast.BoolOp):
            g = guarded
            for x in e.values:
                walk(x, g)
                t = norm(x)
                if isinstance(e.op, ast.And) and t in ('%s is not None' % v, v):
                    g = True
                if isinstance(e.op, ast.Or) and t in ('%s is None' % v, 'not %s' % v):
                    g = True
            return
        if isinstance(e, ast.IfExp):
            t = norm(e.test)
            walk(e.test, guarded)
            walk(e.body, guarded or t in ('%s is not None' % v, v))
            walk(e.orelse, guarded or t in ('%s is None' % v, 'not %s' % v))
            return
        hit = False
        if isinstance(e, ast.Call):
            fn = norm(e.func)
            if fn not in ('isinstance', 'type', 'repr', 'str', 'bool') and any(isinstance(a, ast.Name) and a.id == v for a in e.args):
                hit = True
        elif isinstance(e, ast.BinOp) and any(isinstance(a, ast.Name) and a.id == v for a in (e.left, e.right)):
            hit = True
        elif isinstance(e, ast.Subscript) and isinstance(e.value, ast.Name) and e.value.id == v:
            hit = True
        elif isinstance(e, ast.Attribute) and isinstance(e.value, ast.Name) and e.value.id == v:
            hit = True
        if hit and not guarded:
            out.append(e)
        for c in ast.iter_child_nodes(e):
            if isinstance(c, ast.expr):
                walk(c, guarded)
    walk(expr, False)
    return out


def rule_raw_read_none(ctx):
    """A12.none: a raw stream may be non-blocking and answer `read()` with None ("nothing yet").  In the stream helpers
    every value received from a raw `read()` is known not to be None wherever it is used as octets (len, +, write,
    subscript): otherwise an arrival schedule with an empty poll raises TypeError instead of reporting an underrun."""
    from sa.cfg import reaching_defs, node_exprs, known_at
    m = ctx.mod('codec.streaming')
    n = 0
    for f in ctx.prog.all_functions():
        if f.module is not m:
            continue
        inmem = set()
        if f.cls is not None:
            init = f.cls.method('__init__')
            if init is not None:
                for a in walk_own(init.node):
                    if isinstance(a, ast.Assign) and isinstance(a.value, ast.Call) and norm(a.value.func) in ('io.BytesIO', 'BytesIO'):
                        inmem |= set(norm(t) for t in a.targets)
        reads = []
        for a in walk_own(f.node):
            if isinstance(a, ast.Assign) and len(a.targets) == 1 and isinstance(a.targets[0], ast.Name) and \
                    isinstance(a.value, ast.Call) and isinstance(a.value.func, ast.Attribute) and a.value.func.attr == 'read' and \
                    norm(a.value.func.value) not in inmem:
                reads.append(a)
        if not reads:
            continue
        cfg = ctx.cfg(f)
        rd = reaching_defs(cfg, f.params())
        for a in reads:
            v = a.targets[0].id
            dnode = cfg.node_of.get(a)
            if dnode is None:
                continue
            n += 1
            bad = []
            for node in cfg.stmt_nodes():
                if node is dnode or dnode not in rd[node].get(v, ()):
                    continue
                for e in node_exprs(node):
                    for u in _demanding_uses(e, v):
                        if not known_at(cfg, node, '%s is None' % v, False, rd) and not known_at(cfg, node, v, True, rd):
                            bad.append((node, u))
            ctx.ob('A12.none', f, '`%s = %s` is not None wherever it is used as octets' % (v, norm(a.value)[:40]), not bad,
                   '`%s` (line %d) uses it although the read may have answered None: a non-blocking raw stream with nothing to '
                   'deliver makes this a TypeError instead of an underrun report' % (
                       norm(bad[0][1])[:50], getattr(bad[0][1], 'lineno', 0)) if bad else 'every such use is behind an `is None` test',
                   node=a)
    if n < 3:
        raise AnalysisError('A12.none: found only %d raw reads in the stream helpers' % n)


# ------------------------------------------------------------------- W.segspec

def _retag_assign(a):
    """`x = <obj>.clone(tagSet=...)`"""
    return isinstance(a, ast.Assign) and isinstance(a.value, ast.Call) and isinstance(a.value.func, ast.Attribute) and \
        a.value.func.attr == 'clone' and any(k.arg == 'tagSet' for k in a.value.keywords)


def rule_segment_handover(ctx):
    """W.segspec: what the chunk loop of a chunking string encoder hands to `encodeFun` for a segment - the value, and the
    spec if one is passed - has been re-tagged for segments (`.clone(tagSet=...)`, the tag set itself is W.segtag's business)
    on EVERY path, whatever flavour of input the encoder was given (value object, Python value + spec, octets + spec): no
    definition of the spec other than a re-tagging one reaches the call, in particular not the caller's own spec."""
    from sa.cfg import reaching_defs, node_exprs
    n = 0
    for q in ('codec.ber.encoder.OctetStringEncoder.encodeValue', 'codec.ber.encoder.BitStringEncoder.encodeValue'):
        f = ctx.func(q)
        cfg = ctx.cfg(f)
        params = f.params()
        rd = reaching_defs(cfg, params)
        loops = [l for l in walk_own(f.node) if isinstance(l, (ast.While, ast.For))]
        calls = []
        for l in loops:
            for c in ast.walk(l):
                if isinstance(c, ast.Call) and isinstance(c.func, ast.Name) and c.func.id == 'encodeFun' and len(c.args) >= 2:
                    calls.append(c)
        if not calls:
            raise AnalysisError('chunk loop with an encodeFun call not found in %s' % f.short)
        for c in calls:
            node = [x for x in cfg.stmt_nodes() if any(c is y for e in node_exprs(x) for y in ast.walk(e))][0]
            for role, arg in (('value', c.args[0]), ('spec', c.args[1])):
                if isinstance(arg, ast.Constant) and arg.value is None and role == 'spec':
                    n += 1
                    ctx.ob('W.segspec', f, 'segment %s handed to encodeFun is re-tagged' % role, True,
                           'no spec is handed on: the segment value carries its own tags', node=c)
                    continue
                names = [x.id for x in ast.walk(arg) if isinstance(x, ast.Name) and isinstance(x.ctx, ast.Load)]
                # the variable that carries the tags: the spec itself, or the object the chunk is sliced from
                carriers = [v for v in names if v not in ('start', 'stop', 'pos', 'maxChunkSize')]
                if role == 'value':
                    # octets sliced from the measured substrate carry no tags; a sliced value object does
                    carriers = [v for v in carriers if any(_retag_assign(d.ast) for d in rd[node].get(v, ()) if d.kind == 'stmt')
                                or v in params]
                    if not carriers:
                        continue
                bad = []
                for v in carriers:
                    for d in rd[node].get(v, ()):
                        if d.kind == 'stmt' and _retag_assign(d.ast):
                            continue
                        bad.append((v, 'the caller\'s `%s`' % v if d.kind == 'entry' else '`%s`' % (d.text()[:50])))
                n += 1
                ctx.ob('W.segspec', f, 'segment %s handed to encodeFun is re-tagged' % role, not bad,
                       '%s reaches `%s` without having been re-tagged for segments: with octets (or a Python value) and an IMPLICITly or '
                       'EXPLICITly tagged spec the segments carry the spec\'s tags instead of the universal one - other bytes than for '
                       'the equivalent value object, and no decoder accepts them' % (bad[0][1], norm(c)[:60]) if bad else
                       'only re-tagged definitions reach the call', node=c)
    if n < 2:
        raise AnalysisError('W.segspec: segment hand-over sites not found')


# ------------------------------------------------------------------- A8.probe

def _allows_eoo(call):
    for k in call.keywords:
        if k.arg == 'allowEoo' and isinstance(k.value, ast.Constant) and k.value.value:
            return True
        if k.arg is None and isinstance(k.value, ast.Call) and norm(k.value.func) == 'dict':
            for kk in k.value.keywords:
                if kk.arg == 'allowEoo' and not (isinstance(kk.value, ast.Constant) and not kk.value.value):
                    return True
    return False


def rule_eoo_probe_boundary(ctx):
    """A8.probe: the item decoder's end-of-octets probe (`allowEoo=True`) looks at the next two octets and takes `00 00` for
    the end of the enclosing indefinite-length value.  That reading is right only at an element boundary: a `decodeFun`
    call that re-enters an element whose header has already been read (it passes `state` along) must
    not ask for the probe - the next octets are that element's CONTENTS, and contents may begin with `00 00` (an empty
    indefinite-length SEQUENCE OF chosen in an untagged CHOICE)."""
    dec = ctx.mod('codec.ber.decoder')
    n = 0
    for f in ctx.prog.all_functions():
        if f.module is not dec:
            continue
        for c in walk_own(f.node):
            if not (isinstance(c, ast.Call) and isinstance(c.func, ast.Name) and c.func.id == 'decodeFun'):
                continue
            if not _allows_eoo(c):
                continue
            n += 1
            # (substrate, asn1Spec, tagSet, length, state): only `state` makes the item decoder skip the tag and length octets
            mid = len(c.args) > 4 or any(k.arg == 'state' for k in c.keywords)
            ctx.ob('A8.probe', f, 'end-of-octets probe requested at an element boundary: `%s`' % norm(c)[:60], not mid,
                   'this call re-enters an element after its header (`state` is passed on) and still asks for the '
                   'end-of-octets probe: contents that begin with 00 00 are taken for the end of the enclosing value '
                   '(untagged CHOICE whose alternative is an empty indefinite-length SEQUENCE OF: `30 80 00 00` is refused)'
                   if mid else 'fresh element', node=c)
    if n < 6:
        raise AnalysisError('A8.probe: found only %d decodeFun calls that allow end-of-octets' % n)


# ------------------------------------------------------------------- W.real10in

def rule_real_initialisers_normalised(ctx):
    """W.real10in: every base-10 triple that `Real.prettyIn` returns has been through the base-10 normaliser, whichever
    kind of initialiser it was made from (triple, int, float, text): the canonical encoders write the stored triple as
    it is, so 1200 built from an int and from a float must be stored as the same (12, 10, 2)."""
    f = ctx.func('type.univ.Real.prettyIn')
    cfg = ctx.cfg(f)

    def is_norm_call(e):
        return isinstance(e, ast.Call) and norm(e.func).replace('_Real', '').endswith('__normalizeBase10')
    n = 0
    for node in cfg.stmt_nodes():
        r = node.ast
        if not isinstance(r, ast.Return) or r.value is None:
            continue
        v = r.value
        if is_norm_call(v):
            n += 1
            ctx.ob('W.real10in', f, '`%s`' % norm(r)[:60], True, 'normalised', node=r)
        elif isinstance(v, ast.Tuple) and len(v.elts) == 3:
            base = v.elts[1]
            ok = isinstance(base, ast.Constant) and base.value != 10
            n += 1
            ctx.ob('W.real10in', f, '`%s`' % norm(r)[:60], ok,
                   'a base-10 triple is returned as it was built: trailing zero digits of the mantissa stay in the mantissa, and the '
                   'same number initialised another way is stored - and written by DER / CER - differently', node=r)
        elif isinstance(v, ast.Name):
            from sa.cfg import known_at
            if not known_at(cfg, node, 'isinstance(%s, tuple)' % v.id, True):
                continue        # not the triple arm (a float infinity is returned as it is)
            tests = [t for t in cfg.nodes if t.kind == 'test' and t.ast is not None and norm(t.ast.test) in ('%s[1] == 10' % v.id, '10 == %s[1]' % v.id)]
            norms = [x for x in cfg.stmt_nodes() if x.kind == 'stmt' and isinstance(x.ast, ast.Assign) and is_norm_call(x.ast.value) and
                     any(isinstance(t, ast.Name) and t.id == v.id for t in x.ast.targets)]
            ok = False
            for t in tests:
                if not cfg.dominates(t, node):
                    continue
                starts = [s for s, lab in t.succs if lab == 'true']
                leak = False
                for s0 in starts:
                    if s0 in norms:
                        continue
                    if s0 is node or node in cfg.reachable(s0, avoid=norms):
                        leak = True
                ok = not leak
            n += 1
            ctx.ob('W.real10in', f, '`%s`' % norm(r)[:60], ok,
                   'the triple handed in is returned without the base-10 normaliser on the `[1] == 10` side', node=r)
    if n < 3:
        raise AnalysisError('W.real10in: found only %d triple returns in %s' % (n, f.short))


# ------------------------------------------------------------------- A3.segjoin

def rule_segment_kinds(ctx):
    """A3.segjoin: a segment handed back by `decodeFun(..., substrateFun=...)` inside a constructed string is raw octets
    when the collector captured it, but a decoded string OBJECT when the segment is itself in the indefinite form (the
    item decoder decodes it).  Both kinds support `+` / `+=` and indexing; only octets can be given to `bytes.join`,
    `bytes()` or `bytearray()`.  No segment (or list of segments) reaches one of those: TypeError would leave the decoder."""
    dec_modules = ('pyasn1.codec.ber.decoder', 'pyasn1.codec.cer.decoder', 'pyasn1.codec.der.decoder')
    nloops = 0
    for f in ctx.prog.all_functions():
        if f.module.name not in dec_modules:
            continue
        seeds = set()
        for lp in walk_own(f.node):
            if isinstance(lp, ast.For) and isinstance(lp.iter, ast.Call) and isinstance(lp.iter.func, ast.Name) and \
                    lp.iter.func.id == 'decodeFun' and any(k.arg == 'substrateFun' for k in lp.iter.keywords) and isinstance(lp.target, ast.Name):
                seeds.add(lp.target.id)
                nloops += 1
        if not seeds:
            continue
        taint = set(seeds)
        changed = True
        while changed:
            changed = False
            for n in walk_own(f.node):
                tgt, val = None, None
                if isinstance(n, ast.Assign) and len(n.targets) == 1 and isinstance(n.targets[0], ast.Name):
                    tgt, val = n.targets[0].id, n.value
                elif isinstance(n, ast.AugAssign) and isinstance(n.target, ast.Name):
                    tgt, val = n.target.id, n.value
                elif isinstance(n, ast.Call) and isinstance(n.func, ast.Attribute) and n.func.attr in ('append', 'extend', 'insert') and \
                        isinstance(n.func.value, ast.Name):
                    tgt, val = n.func.value.id, ast.Tuple(elts=list(n.args), ctx=ast.Load())
                if tgt is None or tgt in taint:
                    continue
                # a call result is a new value (fromOctetString(...), _createComponent(...)); containers and arithmetic carry it
                carried = False
                for x in ast.walk(val):
                    if isinstance(x, ast.Name) and x.id in taint:
                        inside_call = False
                        for c in ast.walk(val):
                            if isinstance(c, ast.Call) and any(x is y for a in c.args for y in ast.walk(a)) and \
                                    not (isinstance(c.func, ast.Name) and c.func.id in ('list', 'tuple', 'reversed', 'sorted')):
                                inside_call = True
                        if not inside_call:
                            carried = True
                if carried:
                    taint.add(tgt)
                    changed = True
        bad = []
        for c in walk_own(f.node):
            if not isinstance(c, ast.Call):
                continue
            sink = None
            if isinstance(c.func, ast.Attribute) and c.func.attr == 'join' and c.args:
                sink = c.args[0]
            elif isinstance(c.func, ast.Name) and c.func.id in ('bytes', 'bytearray', 'ints2octs') and c.args:
                sink = c.args[0]
            if sink is not None and any(isinstance(x, ast.Name) and x.id in taint for x in ast.walk(sink)):
                bad.append(c)
        ctx.ob('A3.segjoin', f, 'segments are combined only through operations both kinds of segment support', not bad,
               '`%s` (line %d) is given segments that may be string objects (a nested segment in the indefinite form, `24 80 24 80 04 01 61 '
               '00 00 00 00`): TypeError leaves the decoder' % (norm(bad[0])[:50], bad[0].lineno) if bad else 'only `+`, `+=`, indexing', node=bad[0] if bad else f.node)
    if nloops < 4:
        raise AnalysisError('A3.segjoin: found only %d segment loops' % nloops)


# ------------------------------------------------------------------- C10.strictdec

def rule_strict_text_codecs(ctx):
    """C10.strictdec: character-string types turn octets into text (and back) with the STRICT error handler: a `decode` /
    `encode` call with another handler (`'replace'`, `'ignore'`, `'surrogatepass'`, ...) makes octets that are not text of
    the type's encoding an accepted value - which the library's own encoder then cannot write."""
    n = 0
    for q in ('type.char', 'type.univ'):
        m = ctx.mod(q)
        for f in ctx.prog.all_functions():
            if f.module is not m or f.cls is None:
                continue
            if f.name not in ('prettyIn', 'asOctets', '__bytes__', '__str__', 'prettyOut', '__unicode__'):
                continue
            for c in walk_own(f.node):
                if isinstance(c, ast.Call) and isinstance(c.func, ast.Attribute) and c.func.attr in ('decode', 'encode') and \
                        c.args and norm(c.args[0]).endswith('.encoding'):
                    n += 1
                    handler = None
                    if len(c.args) > 1:
                        handler = c.args[1]
                    for k in c.keywords:
                        if k.arg == 'errors':
                            handler = k.value
                    ok = handler is None or (isinstance(handler, ast.Constant) and handler.value == 'strict')
                    ctx.ob('C10.strictdec', f, '`%s` uses the strict error handler' % norm(c)[:50], ok,
                           'error handler %s: octets that are not well-formed %s are accepted as a value (for instance a lone surrogate '
                           '`ED A0 BF` in a UTF8String), and the encoder refuses the value the decoder returned' % (
                               norm(handler) if handler is not None else '', 'text of the type\'s encoding') if not ok else 'strict', node=c)
    if n < 5:
        raise AnalysisError('C10.strictdec: found only %d text codec calls' % n)


# ------------------------------------------------------------------- A6.form

def rule_form_by_base_tag(ctx):
    """A6.form: a payload decoder tells the primitive from the constructed form of the value it decodes by the BASE tag of
    the recovered tag set (`tagSet[0]`, the innermost TLV - the one whose contents it is about to read).  The outer tags
    of an explicitly tagged value are always constructed; every payload decoder and the item decoder index the same
    way."""
    n = 0
    for mq in ('codec.ber.decoder', 'codec.cer.decoder', 'codec.der.decoder'):
        m = ctx.mod(mq)
        for f in ctx.prog.all_functions():
            if f.module is not m:
                continue
            for x in walk_own(f.node):
                if isinstance(x, ast.Attribute) and x.attr == 'tagFormat' and isinstance(x.ctx, ast.Load) and \
                        isinstance(x.value, ast.Subscript) and not isinstance(x.value.slice, ast.Slice):
                    idx = x.value.slice
                    n += 1
                    k = None
                    if isinstance(idx, ast.Constant) and isinstance(idx.value, int):
                        k = idx.value
                    elif isinstance(idx, ast.UnaryOp) and isinstance(idx.op, ast.USub) and isinstance(idx.operand, ast.Constant):
                        k = -idx.operand.value
                    ctx.ob('A6.form', f, 'encoding form read from the base tag: `%s`' % norm(x), k == 0,
                           'index %s: under an EXPLICIT tag this is the wrapper (always constructed), so a primitive value of the type is '
                           'taken for a segmented one and the type rejects its own encoding' % norm(idx) if k != 0 else 'tagSet[0]', node=x)
    if n < 9:
        raise AnalysisError('A6.form: found only %d tagFormat reads' % n)


# ------------------------------------------------------------------- C14.consult

def rule_consistency_consults(ctx):
    """C14.consult: `isInconsistent` of the two container bases answers "consistent" (a false value) only after the
    constraints were called on the components - or because there are no constraints / no component type at all.  An empty
    but set SEQUENCE OF has components to count: SIZE (1..3) must be able to object."""
    from sa.cfg import _cuts, _literals
    n = 0
    for q in ('type.univ.SequenceOfAndSetOfBase.isInconsistent', 'type.univ.SequenceAndSetBase.isInconsistent'):
        f = ctx.func(q)
        cfg = ctx.cfg(f)
        calls = [x for x in cfg.stmt_nodes() if x.ast is not None and any(
            isinstance(c, ast.Call) and norm(c.func) == 'self.subtypeSpec' for e in _exprs(x) for c in ast.walk(e))]
        if not calls:
            raise AnalysisError('constraint call not found in %s' % f.short)
        for r in cfg.stmt_nodes():
            if not (isinstance(r.ast, ast.Return) and isinstance(r.ast.value, ast.Constant) and not r.ast.value.value):
                continue
            n += 1
            consulted = cfg.must_pass(cfg.entry, r, lambda m: m in calls)
            excused = None
            if not consulted:
                for t in cfg.nodes:
                    if t.kind != 'test' or t.ast is None:
                        continue
                    kind, lits = _literals(t.ast.test)
                    texts = [(tx, pol) for tx, pol, e in lits]
                    no_constraints = ('self.subtypeSpec', False) in texts or ('self.componentType is noValue', True) in texts
                    if kind in ('lit', 'or') and no_constraints and all(
                            (tx, pol) in (('self.subtypeSpec', False), ('self.componentType is noValue', True)) for tx, pol in texts) and \
                            _cuts(cfg, t, 'true', r):
                        excused = t
            ok = consulted or excused is not None
            ctx.ob('C14.consult', f, '`%s` (line %d) follows the constraint call or the "no constraints" test' % (norm(r.ast), r.ast.lineno), ok,
                   'this answer is given without asking `subtypeSpec`: a value the constraints forbid (an emptied SEQUENCE OF under '
                   'SIZE (1..3)) passes as consistent and every encoder writes it' if not ok else
                   ('after the constraint call' if consulted else 'no constraints / no component type'), node=r.ast)
    if n < 4:
        raise AnalysisError('C14.consult: found only %d falsy answers' % n)


def _exprs(nd):
    from sa.cfg import node_exprs
    return node_exprs(nd)


# ------------------------------------------------------------------- C17.items

def rule_items_positional(ctx):
    """C17.items: the native record encoder pairs the i-th pair of `value.items()` with the i-th named type
    (`enumerate(value.items())`, `namedTypes[idx]`).  `items()` / `values()` of the record base therefore produce exactly
    one element per position: every pass through their loop yields."""
    enc = ctx.func('codec.native.encoder.SetEncoder.encode')
    pairs = [lp for lp in walk_own(enc.node) if isinstance(lp, ast.For) and isinstance(lp.iter, ast.Call) and
             norm(lp.iter.func) == 'enumerate' and lp.iter.args and norm(lp.iter.args[0]).endswith('.items()')]
    uses = [x for lp in pairs for x in ast.walk(lp) if isinstance(x, ast.Subscript) and norm(x.value) == 'namedTypes']
    if not pairs or not uses:
        ctx.ob('C17.items', enc, 'native record encoder pairs items() with named types by position', True,
               'the encoder no longer relies on positions', note=True)
        return
    n = 0
    for nm in ('items', 'values'):
        f = ctx.func('type.univ.SequenceAndSetBase.%s' % nm)
        cfg = ctx.cfg(f)
        loops = [x for x in cfg.nodes if x.kind == 'for']
        if not loops:
            raise AnalysisError('position loop not found in %s' % f.short)
        for h in loops:
            ys = [x for x in cfg.stmt_nodes() if x.ast is not None and x.kind == 'stmt' and isinstance(x.ast, ast.Expr) and
                  isinstance(x.ast.value, (ast.Yield, ast.YieldFrom))]
            starts = [s for s, lab in h.succs if lab == 'item']
            skip = False
            for s0 in starts:
                if s0 in ys:
                    continue
                if s0 is h or h in cfg.reachable(s0, avoid=ys):
                    skip = True
            n += 1
            ctx.ob('C17.items', f, 'every position produces one element of %s()' % nm, not skip,
                   'a pass through the loop can end without a yield: the positions of what follows shift, and %s tests `namedTypes[idx]` of '
                   'the wrong member (the member after an absent OPTIONAL is left out of the native value)' % enc.short if skip else
                   'each pass yields', node=h.ast)
    if n < 2:
        raise AnalysisError('C17.items: loops not found')


# ------------------------------------------------------------------- A11.tz

def rule_offset_verbatim(ctx):
    """A11.tz: the tzinfo that `asDateTime` attaches carries the offset that was parsed: `FixedOffset.__init__` hands its
    `offset` argument to `timedelta(minutes=...)` as it came (no wrapping, clamping or rounding on the way)."""
    f = ctx.func('type.useful.TimeMixIn.FixedOffset.__init__')
    from sa.cfg import reaching_defs
    cfg = ctx.cfg(f)
    params = f.params()
    rd = reaching_defs(cfg, params)
    calls = []
    for nd in cfg.stmt_nodes():
        for e in _exprs(nd):
            for c in ast.walk(e):
                if isinstance(c, ast.Call) and norm(c.func).endswith('timedelta'):
                    calls.append((nd, c))
    if not calls:
        raise AnalysisError('timedelta call not found in %s' % f.short)
    for nd, c in calls:
        arg = None
        for k in c.keywords:
            if k.arg == 'minutes':
                arg = k.value
        ok = isinstance(arg, ast.Name) and arg.id in params and all(d.kind == 'entry' for d in rd[nd].get(arg.id, ()))
        ctx.ob('A11.tz', f, '`%s` receives the offset argument as given' % norm(c)[:50], ok,
               'the offset is `%s`%s: an offset of +12:00 and beyond (or below -12:00) comes back as the one a day away - same wall '
               'clock, another instant' % (norm(arg) if arg is not None else '?', '' if not isinstance(arg, ast.Name) else ' after a re-definition')
               if not ok else 'minutes=offset', node=c)


# ------------------------------------------------------------------- A6.zeroseg

def rule_zero_segments(ctx):
    """A6.zeroseg: the constructed form of a string may consist of no segments at all (X.690 8.6.4 / 8.7.3); the indefinite
    form `23 80 00 00` is read as the empty BIT STRING, so the definite form `23 00` must be too.  In the BIT STRING
    decoder the "no contents octets" error belongs to the PRIMITIVE form (which needs its unused-bits octet): the raise
    is reached only where the base tag is known to be primitive."""
    from sa.cfg import known_at
    f = ctx.func('codec.ber.decoder.BitStringPayloadDecoder.valueDecoder')
    cfg = ctx.cfg(f)
    raises = []
    for nd in cfg.nodes:
        if nd.kind in ('raisestmt', 'raise') and nd.ast is not None and isinstance(nd.ast, ast.Raise):
            # raise guarded by a test on `length` alone
            deps = [t for t in cfg.nodes if t.kind == 'test' and t.ast is not None and norm(t.ast.test) in ('not length', 'length == 0', 'length < 1', 'not length > 0')
                    and any(s is nd for s, lab in t.succs)]
            if deps:
                raises.append(nd)
    if not raises:
        raise AnalysisError('the empty-contents error of %s was not found' % f.short)
    for nd in raises:
        prim = known_at(cfg, nd, 'tagSet[0].tagFormat == tag.tagFormatSimple', True)
        ctx.ob('A6.zeroseg', f, 'the "no contents octets" error (line %d) is raised for the primitive form only' % nd.ast.lineno, prim,
               'the error is raised before the form is looked at: `23 00` - a constructed BIT STRING of no segments, the definite-length '
               'twin of `23 80 00 00` - is refused' if not prim else 'under the primitive-form test', node=nd.ast)


# ------------------------------------------------------------------- C04.copyvalue

def rule_copy_is_value(ctx):
    """C04.copyvalue: the deep copy of a SEQUENCE OF / SET OF that is a value is a value, also when it holds nothing:
    the copier leaves a schema object alone (early return on `_componentValues is noValue`) and otherwise starts the copy
    from `clear()` - an emptied list and its clone are the same abstract value and are written the same."""
    from sa.cfg import known_at
    f = ctx.func('type.univ.SequenceOfAndSetOfBase._cloneComponentValues')
    cfg = ctx.cfg(f)
    target = f.params()[1] if len(f.params()) > 1 else 'myClone'
    clears = [nd for nd in cfg.stmt_nodes() if nd.ast is not None and nd.kind == 'stmt' and any(
        isinstance(c, ast.Call) and norm(c.func) == '%s.clear' % target for e in _exprs(nd) for c in ast.walk(e))]
    reads = [nd for nd in cfg.nodes if nd.ast is not None and any(
        isinstance(c, ast.Call) and norm(c.func) in ('self._componentValues.items', 'self._componentValues.values', 'self._componentValues.keys')
        for e in _exprs(nd) for c in ast.walk(e))]
    if not reads:
        raise AnalysisError('component walk not found in %s' % f.short)
    for nd in reads:
        guarded = known_at(cfg, nd, 'self._componentValues is noValue', False)
        ctx.ob('C04.copyvalue', f, 'the components are walked only when there is a value', guarded,
               '`.items()` of a schema object: clone(cloneValueFlag=True) of a schema SEQUENCE OF raises' if not guarded else 'after the noValue test', node=nd.ast)
        cleared = bool(clears) and cfg.must_pass(cfg.entry, nd, lambda m: m in clears)
        ctx.ob('C04.copyvalue', f, 'the copy is put into the value state before the walk', cleared,
               'no `%s.clear()` on the way: the clone of an emptied list is a schema object (isValue False) - left out as an OPTIONAL '
               'component where the original is written `30 00`' % target if not cleared else 'clear() first', node=nd.ast)


# ------------------------------------------------------------------- C17.clear

def rule_native_list_cleared(ctx):
    """C17.clear: the native decoder builds a SEQUENCE OF / SET OF by cloning the type and appending; a clone is a schema
    object until something is stored in it or `clear()` is called.  On every path from the clone to the return `clear()`
    has been called, so that the Python value `[]` comes back as an (empty) value - not as a placeholder that the
    enclosing record then treats as an absent OPTIONAL."""
    from sa.cfg import reaching_defs
    f = ctx.func('codec.native.decoder.SequenceOfOrSetOfPayloadDecoder.__call__')
    cfg = ctx.cfg(f)
    rd = reaching_defs(cfg, f.params())
    n = 0
    for r in cfg.stmt_nodes():
        if not (isinstance(r.ast, ast.Return) and isinstance(r.ast.value, ast.Name)):
            continue
        var = r.ast.value.id
        for d in rd[r].get(var, ()):
            if not (d.kind == 'stmt' and isinstance(d.ast, ast.Assign) and isinstance(d.ast.value, ast.Call) and
                    isinstance(d.ast.value.func, ast.Attribute) and d.ast.value.func.attr == 'clone'):
                continue
            n += 1
            ok = cfg.must_pass(d, r, lambda m, var=var: m.kind == 'stmt' and isinstance(m.ast, ast.Expr) and isinstance(m.ast.value, ast.Call) and
                               norm(m.ast.value.func) == '%s.clear' % var)
            ctx.ob('C17.clear', f, 'list `%s = %s` is cleared before it is returned' % (var, norm(d.ast.value)[:40]), ok,
                   'no `%s.clear()` between the clone and the return: `[]` is decoded into a schema object (isValue False); inside a '
                   'record an OPTIONAL empty list that BER wrote as `30 00` is gone after the native round trip' % var if not ok else
                   'clear() on every path', node=d.ast)
    if n < 1:
        raise AnalysisError('C17.clear: cloned result list not found in %s' % f.short)


# ------------------------------------------------------------------- C14.narrow

def rule_adding_narrows(ctx):
    """C14.narrow: `subtype(subtypeSpec=X)` adds X to the inherited constraint with `+`.  For an intersection, growing its
    own operand list narrows; for a UNION it widens (the derived type would admit what the parent refuses), so `+` on a
    union has to build the intersection of the union and the operand."""
    uni = ctx.cls('type.constraint.ConstraintsUnion')
    inter = ctx.cls('type.constraint.ConstraintsIntersection')
    n = 0
    for nm in ('__add__', '__radd__'):
        for cls, conj in ((inter, True), (uni, False)):
            m = cls.method(nm)
            if m is None:
                raise AnalysisError('%s.%s does not resolve' % (cls.short, nm))
            n += 1
            par = m.params()[1] if len(m.params()) > 1 else None
            rets = [r.value for r in walk_own(m.node) if isinstance(r, ast.Return) and r.value is not None]
            builds_inter = bool(rets) and all(
                isinstance(r, ast.Call) and norm(r.func).split('.')[-1] == 'ConstraintsIntersection' and
                any(norm(a) == 'self' for a in r.args) and any(norm(a) == par for a in r.args) for r in rets)
            grows_own = bool(rets) and all(
                isinstance(r, ast.Call) and (norm(r.func) in ('self._derive', 'self.__class__')) and 'self._values' in norm(r) and par in names_of(r)
                for r in rets)
            ok = builds_inter or (conj and grows_own)
            ctx.ob('C14.narrow', m, '`%s.%s` yields a constraint that admits no more than the receiver' % (cls.name, nm), ok,
                   'the operand is appended to the operand list of a %s: for a union that ADMITS MORE - a type derived from `T` '
                   '(subtypeSpec = Union(1, 2)) by subtype(subtypeSpec=Range(10, 20)) accepts 15' % cls.name if not ok else
                   ('intersection of the receiver and the operand' if builds_inter else 'grows the operand list of an intersection'), node=m.node)
    if n < 4:
        raise AnalysisError('C14.narrow: methods not found')


def names_of(e):
    return set(x.id for x in ast.walk(e) if isinstance(x, ast.Name))


# ------------------------------------------------------------------- W.bitslice

def rule_bit_slice(ctx):
    """W.bitslice: the chunking BIT STRING encoder cuts each segment as `alignedValue[start:stop]` from an object whose tag
    set it has just replaced by the segment tag.  A slice of a BIT STRING therefore (a) is made with `self.clone(...)` - it
    keeps the tag set (and constraints) of the object it was cut from - and (b) is given its bits as a sequence, one element
    per bit, or as a sized integer whose length has been set: a bare integer has the length of its highest one bit, so a
    run that begins with zero bits would come out shorter."""
    from sa.cfg import known_at
    f = ctx.func('type.univ.BitString.__getitem__')
    cfg = ctx.cfg(f)
    par = f.params()[1]
    n = 0
    for r in cfg.stmt_nodes():
        if not (isinstance(r.ast, ast.Return) and r.ast.value is not None):
            continue
        if not (known_at(cfg, r, '%s.__class__ is slice' % par, True) or known_at(cfg, r, 'isinstance(%s, slice)' % par, True)):
            continue
        n += 1
        v = r.ast.value
        via_clone = isinstance(v, ast.Call) and norm(v.func) == 'self.clone' and len(v.args) == 1
        ctx.ob('W.bitslice', f, 'slice (line %d) is a clone of the object it was cut from' % r.ast.lineno, via_clone,
               '`%s`: the slice gets the tag set of the class, not of the object - the segments of a chunked BIT STRING whose tag set was '
               'declared on the class come out with the outer tag instead of the universal one' % norm(v)[:60] if not via_clone else 'self.clone(...)',
               node=r.ast)
        if not via_clone:
            continue
        a = v.args[0]
        sized = isinstance(a, (ast.ListComp, ast.GeneratorExp, ast.List, ast.Tuple)) or \
            (isinstance(a, ast.Call) and isinstance(a.func, ast.Name) and a.func.id in ('list', 'tuple')) or \
            (isinstance(a, ast.Call) and isinstance(a.func, ast.Attribute) and a.func.attr == 'setBitLength')
        if isinstance(a, ast.Name):
            defs = [x.value for x in walk_own(f.node) if isinstance(x, ast.Assign) and len(x.targets) == 1 and norm(x.targets[0]) == a.id]
            sized = bool(defs) and all(isinstance(d, (ast.ListComp, ast.List, ast.Tuple)) or
                                       (isinstance(d, ast.Call) and isinstance(d.func, ast.Attribute) and d.func.attr == 'setBitLength') for d in defs)
        ctx.ob('W.bitslice', f, 'slice (line %d) carries its length' % r.ast.lineno, sized,
               '`%s` is an integer without a recorded bit length: a run that begins with 0 bits comes out shorter (CER segments of a long '
               'BIT STRING lose their leading zeros)' % norm(a)[:60] if not sized else 'one element per bit / sized', node=r.ast)
    if n < 1:
        raise AnalysisError('W.bitslice: slice arm of %s not found' % f.short)


# ------------------------------------------------------------------- C10.reqset

def rule_required_set(ctx):
    """C10.reqset: the decoders' "all mandatory components seen" test uses `NamedTypes.requiredComponents`.  A component is
    in that set exactly when it is neither OPTIONAL nor DEFAULT - whatever else is true of it (truth table over the atoms
    of the comprehension's condition)."""
    import itertools
    f = ctx.func('type.namedtype.NamedTypes.__init__')
    comps = []
    for a in walk_own(f.node):
        if isinstance(a, ast.Assign) and any(isinstance(t, ast.Attribute) and t.attr.endswith('requiredComponents') for t in a.targets):
            for c in ast.walk(a.value):
                if isinstance(c, (ast.ListComp, ast.GeneratorExp, ast.SetComp)):
                    comps.append((a, c))
    if len(comps) != 1:
        raise AnalysisError('requiredComponents comprehension not found in %s' % f.short)
    a, c = comps[0]
    gen = c.generators[0]
    conds = gen.ifs
    atoms = {}

    def ev(e, env):
        if isinstance(e, ast.BoolOp):
            vals = [ev(x, env) for x in e.values]
            return all(vals) if isinstance(e.op, ast.And) else any(vals)
        if isinstance(e, ast.UnaryOp) and isinstance(e.op, ast.Not):
            return not ev(e.operand, env)
        return env[norm(e)]

    def collect(e):
        if isinstance(e, ast.BoolOp):
            for x in e.values:
                collect(x)
        elif isinstance(e, ast.UnaryOp) and isinstance(e.op, ast.Not):
            collect(e.operand)
        else:
            atoms[norm(e)] = e
    for x in conds:
        collect(x)
    opt = [k for k in atoms if k.endswith('.isOptional')]
    dfl = [k for k in atoms if k.endswith('.isDefaulted')]
    bad = None
    if len(opt) == 1 and len(dfl) == 1:
        names = sorted(atoms)
        for bits in itertools.product((False, True), repeat=len(names)):
            env = dict(zip(names, bits))
            got = all(ev(x, env) for x in conds)
            want = not env[opt[0]] and not env[dfl[0]]
            if got != want:
                bad = ', '.join('%s=%s' % kv for kv in sorted(env.items()))
                break
    else:
        bad = 'the condition does not test isOptional and isDefaulted'
    ctx.ob('C10.reqset', f, 'required <=> neither OPTIONAL nor DEFAULT', bad is None,
           'for %s the component is %s the required set: a mandatory component can be missing from an accepted encoding '
           '(`30 03 04 01 41` for SEQUENCE { name OCTET STRING, marker NULL })' % (bad, 'left out of' ) if bad else
           ' and '.join(norm(x) for x in conds), node=c)


# ------------------------------------------------------------------- C14.encall

def rule_encoders_check_first(ctx):
    """C14.encall: the SEQUENCE OF / SET OF content encoders of every codec return contents octets only after the value's
    own constraints were asked (`isInconsistent`, directly or through `_encodeComponents`) - there is no way out in front
    of that, not even for an empty value (SIZE (1..3) must be able to object).  The `ifNotEmpty` early return is exempt:
    that option never reaches a content encoder (A5.itemopt)."""
    from sa.cfg import known_at
    from sa.rules.tables import enc_chain, by_type
    seen = set()
    n = 0
    for codec in ('ber', 'cer', 'der'):
        e = enc_chain(ctx, codec)
        for cname in ('type.univ.SequenceOf', 'type.univ.SetOf'):
            tc = ctx.cls(cname)
            _, tid = ctx.ev.class_attr(tc, 'typeId')
            _, ts = ctx.ev.class_attr(tc, 'tagSet')
            inst, how = by_type(e, tid, ts)
            if not isinstance(inst, VInstance):
                raise AnalysisError('no %s encoder in %s' % (cname, codec))
            m = inst.ci.method('encodeValue')
            if m is None or m in seen:
                continue
            seen.add(m)
            cfg = ctx.cfg(m)
            checks = [x for x in cfg.stmt_nodes() if x.ast is not None and any(
                (isinstance(c, ast.Call) and norm(c.func) in ('self._encodeComponents',) or
                 (isinstance(c, ast.Call) and isinstance(c.func, ast.Attribute) and c.func.attr == 'encodeValue' and not norm(c.func.value).startswith('self')) or
                 (isinstance(c, ast.Attribute) and c.attr == 'isInconsistent'))
                for x_ in _exprs(x) for c in ast.walk(x_))]
            for r in cfg.stmt_nodes():
                if not isinstance(r.ast, ast.Return) or r.ast.value is None:
                    continue
                if r in checks:
                    n += 1
                    ctx.ob('C14.encall', m, '`%s` (line %d) comes after the consistency check' % (norm(r.ast)[:40], r.ast.lineno), True, 'the return itself delegates', node=r.ast)
                    continue
                if known_at(cfg, r, "options.get('ifNotEmpty', False)", True):
                    continue
                n += 1
                ok = cfg.must_pass(cfg.entry, r, lambda z: z in checks)
                ctx.ob('C14.encall', m, '`%s` (line %d) comes after the consistency check' % (norm(r.ast)[:40], r.ast.lineno), ok,
                       'a path returns contents without `isInconsistent` having been asked: an emptied SET OF under SIZE (1..3) is written by this '
                       'codec while the others refuse it' if not ok else 'after _encodeComponents / isInconsistent', node=r.ast)
    if n < 2:
        raise AnalysisError('C14.encall: content encoders not found')


# ------------------------------------------------------------------- C16.dynorder

def rule_dynamic_order(ctx):
    """C16.dynorder: a record decoded without a schema names its members `field-0`, `field-1`, ... `field-10`; the encoders walk
    `values()`.  Members are visited in POSITION order: `values()` / `items()` of the record base loop over positions (or
    over the names as `DynamicNames.__iter__` hands them out), and `DynamicNames.__iter__` goes by index - never by sorting
    names (`field-10` sorts before `field-2`)."""
    def sources(fn):
        out = []
        for x in walk_own(fn.node):
            if isinstance(x, ast.For):
                out.append(x.iter)
            if isinstance(x, (ast.GeneratorExp, ast.ListComp)):
                out.append(x.generators[0].iter)
            if isinstance(x, ast.Return) and isinstance(x.value, ast.Call) and norm(x.value.func) == 'iter' and x.value.args:
                out.append(x.value.args[0])
        return out

    def by_index(e):
        return isinstance(e, ast.Call) and norm(e.func) == 'range'
    n = 0
    it = ctx.func('type.univ.SequenceAndSetBase.DynamicNames.__iter__')
    src = sources(it)
    n += 1
    ctx.ob('C16.dynorder', it, 'dynamic names are handed out by index', bool(src) and all(by_index(s_) for s_ in src),
           'iteration over `%s`: names sorted as text put `field-10` before `field-2`, so a schemaless record of more than ten members '
           're-encodes with its members permuted' % '; '.join(norm(s_)[:40] for s_ in src) if not (src and all(by_index(s_) for s_ in src)) else
           'range(...) over the index map', node=it.node)
    for nm in ('values', 'items'):
        g = ctx.func('type.univ.SequenceAndSetBase.%s' % nm)
        src = sources(g)
        ok = bool(src) and all(by_index(s_) or norm(s_) == 'self' for s_ in src)
        n += 1
        ctx.ob('C16.dynorder', g, '%s() visits the members in position order' % nm, ok,
               'iteration over `%s`' % '; '.join(norm(s_)[:40] for s_ in src) if not ok else 'positions (or the names in index order)', node=g.node)


# ===================================================================== rules after seeded round 7 (operators, properties,
# class constants, tables)

def rule_omit_empty_modes(ctx):
    """A1.omit: only the canonical codecs leave out an OPTIONAL component whose contents are empty; the BER record encoder
    writes what it is given (`omitEmptyOptionals` evaluates to False for BER, True for CER / DER), so that a present, empty
    OPTIONAL SEQUENCE OF survives a BER round trip."""
    want = {'codec.ber.encoder.SequenceEncoder': False, 'codec.cer.encoder.SequenceEncoder': True}
    for q, w in want.items():
        c = ctx.cls(q)
        _, v = ctx.ev.class_attr(c, 'omitEmptyOptionals')
        ctx.ob('A1.omit', q, 'omitEmptyOptionals is %r' % w, v is w,
               'evaluates to %r: %s' % (v, 'BER drops a present OPTIONAL component with empty contents (`30 05 02 01 05 30 00` re-encodes as '
                                        '`30 03 02 01 05`)' if w is False else 'the canonical codecs keep empty OPTIONAL components'),
               node=(c.module.relpath, c.node.lineno))


def rule_bitstring_equality(ctx):
    """W.biteq: two BIT STRINGs are equal when value AND length agree ('01'B is not '1'B; ''B is not '000'B).  The DEFAULT
    test of the record encoders is `component == default`: `__eq__` answers True only through the identity shortcut or
    through a conjunction that compares the two lengths; `__ne__` compares the lengths as well."""
    from sa.cfg import known_at
    c = ctx.cls('type.univ.BitString')
    for nm, lenop in (('__eq__', ast.Eq), ('__ne__', ast.NotEq)):
        f = c.method(nm)
        cfg = ctx.cfg(f)
        for r in cfg.stmt_nodes():
            if not (isinstance(r.ast, ast.Return) and r.ast.value is not None):
                continue
            v = r.ast.value
            lens = [x for x in ast.walk(v) if isinstance(x, ast.Compare) and len(x.ops) == 1 and isinstance(x.ops[0], lenop) and
                    isinstance(x.left, ast.Call) and norm(x.left.func) == 'len' and
                    isinstance(x.comparators[0], ast.Call) and norm(x.comparators[0].func) == 'len']
            ident = isinstance(v, ast.Constant) and v.value is (nm == '__eq__') and known_at(cfg, r, 'self is %s' % f.params()[1], True)
            ok = bool(lens) or ident
            ctx.ob('W.biteq', f, '`%s` compares the lengths' % norm(r.ast)[:60], ok,
                   'this answer does not depend on the two lengths: bit strings that differ only in leading zero bits compare equal, and a '
                   'DEFAULT BIT STRING component holding such a value is left out by DER' if not ok else 'len(..) %s len(..)' % ('==' if nm == '__eq__' else '!='),
                   node=r.ast)


def rule_effective_tag_recurses(ctx):
    """A10.efftag: the effective tag set of an untagged CHOICE is the EFFECTIVE tag set of the chosen alternative (which may
    itself be an untagged CHOICE), not its plain tag set."""
    f = ctx.func('type.univ.Choice.effectiveTagSet')
    rets = [r for r in walk_own(f.node) if isinstance(r, ast.Return) and r.value is not None]
    other = [r for r in rets if norm(r.value) != 'self.tagSet']
    if not other:
        raise AnalysisError('untagged arm of %s not found' % f.short)
    for r in other:
        ok = isinstance(r.value, ast.Attribute) and r.value.attr == 'effectiveTagSet'
        ctx.ob('A10.efftag', f, '`%s` follows nested untagged CHOICEs' % norm(r)[:50], ok,
               'the plain tag set of a nested untagged CHOICE is empty: the SET / OPTIONAL-run / CHOICE decoders cannot place the value '
               '("Type <TagSet object, untagged> not found")' if not ok else 'recursive', node=r)


def rule_reflected_add_prepends(ctx):
    """W.radd: `x + s` with a string object `s` on the right puts x FIRST.  The constructed-string decoders accumulate
    `octets += segmentObject` (a nested indefinite-length segment comes back as an object), which is `segmentObject.__radd__(octets)`:
    in every `__radd__` of the string-like types the receiver's own value is the RIGHT operand."""
    n = 0
    for q in ('type.univ.OctetString', 'type.univ.ObjectIdentifier', 'type.univ.RelativeOID', 'type.char.AbstractCharacterString'):
        try:
            c = ctx.cls(q)
        except Exception:
            continue
        d = c.own('__radd__') if hasattr(c, 'own') else None
        if d is None or d[0] != 'func':
            continue
        f = d[1]
        par = f.params()[1]
        for r in walk_own(f.node):
            if not (isinstance(r, ast.Return) and r.value is not None):
                continue
            n += 1
            adds = [x for x in ast.walk(r.value) if isinstance(x, ast.BinOp) and isinstance(x.op, ast.Add)]
            ok = bool(adds) and all(norm(x.right) == 'self._value' and par in names_of(x.left) for x in adds)
            ctx.ob('W.radd', f, '`%s` puts the left operand first' % norm(r)[:60], ok,
                   'the value of the receiver is not the right operand of the concatenation: `b"a" + OctetString("bc")` comes out reversed, and a '
                   'constructed string with a nested indefinite-length segment after another segment is reassembled in the wrong order' if not ok else
                   'value + self._value', node=r)
    if n < 2:
        raise AnalysisError('W.radd: reflected additions not found')


def rule_eos_by_position_only_inmemory(ctx):
    """A12.eospos: "the position is at the end" answers "has the stream ended?" only for an in-memory `io.BytesIO`.  The test
    that selects the seek-to-end branch of `isEndOfStream` is exactly that isinstance test: anything else that claims to be
    seekable (the caching wrapper, a growing file) can only say where ITS data ends so far."""
    f = ctx.func('codec.streaming.isEndOfStream')
    cfg = ctx.cfg(f)
    seeks = [n for n in cfg.stmt_nodes() if n.ast is not None and any(
        isinstance(c, ast.Call) and isinstance(c.func, ast.Attribute) and c.func.attr == 'seek' and len(c.args) == 2 and 'SEEK_END' in norm(c.args[1])
        for e in _exprs(n) for c in ast.walk(e))]
    if not seeks:
        ctx.ob('A12.eospos', f, 'no position-based answer', True, 'isEndOfStream does not seek to the end', note=True)
        return
    par = f.params()[0]
    from sa.cfg import _cuts, _literals
    for sk in seeks:
        ok = False
        why = 'the seek-to-end is not behind an isinstance(.., io.BytesIO) test'
        for t in cfg.nodes:
            if t.kind != 'test' or t.ast is None or not _cuts(cfg, t, 'true', sk):
                continue
            kind, lits = _literals(t.ast.test)
            texts = [tx for tx, pol, e in lits if pol]
            if kind in ('lit', 'and') and any(tx in ('isinstance(%s, io.BytesIO)' % par, 'isinstance(%s, BytesIO)' % par) for tx in texts):
                ok = True
            elif kind == 'or':
                why = 'the branch is also taken for `%s`' % ' / '.join(tx for tx in texts if 'BytesIO' not in tx)
        ctx.ob('A12.eospos', f, 'the seek-to-end answer is given for io.BytesIO only', ok,
               '%s: behind the caching wrapper the end of the CACHE is taken for the end of the stream, and the items after the first are '
               'never decoded' % why if not ok else 'isinstance(substrate, io.BytesIO)', node=sk.ast)


def _preorder(node):
    """Nodes of a statement in source order (ast.walk is breadth-first)."""
    yield node
    for ch in ast.iter_child_nodes(node):
        yield from _preorder(ch)


def rule_derived_tables_fresh_instances(ctx):
    """A1.shared: the CER / DER tables start as shallow copies of their parent's, so the codec INSTANCES in them are shared
    with BER.  Module-level code of a derived codec module stores attributes only on instances it has just made
    (`x = x.__class__()`; `X()`), never on one taken out of a table - otherwise using DER once changes what BER accepts."""
    n = 0
    for mq in ('codec.cer.decoder', 'codec.der.decoder', 'codec.cer.encoder', 'codec.der.encoder', 'codec.native.decoder', 'codec.native.encoder'):
        m = ctx.mod(mq)
        body = [s for s in m.tree.body if not isinstance(s, (ast.FunctionDef, ast.ClassDef, ast.Import, ast.ImportFrom))]
        for top in body:
            stores = [a for a in ast.walk(top) if isinstance(a, ast.Assign) and any(
                isinstance(t, ast.Attribute) and isinstance(t.value, ast.Name) for t in a.targets)]
            for a in stores:
                for t in a.targets:
                    if not (isinstance(t, ast.Attribute) and isinstance(t.value, ast.Name)):
                        continue
                    var = t.value.id
                    n += 1
                    # definitions of `var` in the same top-level statement that precede the store
                    # (textual order, not line numbers: an inlined helper's statements all carry the line of its call)
                    seq = [x for x in _preorder(top) if isinstance(x, ast.Assign)]
                    upto = next(i for i, x in enumerate(seq) if x is a)
                    defs = [x for x in seq[:upto] if any(isinstance(tt, ast.Name) and tt.id == var for tt in x.targets)]
                    fresh = bool(defs) and isinstance(defs[-1].value, ast.Call) and (
                        norm(defs[-1].value.func).endswith('.__class__') or (isinstance(defs[-1].value.func, (ast.Name, ast.Attribute)) and
                                                                           norm(defs[-1].value.func)[:1].isupper()))
                    ctx.ob('A1.shared', mq, '`%s` (line %d) is stored on a freshly made instance' % (norm(a)[:50], a.lineno), fresh,
                           '`%s` comes out of a table copied from the parent codec: the instance is shared, so this store changes the parent '
                           'codec too (after one DER decode, BER refuses constructed character strings)' % var if not fresh else
                           'instance made at line %d' % defs[-1].lineno, node=(m.relpath, a.lineno))
    if n < 1:
        raise AnalysisError('A1.shared: no attribute store in the derived codec modules (strict-string loop of the DER decoder vanished)')


def rule_set_constraint_operators(ctx):
    """C14.setops: `A - B` of two value-set constraints denotes the set difference (members of A not in B), `A + B` the
    union: the operator methods build the result from `difference` / `-` and `union` / `|` of the member sets."""
    c = ctx.cls('type.constraint.SingleValueConstraint')
    want = {'__sub__': (('difference',), (ast.Sub,)), '__add__': (('union',), (ast.BitOr,))}
    for nm, (meths, ops) in want.items():
        f = c.method(nm)
        if f is None:
            raise AnalysisError('SingleValueConstraint.%s does not resolve' % nm)
        rets = [r for r in walk_own(f.node) if isinstance(r, ast.Return) and r.value is not None]
        ok = bool(rets)
        for r in rets:
            calls = [x.func.attr for x in ast.walk(r.value) if isinstance(x, ast.Call) and isinstance(x.func, ast.Attribute) and
                     x.func.attr in ('difference', 'union', 'symmetric_difference', 'intersection')]
            bops = [type(x.op) for x in ast.walk(r.value) if isinstance(x, ast.BinOp) and isinstance(x.op, (ast.Sub, ast.BitOr, ast.BitXor, ast.BitAnd))]
            good = (calls and all(k in meths for k in calls) and not bops) or (bops and all(o in ops for o in bops) and not calls)
            ok = ok and bool(good)
        ctx.ob('C14.setops', f, '`%s` is the set %s' % (nm, 'difference' if nm == '__sub__' else 'union'), ok,
               'built with another set operation: `Alphabet("abcde") - Alphabet("defg")` admits "f" and "g"' if not ok else 'as named', node=f.node)


def rule_spec_is_callers(ctx):
    """A6.specparam: the scalar payload decoders hand `_createComponent` the guiding type they were GIVEN (or None): a local
    re-definition of `asn1Spec` from the prototype makes every schemaless result lose the tag set recovered from the wire."""
    from sa.cfg import reaching_defs
    n = 0
    for mq in ('codec.ber.decoder', 'codec.cer.decoder', 'codec.der.decoder'):
        m = ctx.mod(mq)
        for f in ctx.prog.all_functions():
            if f.module is not m or f.cls is None or f.name not in ('valueDecoder', 'indefLenValueDecoder'):
                continue
            calls = [c for c in walk_own(f.node) if isinstance(c, ast.Call) and norm(c.func) == 'self._createComponent' and c.args and
                     isinstance(c.args[0], ast.Name)]
            if not calls:
                continue
            cfg = ctx.cfg(f)
            rd = reaching_defs(cfg, f.params())
            for c in calls:
                node = [x for x in cfg.stmt_nodes() if any(c is y for e in _exprs(x) for y in ast.walk(e))]
                if not node:
                    continue
                var = c.args[0].id
                if var != f.params()[2 if f.params()[0] == 'self' else 1]:
                    continue        # only the guiding-type parameter itself (ANY builds a separate component spec on purpose)
                bad = [d for d in rd[node[0]].get(var, ()) if d.kind == 'stmt' and isinstance(d.ast, ast.Assign) and 'protoComponent' in norm(d.ast.value)]
                n += 1
                ctx.ob('A6.specparam', f, '`%s` gets the guiding type it was given' % norm(c)[:50], not bad,
                       '`%s` may be the prototype (line %d): `_createComponent` then clones it WITHOUT the tag set recovered from the wire - an '
                       'explicitly tagged BOOLEAN decoded without a schema re-encodes without its tag' % (var, bad[0].ast.lineno) if bad else 'parameter', node=c)
    if n < 8:
        raise AnalysisError('A6.specparam: found only %d _createComponent calls' % n)


def rule_native_of_decoders(ctx):
    """A1.nativeof: in the native decoder, SET OF and SEQUENCE OF resolve (by type id, else by base tag - the run-time order) to
    the list decoder, SET and SEQUENCE to the record decoder: the two pairs share their tags, so only the by-type table
    can tell them apart."""
    from sa.rules.tables import dec_chain
    d = dec_chain(ctx, 'native')
    for cname, want_of in (('type.univ.SequenceOf', True), ('type.univ.SetOf', True), ('type.univ.Sequence', False), ('type.univ.Set', False)):
        tc = ctx.cls(cname)
        _, tid = ctx.ev.class_attr(tc, 'typeId')
        _, ts = ctx.ev.class_attr(tc, 'tagSet')
        inst = d['TYPE_MAP'].d.get(tid)
        how = 'TYPE_MAP'
        if inst is None:
            inst = d['TAG_MAP'].d.get(ts)
            how = 'TAG_MAP (no entry by type id)'
        name = inst.ci.name if isinstance(inst, VInstance) else repr(inst)
        ok = isinstance(inst, VInstance) and (('OfOr' in name or name.endswith('OfPayloadDecoder') and 'Of' in name.replace('PayloadDecoder', '')[-2:] or 'SequenceOf' in name or 'SetOf' in name) == want_of)
        ctx.ob('A1.nativeof', 'codec.native.decoder', '%s is decoded by the %s decoder' % (cname.split('.')[-1], 'list' if want_of else 'record'), ok,
               'resolves through %s to %s: `decode([3, 1, 2], asn1Spec=SetOf(Integer()))` silently returns a schema object' % (how, name) if not ok else
               '%s via %s' % (name, how), node=(ctx.mod('codec.native.decoder').relpath, 1))


def rule_schema_plugs(ctx):
    """A10.plug: operations on a valueless (schema) scalar raise the library's error because `NoValue` installs a raising plug
    for every special method EXCEPT the ones listed in `NoValue.skipMethods`.  That list holds only attribute access, object
    life-cycle and representation hooks - not comparison, hashing, arithmetic, conversion, length or container methods."""
    c = ctx.cls('type.base.NoValue')
    d = c.own('skipMethods')
    if d is None or d[0] != 'value' or not isinstance(d[1], (ast.Set, ast.Tuple, ast.List)):
        raise AnalysisError('NoValue.skipMethods is not a literal collection')
    names = [e.value for e in d[1].elts if isinstance(e, ast.Constant)]
    allowed = {'__slots__', '__getattribute__', '__getattr__', '__setattr__', '__delattr__', '__class__', '__init__', '__del__', '__new__',
               '__repr__', '__qualname__', '__objclass__', 'im_class', '__sizeof__', '__getstate__', '__setstate__', '__doc__', '__dict__',
               '__weakref__', '__module__', '__subclasshook__', '__init_subclass__', '__reduce__', '__reduce_ex__', '__dir__', '__format__',
               '__getinitargs__', '__getnewargs__', '__getnewargs_ex__'}
    extra = sorted(n_ for n_ in names if n_ not in allowed)
    ctx.ob('A10.plug', 'type.base.NoValue', 'skipMethods lists no value-level operation', not extra,
           '%s exempted from the raising plug: that operation on a schema object returns data instead of failing (hash(Integer()) is a '
           'number, `x in {..}` works)' % ', '.join(extra) if extra else '%d life-cycle / attribute hooks' % len(names),
           node=(c.module.relpath, c.node.lineno))


def rule_strict_boolean_results(ctx):
    """A1.strictres: the CER / DER BOOLEAN decoder hands out a result only after the contents octet has been tested: every
    result it yields is built by `_createComponent(...)` from the value chosen by that test - no other expression of the
    wire octet is yielded (a `native` fast path in front of the test would accept 01 .. FE)."""
    f = ctx.func('codec.cer.decoder.BooleanPayloadDecoder.valueDecoder')
    loops = [lp for lp in walk_own(f.node) if isinstance(lp, ast.For)]
    loop_vars = set(lp.target.id for lp in loops if isinstance(lp.target, ast.Name))
    n = 0
    for y in walk_own(f.node):
        if not isinstance(y, ast.Yield) or y.value is None:
            continue
        if isinstance(y.value, ast.Name) and y.value.id in loop_vars:
            continue            # an underrun object handed on
        n += 1
        ok = isinstance(y.value, ast.Call) and norm(y.value.func) == 'self._createComponent'
        ctx.ob('A1.strictres', f, '`yield %s` is a component built after the 00 / FF test' % norm(y.value)[:40], ok,
               'a result is yielded without going through `_createComponent` (and the test in front of it): non-canonical BOOLEAN octets '
               'are accepted on this path' if not ok else '_createComponent', node=y)
    if n < 1:
        raise AnalysisError('A1.strictres: result yield not found in %s' % f.short)


def rule_set_members_keep_spec(ctx):
    """C13.setspec: when the CER / DER SET encoder is guided by a schema, every member is paired with the SCHEMA's component
    type (`asn1Spec[idx]`) before sorting and encoding - also a member that happens to be a value object: it is the
    schema's tags that go on the wire, as in the BER encoder."""
    from sa.cfg import known_at
    f = ctx.func('codec.cer.encoder.SetEncoder.encodeValue')
    cfg = ctx.cfg(f)
    n = 0
    for nd in cfg.stmt_nodes():
        for e in _exprs(nd):
            for c in ast.walk(e):
                if isinstance(c, ast.Call) and isinstance(c.func, ast.Attribute) and c.func.attr == 'append' and len(c.args) == 1 and \
                        isinstance(c.args[0], ast.Tuple) and len(c.args[0].elts) == 2:
                    if not known_at(cfg, nd, 'asn1Spec is None', False):
                        continue
                    n += 1
                    spec = c.args[0].elts[1]
                    ok = isinstance(spec, ast.Subscript) and norm(spec.value) == 'asn1Spec'
                    ctx.ob('C13.setspec', f, '`%s` pairs the member with the schema component' % norm(c)[:60], ok,
                           'under a schema the member is paired with `%s`: a value object given for a re-tagged component is written with its '
                           'own tags and the type rejects the encoding' % norm(spec) if not ok else 'asn1Spec[idx]', node=c)
    if n < 1:
        raise AnalysisError('C13.setspec: schema arm of %s not found' % f.short)


def rule_any_catch_all(ctx):
    """A6.anymap: the tag map of an ANY - tagged or not - has the ANY itself as its default type: whatever comes next on the
    wire belongs to it.  The canonical SET encoders write the elements of a SET OF / SEQUENCE OF of tagged ANY without the
    ANY's own tag and rely on this when the value is read back."""
    f = ctx.func('type.univ.Any.tagMap')
    calls = [c for c in walk_own(f.node) if isinstance(c, ast.Call) and norm(c.func).endswith('TagMap')]
    if not calls:
        raise AnalysisError('TagMap construction not found in %s' % f.short)
    for c in calls:
        default = c.args[2] if len(c.args) > 2 else next((k.value for k in c.keywords if k.arg == 'defaultType'), None)
        ok = default is not None and norm(default) == 'self'
        ctx.ob('A6.anymap', f, '`%s` has the ANY as its default type' % norm(c)[:50], ok,
               'no default type: a tagged ANY accepts only its own tag, and the untagged elements that CER / DER write for a SET OF of '
               'tagged ANY inside a SET are refused' if not ok else 'defaultType = self', node=c)


def rule_oid_text_arcs(ctx):
    """W.oidtext: the dotted text of an OBJECT IDENTIFIER is cut at the dots and every non-empty piece is converted with
    `int()` as it stands: the pieces are not trimmed or rewritten first (an arc written `0` must stay an arc)."""
    n = 0
    for q in ('type.univ.ObjectIdentifier.prettyIn', 'type.univ.RelativeOID.prettyIn'):
        try:
            f = ctx.func(q)
        except Exception:
            continue
        par = f.params()[1]
        for comp in walk_own(f.node):
            if not isinstance(comp, (ast.ListComp, ast.GeneratorExp)):
                continue
            ints = [c for c in ast.walk(comp.elt) if isinstance(c, ast.Call) and norm(c.func) == 'int']
            if not ints:
                continue
            it = comp.generators[0].iter
            tgt = comp.generators[0].target
            textual = 'split(' in norm(it) or (isinstance(it, ast.Name) and any(
                isinstance(a_, ast.Assign) and norm(a_.targets[0]) == it.id and 'split(' in norm(a_.value) for a_ in walk_own(f.node)))
            if not textual:
                continue
            n += 1
            direct = isinstance(it, ast.Call) and isinstance(it.func, ast.Attribute) and it.func.attr == 'split' and norm(it.func.value) == par
            plain = all(len(c.args) == 1 and isinstance(c.args[0], ast.Name) and isinstance(tgt, ast.Name) and c.args[0].id == tgt.id for c in ints)
            ok = direct and plain
            ctx.ob('W.oidtext', f, 'arcs of the dotted text go to int() as written', ok,
                   'the pieces are `%s` / converted as `%s`: an arc that is rewritten before the conversion can vanish (`2.0.1` read as 2.1)' % (
                       norm(it)[:40], norm(ints[0])[:30]) if not ok else '%s.split(\'.\')' % par, node=comp)
    if n < 1:
        raise AnalysisError('W.oidtext: text arm not found')
