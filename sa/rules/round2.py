"""Rules added after the second round of seeded changes (DESIGN.md, section 11.1)."""
import ast

from sa.model import AnalysisError, ClassInfo, FuncInfo, norm, walk_own, ancestors
from sa.cfg import reaching_defs, node_exprs, names_used, feasible_reach
from sa.util import call_name, const_int, if_chain, stmts_of, raises_in
from sa import intexpr
from sa.rules import genproto as G


def _conjuncts(test):
    if isinstance(test, ast.BoolOp) and isinstance(test.op, ast.And):
        out = []
        for v in test.values:
            out.extend(_conjuncts(v))
        return out
    return [test]


# ------------------------------------------------------------------- W.realbase

def rule_real_base(ctx):
    """W.realbase: converting a base-2 REAL to base 8 / 16 keeps the value: the power of two moved into the mantissa and
    the exponent kept for the new base come from the same division (m * 2**e == m' * B**e' for every e)."""
    f = ctx.func('codec.ber.encoder.RealEncoder._dropFloatingPoint')
    params = f.params()
    evar = params[-1]
    bvar = params[-2]
    # the exponent-sign helper: some local is -1 exactly for negative exponents and 1 otherwise
    signs = {}
    for n in walk_own(f.node):
        if isinstance(n, ast.If) and len(n.body) == 1 and isinstance(n.body[0], ast.Assign) and not n.orelse:
            try:
                neg = intexpr.accept_set(n.test, evar, range(-6, 7))
            except intexpr.NotPure:
                continue
            if neg == set(range(-6, 0)) and const_int(n.body[0].value) == -1:
                signs[norm(n.body[0].targets[0])] = n
    arms = [n for n in walk_own(f.node) if isinstance(n, ast.If) and isinstance(n.test, ast.Compare) and norm(n.test.left) == bvar]
    seen = {}
    for top in arms:
        chain, orelse = if_chain(top)
        for test, body in chain:
            if not (isinstance(test, ast.Compare) and norm(test.left) == bvar and isinstance(test.ops[0], ast.Eq)):
                continue
            base = const_int(test.comparators[0])
            if base in (8, 16) and base not in seen:
                seen[base] = body
    if sorted(seen) != [8, 16]:
        raise AnalysisError('base 8 / base 16 arms not found in %s' % f.short)
    for base, body in sorted(seen.items()):
        bits = {8: 3, 16: 4}[base]
        scale = [s for s in body if isinstance(s, ast.AugAssign) and isinstance(s.op, ast.Mult) and isinstance(s.value, ast.BinOp)
                 and isinstance(s.value.op, ast.Pow) and const_int(s.value.left) == 2]
        newe = [s for s in body if isinstance(s, ast.Assign) and norm(s.targets[0]) == evar]
        if len(scale) != 1 or len(newe) != 1:
            raise AnalysisError('base %d arm of %s: mantissa scaling / exponent assignment not recognised' % (base, f.short))
        if body.index(scale[0]) > body.index(newe[0]):
            raise AnalysisError('base %d arm of %s: exponent rewritten before the mantissa is scaled' % (base, f.short))
        bad = None
        try:
            for e0 in range(-ctx.scale(50, 5000), ctx.scale(50, 5000) + 1):
                env = {evar: e0}
                for s in signs:
                    env[s] = -1 if e0 < 0 else 1
                x = intexpr.ev(scale[0].value.right, env)
                y = intexpr.ev(newe[0].value, env)
                if x + bits * y != e0:
                    bad = (e0, x, base, y)
                    break
        except intexpr.NotPure as x:
            raise AnalysisError('base %d arm of %s is not a pure integer computation: %s' % (base, f.short, x))
        ctx.ob('W.realbase', f, 'base %d: 2**e == 2**shift * %d**e\' for every exponent' % (base, base), bad is None,
               'for e = %d the mantissa is multiplied by 2**%d and the exponent becomes %d**%d: the encoded value is off by a '
               'factor of 2**%d' % (bad[0], bad[1], bad[2], bad[3], bad[0] - bad[1] - bits * bad[3]) if bad else
               'checked for e in -%d..%d' % (ctx.scale(50, 5000), ctx.scale(50, 5000)), node=scale[0])


# ------------------------------------------------------------------- W.realexp

def rule_real_exponent(ctx):
    """W.realexp: the exponent octets of a binary REAL are the two's complement of the exponent: after the octets are
    peeled off, a positive exponent whose top bit is set gets a 00 octet and a negative one whose top bit is clear gets ff."""
    f = ctx.func('codec.ber.encoder.RealEncoder.encodeValue')
    loops = [n for n in walk_own(f.node) if isinstance(n, ast.While) and isinstance(n.test, ast.Compare) and
             isinstance(n.test.ops[0], ast.NotIn) and sorted(const_int(x) for x in getattr(n.test.comparators[0], 'elts', [])) == [-1, 0]]
    if len(loops) != 1:
        raise AnalysisError('exponent octet loop not found in %s' % f.short)
    lp = loops[0]
    evar = norm(lp.test.left)
    sibs = None
    for a in ancestors(lp):
        for fld in ('body', 'orelse'):
            lst = getattr(a, fld, None)
            if isinstance(lst, list) and lp in lst:
                sibs = lst[lst.index(lp) + 1:]
        if sibs is not None:
            break
    fix = {}
    for s in sibs or []:
        if not isinstance(s, ast.If):
            continue
        cj = [norm(c) for c in _conjuncts(s.test)]
        pre = [c for b in s.body for c in ast.walk(b) if isinstance(c, ast.Call) and call_name(c) == 'int2oct']
        if not pre:
            continue
        val = const_int(pre[0].args[0])
        top = [c for c in cj if '& 128' in c or '& 0x80' in c]
        if '%s == 0' % evar in cj and top and not top[0].startswith('not '):
            fix['pos'] = (val, s)
        if '%s == -1' % evar in cj and top and top[0].startswith('not '):
            fix['neg'] = (val, s)
    ctx.ob('W.realexp', f, 'positive exponent with the top bit set is extended with 00', 'pos' in fix and fix['pos'][0] == 0,
           'no `e == 0 and <top bit set>: prepend 00` step after the octet loop: exponents 128..255, 32768.. read back negative'
           if 'pos' not in fix else 'prepends %r' % fix['pos'][0], node=lp)
    ctx.ob('W.realexp', f, 'negative exponent with the top bit clear is extended with ff', 'neg' in fix and fix['neg'][0] == 0xff,
           'no `e == -1 and not <top bit set>: prepend ff` step after the octet loop: exponents -129..-256, -32769.. lose their '
           'sign and read back positive' if 'neg' not in fix else 'prepends %r' % fix['neg'][0], node=lp)
    # each round of the loop takes the low octet and shifts by 8
    low = [s for s in lp.body if isinstance(s, ast.Assign) and '& 255' in norm(s.value).replace('0xff', '255')]
    sh = [s for s in lp.body if isinstance(s, ast.AugAssign) and isinstance(s.op, ast.RShift) and const_int(s.value) == 8 and norm(s.target) == evar]
    ctx.ob('W.realexp', f, 'loop peels the low octet and shifts the exponent by 8', len(low) == 1 and len(sh) == 1, '', node=lp)


# ------------------------------------------------------------------- A10.order

ORDER_EXPOSING = ('__iter__', 'components', 'index', 'sort', 'reverse', '__getitem__')
_ORDER_FREE = ('sorted', 'len', 'max', 'min', 'set', 'frozenset', 'sum', 'all', 'any')


def rule_position_order(ctx):
    """A10.order: SEQUENCE OF / SET OF keep their members in a dict keyed by position; the readers that expose an order
    (iteration, `components` and with it comparison/repr, index(), sort(), reverse()) walk it in key order, never in
    insertion order."""
    c = ctx.cls('type.univ.SequenceOfAndSetOfBase')
    n = 0
    for name in ORDER_EXPOSING:
        m = c.method(name)
        if m is None or m.cls is not c:
            continue
        for x in walk_own(m.node):
            src = None
            if isinstance(x, ast.Call) and isinstance(x.func, ast.Attribute) and x.func.attr in ('values', 'items', 'keys') and \
                    norm(x.func.value) == 'self._componentValues':
                src = x
            elif isinstance(x, (ast.For, ast.comprehension)) and norm(x.iter) == 'self._componentValues':
                src = x.iter
            elif isinstance(x, ast.Call) and isinstance(x.func, ast.Name) and x.func.id in ('list', 'tuple', 'iter', 'enumerate', 'zip', 'sorted', 'reversed') \
                    and any(norm(a) == 'self._componentValues' for a in x.args):
                src = x
            if src is None:
                continue
            n += 1
            ordered = isinstance(src, ast.Call) and isinstance(src.func, ast.Name) and src.func.id == 'sorted' and \
                not any(k.arg == 'key' for k in src.keywords)
            for a in ancestors(src):
                if a is m.node:
                    break
                if isinstance(a, ast.Call) and isinstance(a.func, ast.Name) and a.func.id in _ORDER_FREE:
                    # sorted(..., key=k) is stable: ties keep the order of its input
                    if a.func.id == 'sorted' and any(k.arg == 'key' for k in a.keywords):
                        continue
                    ordered = True
                    break
                if isinstance(a, ast.Call) and isinstance(a.func, ast.Name) and a.func.id == 'dict' and a.args and a.args[0] is src \
                        and isinstance(src, ast.Call) and src.func.attr == 'items':
                    ordered = True      # a plain copy
                    break
            ctx.ob('A10.order', m, 'walks the position-keyed store in key order: `%s`' % norm(src)[:50], ordered,
                   '`%s` is taken in insertion order: after positions are assigned out of order (s[2]=c; s[1]=b; s[0]=a) this '
                   'reader disagrees with indexing and with the encoders' % norm(src) if not ordered else 'under sorted()/order-free consumer',
                   node=src)
        # readers that go through positions are fine by construction
        if not any(True for _ in walk_own(m.node)):
            continue
    it = c.method('__iter__')
    uses_pos = any(isinstance(x, ast.Call) and call_name(x) in ('getComponentByPosition', 'range', 'sorted') for x in walk_own(it.node))
    ctx.ob('A10.order', it, 'iteration goes by position', uses_pos,
           'no range()/getComponentByPosition()/sorted() in __iter__: members are not produced in position order' if not uses_pos else 'by position')


# ------------------------------------------------------------------- A6.defsib

def rule_default_siblings(ctx):
    """A6.defsib: the four record loops (BER value / python arm, CER SET value / python arm) decide "this DEFAULT component
    is left out" by the same test; an extra condition in one of them makes equal values encode differently."""
    from sa.rules.guards import _record_loops
    sites = []
    for f, lp, arm in _record_loops(ctx):
        for n in ast.walk(lp):
            if isinstance(n, ast.If) and 'isDefaulted' in norm(n.test) and any(isinstance(s, ast.Continue) for b in n.body for s in ast.walk(b)):
                sites.append((f, arm, n, frozenset(norm(c) for c in _conjuncts(n.test))))
    if len(sites) < 4:
        raise AnalysisError('expected four DEFAULT-omission tests, found %d' % len(sites))
    counts = {}
    for s in sites:
        counts[s[3]] = counts.get(s[3], 0) + 1
    best = max(counts.values())
    major = [k for k, v in counts.items() if v == best]
    for f, arm, n, cj in sites:
        ok = len(major) == 1 and cj == major[0]
        ctx.ob('A6.defsib', f, '%s arm: DEFAULT omitted under the same test as in the sibling loops' % arm, ok,
               'this loop tests `%s`, the siblings `%s`: a value equal to the default is left out by one loop and written by '
               'another' % (' and '.join(sorted(cj)), ' and '.join(sorted(major[0]))) if not ok else ' and '.join(sorted(cj)), node=n)


# ------------------------------------------------------------------- A1.cerreal

def rule_cer_real_base(ctx):
    """A1.cerreal: the CER/DER REAL encoder always takes base 2 (X.690 11.3.1); the per-value / per-encoder base hint
    of the BER encoder is not consulted."""
    from sa.rules.tables import enc_chain, by_type
    from sa.consteval import VInstance
    c = ctx.cls('type.univ.Real')
    _, tid = ctx.ev.class_attr(c, 'typeId')
    _, ts = ctx.ev.class_attr(c, 'tagSet')
    for codec in ('cer', 'der'):
        inst, how = by_type(enc_chain(ctx, codec), tid, ts)
        if not isinstance(inst, VInstance):
            raise AnalysisError('no REAL encoder in %s' % codec)
        m = inst.ci.method('_chooseEncBase')
        if m is None:
            raise AnalysisError('%s has no _chooseEncBase' % inst.ci.short)
        hints = [x for x in walk_own(m.node) if isinstance(x, ast.Attribute) and x.attr == 'binEncBase']
        ctx.ob('A1.cerreal', m, '%s REAL encoder ignores the binEncBase hint' % codec.upper(), not hints,
               'the %s codec resolves _chooseEncBase to %s, which reads `%s`: a value (or subclass) carrying a base-8/16 hint '
               'gets a different %s encoding than an equal value without it' % (codec.upper(), m.short, norm(hints[0]), codec.upper())
               if hints else 'resolved to %s' % m.short, node=m.node)


# ------------------------------------------------------------------- A3.mask

def _handler_masks(ctx, h, mod):
    """True if the handler type is a (strict or not) superclass of EndOfStreamError other than itself-or-subclass."""
    if h.type is None:
        return 'bare except'
    eos = ctx.cls('error.EndOfStreamError')
    sup = set(x.qualname for x in eos.mro[1:] if isinstance(x, ClassInfo))
    types = h.type.elts if isinstance(h.type, ast.Tuple) else [h.type]
    for t in types:
        r = ctx.prog.resolve_expr(mod, t)
        if isinstance(r, ClassInfo) and r.qualname in sup and r.qualname != ctx.cls('error.SubstrateUnderrunError').qualname:
            return r.short
        if isinstance(t, ast.Name) and t.id in ('Exception', 'BaseException'):
            return t.id
    return None


def _mask_sites(ctx, fam_members, f):
    out = []
    for t in walk_own(f.node):
        if not isinstance(t, ast.Try):
            continue
        calls = [c for s in t.body for c in ast.walk(s) if isinstance(c, ast.Call)]
        fam = [c for c in calls if any(x in fam_members for x in G.callee_set(ctx, f, c))]
        if not fam:
            continue
        for h in t.handlers:
            what = _handler_masks(ctx, h, f.module)
            if not what:
                continue
            reraises = any(isinstance(s, ast.Raise) and s.exc is None for s in h.body)
            out.append((t, h, what, reraises, fam[0]))
    return out


def rule_handler_mask(ctx):
    """A3.mask: no handler around a call into the decoding generators catches a superclass of EndOfStreamError and
    replaces the exception: "the input ended" would be reported as a malformed encoding."""
    fam = G.family(ctx, 'off')
    n = 0
    for f in sorted(fam.members, key=lambda f: f.qualname):
        for t, h, what, reraises, call in _mask_sites(ctx, fam.members, f):
            n += 1
            ctx.ob('A3.mask', f, 'handler `except %s` around `%s` re-raises unchanged' % (what, norm(call.func)), reraises,
                   '`except %s` around `%s(...)` also catches EndOfStreamError / SubstrateUnderrunError (subclasses of %s) and '
                   'raises something else: a truncated input is reported as malformed' % (what, norm(call.func), what), node=h)
    ctx.ob('A3.mask', ctx.func('codec.ber.decoder.SingleItemDecoder.__call__'),
           'census: handlers of EndOfStreamError superclasses around generator calls', True,
           '%d such handler(s) in %d generator functions' % (n, len(fam.members)), nontrivial=False)


# ------------------------------------------------------------------- A2.probe

def R_node(n):
    return n.ast


def rule_probe_order(ctx):
    """A2.probe: after a short read the end-of-stream probe reads the octet that FOLLOWS the received ones: no seek
    between the short read and the probe (a probe after seeking back re-reads received data and never sees the end)."""
    f = ctx.func('codec.streaming.readFromStream')
    cfg = ctx.cfg(f)
    sub = f.params()[0]

    def is_call(n, attr, pred=None):
        if n.kind not in ('stmt', 'test') or n.ast is None:
            return False
        for e in node_exprs(n):
            for c in ast.walk(e):
                if isinstance(c, ast.Call) and isinstance(c.func, ast.Attribute) and c.func.attr == attr and norm(c.func.value) == sub:
                    if pred is None or pred(c):
                        return True
        return False
    reads = [n for n in cfg.nodes if is_call(n, 'read', lambda c: c.args and norm(c.args[0]) == f.params()[1])]
    probes = [n for n in cfg.nodes if is_call(n, 'read', lambda c: c.args and const_int(c.args[0]) == 1)]
    seeks = [n for n in cfg.nodes if is_call(n, 'seek')]
    if len(reads) == 1 and not probes:
        ctx.ob('A2.probe', f, 'a short read is followed by an end-of-stream probe', False,
               'no one-octet probe read in %s: after a short read nothing tells a stream that has ended from one that is merely '
               'out of data, so a stream cut inside a value is reported as an underrun for ever' % f.short, node=R_node(reads[0]))
        return
    if len(reads) != 1 or len(probes) != 1:
        raise AnalysisError('size read / one-octet probe not found in %s' % f.short)
    R, P = reads[0], probes[0]
    bad = [s for s in seeks if s in cfg.reachable(R, avoid=(P,)) and P in cfg.reachable(s, avoid=(R,))]
    ctx.ob('A2.probe', f, 'end-of-stream probe reads right behind the received octets', not bad,
           '`%s` moves the position between the short read and the probe `%s`: the probe reads an octet that was already '
           'received, so an ended stream is taken for one that is merely out of data, forever' % (bad[0].text(), P.text()) if bad else
           'no seek between `%s` and `%s`' % (R.text()[:40], P.text()[:40]), node=P.ast)


# ------------------------------------------------------------------- A6.omit

_OMIT_OK = (
    ('value', ('isOptional', 'not component.isValue')),
    ('value', ('isDefaulted', '== namedType.asn1Object')),
    ('python', ('isOptional', 'not in value')),
    ('python', ('isDefaulted', '== namedType.asn1Object')),
)


def rule_omissions(ctx):
    """A6.omit: a record component is left out of the encoding only because it is absent (value object: no value; Python
    mapping: key missing) and OPTIONAL, or equal to its DEFAULT.  In particular a Python `None` is the NULL value, not
    "absent"."""
    from sa.rules.guards import _record_loops
    from sa.util import is_log_test
    for f, lp, arm in _record_loops(ctx):
        n = 0
        for c in ast.walk(lp):
            if not isinstance(c, ast.Continue):
                continue
            tests = []
            for a in ancestors(c):
                if a is lp:
                    break
                if isinstance(a, ast.If):
                    tests.append(a)
            tests = [t for t in tests if not is_log_test(t.test)]
            if not tests:
                raise AnalysisError('unconditional continue in the %s arm of %s' % (arm, f.short))
            t = tests[0]
            inner = [a for a in ancestors(c) if isinstance(a, (ast.For, ast.While))]
            if inner and inner[0] is not lp:
                continue
            cj = [norm(x) for x in _conjuncts(t.test)]
            n += 1
            ok = False
            for karm, pats in _OMIT_OK:
                if karm == arm and len(cj) == len(pats) and all(any(p in x for x in cj) for p in pats):
                    ok = True
            if arm == 'value' and cj == ['namedTypes'] or (arm == 'value' and 'namedTypes' in cj and len(cj) == 3 and
                                                           all(any(p in x for x in cj) for p in ('isOptional', 'not component.isValue'))):
                ok = True
            ctx.ob('A6.omit', f, '%s arm: component left out under `%s`' % (arm, ' and '.join(cj)[:70]), ok,
                   'this test leaves a component out for a reason other than "absent and OPTIONAL" / "equal to DEFAULT": e.g. a '
                   'Python None is the value of a NULL component, not an absent one' if not ok else 'absence / default test', node=t)
        if n < 2:
            raise AnalysisError('expected the OPTIONAL and DEFAULT omissions in the %s arm of %s' % (arm, f.short))


# ------------------------------------------------------------------- W.binstr

def rule_as_binary(ctx):
    """W.binstr: the text form of a BIT STRING (used by str() and the native codec) has exactly len(value) digits, for
    every length L and every value 0 <= v < 2**L (truth table over L = 0..7 of the padding count and the digit count,
    both taken from the source as pure integer expressions of L and bit_length(v))."""
    from sa.rules.wire import _subst
    f = ctx.func('type.univ.BitString.asBinary')
    allrets = [r for r in walk_own(f.node) if isinstance(r, ast.Return)]
    rets = [r for r in allrets if not (isinstance(r.value, ast.Constant) and r.value.value == '')]
    empties = [r for r in allrets if r not in rets]
    skip_empty = False
    for r in empties:
        ts = [t for t in ancestors(r) if isinstance(t, ast.If)]
        if ts and norm(ts[0].test) in ('not len(self._value)', 'len(self._value) == 0', 'not self._value.bitLength'):
            skip_empty = True
        else:
            raise AnalysisError('early `return \'\'` of BitString.asBinary under an unrecognised condition')
    defs = dict((norm(a.targets[0]), a.value) for a in walk_own(f.node) if isinstance(a, ast.Assign) and len(a.targets) == 1)
    if len(rets) == 1 and isinstance(rets[0].value, ast.Call) and isinstance(rets[0].value.func, ast.Attribute) and \
            rets[0].value.func.attr in ('zfill', 'rjust') and rets[0].value.args:
        # `<digits>.zfill(<width>)`: the text has max(len(digits), width) characters
        call = rets[0].value
        if call.func.attr == 'rjust' and not (len(call.args) == 2 and isinstance(call.args[1], ast.Constant) and call.args[1].value == '0'):
            raise AnalysisError('fill character of BitString.asBinary not recognised')
        dsrc = defs.get(norm(call.func.value), call.func.value)
        dtxt = norm(dsrc)
        if dtxt == 'bin(self._value)[2:]':
            ndig = lambda bl: max(1, bl)
        elif dtxt == "bin(self._value)[2:].lstrip('0')":
            ndig = lambda bl: bl
        else:
            raise AnalysisError('digits `%s` of BitString.asBinary not recognised' % dtxt)
        width = _subst(call.args[0], {'len(self._value)': '__L'})
        bad = None
        try:
            for L in range(0, ctx.scale(8, 13)):
                if L == 0 and skip_empty:
                    continue
                for v in range(0, 2 ** L):
                    bl = v.bit_length()
                    total = max(ndig(bl), intexpr.ev(width, {'__L': L, '__B': bl}))
                    if total != L:
                        bad = (L, v, total)
                        break
                if bad:
                    break
        except intexpr.NotPure as x:
            raise AnalysisError('width `%s` of BitString.asBinary is not a pure integer expression of the length: %s' % (norm(call.args[0]), x))
        ctx.ob('W.binstr', f, 'padding + digits == bit length for every value', bad is None,
               'a %d-bit string with value %d is written with %d character(s) (`%s`): its text form, and with it the native form, '
               'reads back as a string of another length' % (bad + (norm(call)[:60],)) if bad else
               'checked for lengths 0..%d (`%s`)' % (ctx.scale(8, 13) - 1, norm(call)[:60]), node=rets[0])
        ctx.ob('W.binstr', f, 'text form is zeros followed by the digits of the value', True, norm(call), nontrivial=False)
        return
    if len(rets) != 1 or not isinstance(rets[0].value, ast.BinOp) or not isinstance(rets[0].value.op, ast.Add):
        raise AnalysisError('text form of BitString.asBinary not recognised: %s' % [norm(r.value) for r in rets])
    pad, digits = rets[0].value.left, rets[0].value.right
    dsrc = defs.get(norm(digits), digits)
    dtxt = norm(dsrc)
    if dtxt == 'bin(self._value)[2:]':
        ndigits = lambda bl: max(1, bl)
    elif dtxt == "bin(self._value)[2:].lstrip('0')":
        ndigits = lambda bl: bl
    else:
        raise AnalysisError('digits `%s` of BitString.asBinary not recognised' % dtxt)
    if not (isinstance(pad, ast.BinOp) and isinstance(pad.op, ast.Mult) and isinstance(pad.left, ast.Constant) and pad.left.value == '0'):
        raise AnalysisError('padding `%s` of BitString.asBinary not recognised' % norm(pad))
    cnt = pad.right
    table = {'len(self._value)': '__L', 'len(%s)' % norm(digits): '__D'}
    if 'leadingZeroBits' in norm(cnt):
        g = ctx.func('type.univ.SizedInteger.setBitLength')
        lz = [a.value for a in walk_own(g.node) if isinstance(a, ast.Assign) and norm(a.targets[0]) == 'self.leadingZeroBits']
        if len(lz) != 1:
            raise AnalysisError('definition of leadingZeroBits not found')
        lzx = _subst(lz[0], {g.params()[1]: '__L', 'integer.bitLength(self)': '__B'})
        cnt = _subst(cnt, {'self._value.leadingZeroBits': '(%s)' % norm(lzx)})
    cnt = _subst(cnt, table)
    bad = None
    try:
        for L in range(0, ctx.scale(8, 13)):
            if L == 0 and skip_empty:
                continue
            for v in range(0, 2 ** L):
                bl = v.bit_length()
                D = ndigits(bl)
                p = intexpr.ev(cnt, {'__L': L, '__D': D, '__B': bl})
                total = max(p, 0) + D
                if total != L:
                    bad = (L, v, max(p, 0), D)
                    break
            if bad:
                break
    except intexpr.NotPure as x:
        raise AnalysisError('padding count `%s` of BitString.asBinary is not a pure integer expression of the length and the '
                            'digit count: %s' % (norm(pad.right), x))
    ctx.ob('W.binstr', f, 'padding + digits == bit length for every value', bad is None,
           'a %d-bit string with value %d is written with %d padding zero(s) + %d digit(s) (digits: `%s`): its text form, and '
           'with it the native form, reads back as a string of another length' % (bad + (dtxt,)) if bad else
           'checked for lengths 0..%d (digits: `%s`, padding: `%s`)' % (ctx.scale(8, 13) - 1, dtxt, norm(pad.right)), node=rets[0])
    ctx.ob('W.binstr', f, 'text form is zeros followed by the digits of the value', True, norm(rets[0].value), nontrivial=False)


# ------------------------------------------------------------------- A6.mapref

def rule_opentype_map_ref(ctx):
    """A6.mapref: OpenType keeps the caller's map object itself whenever one is given (the documented way to register
    types after the schema is built): only `None` is replaced by a fresh dict."""
    f = ctx.func('type.opentype.OpenType.__init__')
    par = f.params()[2] if len(f.params()) > 2 else None
    stores = [a for a in walk_own(f.node) if isinstance(a, ast.Assign) and norm(a.targets[0]).endswith('typeMap') and
              isinstance(a.targets[0], ast.Attribute)]
    if not stores or par is None:
        raise AnalysisError('type map store not found in %s' % f.short)
    for a in stores:
        v = a.value
        tests = [x for x in ancestors(a) if isinstance(x, ast.If)]
        if isinstance(v, ast.Name) and v.id == par:
            ok = True
            why = 'stores the parameter'
            for t in tests:
                inbody = any(a is y for b in t.body for y in ast.walk(b))
                tt = norm(t.test)
                if tt == '%s is None' % par and inbody:
                    ok, why = False, 'stored under `%s`' % tt
                elif tt not in ('%s is None' % par, '%s is not None' % par):
                    ok, why = False, 'the choice between the caller\'s map and a fresh one is made by `%s`, not by `is None`: an ' \
                                     'empty map supplied by the caller is not kept' % tt
        elif isinstance(v, ast.Dict) and not v.keys:
            ok = all(norm(t.test) in ('%s is None' % par, '%s is not None' % par) for t in tests) and bool(tests)
            why = 'fresh dict for None' if ok else 'fresh dict chosen by `%s`: an empty map supplied by the caller is replaced, ' \
                                                   'later registrations in it are never seen' % [norm(t.test) for t in tests]
        elif isinstance(v, ast.IfExp) and norm(v.test) in ('%s is None' % par, '%s is not None' % par):
            ok, why = True, 'conditional on identity with None'
        else:
            ok = False
            why = '`%s` replaces any falsy map, also an empty dict the caller intends to fill later: governing values ' \
                  'registered afterwards are not found and the open type stays unresolved' % norm(v)
        ctx.ob('A6.mapref', f, 'caller-supplied map kept by reference: `%s`' % norm(a)[:60], ok, why, node=a)


# ------------------------------------------------------------------- C14.fold

def rule_sizespec_fold(ctx):
    """C14.fold: a legacy sizeSpec is INTERSECTED with the subtype constraint: `+=` is used only when the constraint is an
    intersection; anything else (a union, a bare constraint) is wrapped into a new intersection."""
    f = ctx.func('type.base.ConstructedAsn1Type._moveSizeSpec')
    CI = ctx.cls('type.constraint.ConstraintsIntersection')
    augs = [a for a in walk_own(f.node) if isinstance(a, ast.AugAssign) and isinstance(a.op, ast.Add) and 'izeSpec' in norm(a.value)]
    wraps = [a for a in walk_own(f.node) if isinstance(a, ast.Assign) and isinstance(a.value, ast.Call) and
             ctx.prog.resolve_expr(f.module, a.value.func) is CI and len(a.value.args) == 2]
    if not augs and not wraps:
        raise AnalysisError('sizeSpec folding not found in %s' % f.short)
    for a in augs:
        tests = [t for t in ancestors(a) if isinstance(t, ast.If)]
        guard = None
        for t in tests:
            for c in ast.walk(t.test):
                if isinstance(c, ast.Call) and call_name(c) == 'isinstance' and len(c.args) == 2 and norm(c.args[0]) == norm(a.target):
                    guard = c
        if guard is None:
            ctx.ob('C14.fold', f, '`%s` only for an intersection' % norm(a), False, 'no isinstance() guard', node=a)
            continue
        r = ctx.prog.resolve_expr(f.module, guard.args[1])
        ok = isinstance(r, ClassInfo) and CI in r.mro
        ctx.ob('C14.fold', f, '`%s` only for an intersection' % norm(a), ok,
               'guarded by isinstance(..., %s): for a %s `+=` adds the size constraint as one more member, e.g. one more '
               'ALTERNATIVE of a union, instead of intersecting with it' % (norm(guard.args[1]), norm(guard.args[1])) if not ok else
               'guarded by %s' % norm(guard.args[1]), node=a)
    ctx.ob('C14.fold', f, 'other constraints are wrapped into ConstraintsIntersection(subtypeSpec, sizeSpec)', len(wraps) == 1,
           '%d wrapping assignment(s)' % len(wraps))


# ------------------------------------------------------------------- A12.eos

def rule_eos_by_read(ctx):
    """A12.eos: for a general stream "the input has ended" is learnt from a read that returns an empty string, never from
    a position or a size (compressed and wrapped streams count positions differently from the file they sit on)."""
    f = ctx.func('codec.streaming.isEndOfStream')
    cfg = ctx.cfg(f)
    rd = reaching_defs(cfg, f.params())
    sub = f.params()[0]
    ys = [n for n in cfg.stmt_nodes() if n.kind == 'stmt' and isinstance(n.ast, ast.Expr) and isinstance(n.ast.value, ast.Yield)]
    if not ys:
        raise AnalysisError('no yield in %s' % f.short)
    n = 0
    for y in ys:
        v = n_val = y.ast.value.value
        if v is not None and isinstance(v, ast.Call) and 'SubstrateUnderrunError' in norm(v.func):
            continue
        deps = [(b, lab) for b, lab in cfg.control_deps(y)]
        bytesio = any(b.kind == 'test' and 'isinstance(%s, io.BytesIO)' % sub in norm(b.ast.test) and lab == 'true' for b, lab in _tdeps(cfg, y))
        n += 1
        if bytesio:
            ctx.ob('A12.eos', f, 'in-memory stream: answer from its own size: `%s`' % norm(y.ast)[:40], True, 'io.BytesIO arm')
            continue
        # names the answer depends on (value and controlling tests), closed over reaching definitions
        names = set(names_used(v)) if v is not None else set()
        for b, lab in _tdeps(cfg, y):
            if b.kind in ('test', 'while') and b.ast is not None and hasattr(b.ast, 'test'):
                if 'isinstance(' in norm(b.ast.test):
                    continue
                names |= set(names_used(b.ast.test))
        roots = []
        seen = set()
        work = [(nm, y) for nm in names]
        while work:
            nm, at = work.pop()
            for d in rd[at].get(nm, ()):  # definitions of nm reaching `at`
                if (nm, d) in seen:
                    continue
                seen.add((nm, d))
                if d.kind == 'stmt' and isinstance(d.ast, ast.Assign):
                    roots.append(norm(d.ast.value))
                    for k in names_used(d.ast.value):
                        work.append((k, d))
        # calls made in the answer / its controlling tests themselves
        exprs = ([v] if v is not None else []) + [b.ast.test for b, lab in _tdeps(cfg, y)
                                                  if b.ast is not None and hasattr(b.ast, 'test') and 'isinstance(' not in norm(b.ast.test)]
        for e in exprs:
            for c in ast.walk(e):
                if isinstance(c, ast.Call):
                    roots.append(norm(c))
        calls = [r for r in roots if '(' in r]
        nonread = [r for r in calls if not r.startswith('%s.read(' % sub)]
        lit = v is not None and isinstance(v, ast.Constant)
        ok = bool(calls) and not nonread and not lit
        ctx.ob('A12.eos', f, 'general stream: answer `%s` derives from a read' % norm(y.ast)[:40], ok,
               'the answer `%s` depends on %s: not on what a read returned.  A reader whose tell()/size are not those of the '
               'octets it delivers (gzip, bz2, a wrapper) is declared ended while data remains' % (
                   norm(y.ast), nonread or ('a constant' if lit else 'nothing read')) if not ok else 'depends on %s' % calls, node=y.ast)
    if n < 2:
        raise AnalysisError('expected the BytesIO answer and the general answer in %s' % f.short)


def _tdeps(cfg, node):
    out, seen, work = [], set(), [node]
    while work:
        x = work.pop()
        for b, lab in cfg.control_deps(x):
            if (b, lab) not in seen:
                seen.add((b, lab))
                out.append((b, lab))
                work.append(b)
    return out


# ------------------------------------------------------------------- A1.proto

PROTO_EXCEPTIONS = {'Enumerated': 'Integer'}   # schemaless ENUMERATED is an Integer carrying the ENUMERATED tag (pinned behaviour)


def rule_prototypes(ctx):
    """A1.proto: the decoder registered under a universal tag builds, when no schema is given, a value of THE type that
    owns this tag (its protoComponent), in every codec's by-tag table."""
    from sa.rules.tables import dec_chain, type_universe, CODECS, _site
    from sa.consteval import VInstance
    uni = {}
    for c, tid, ts in type_universe(ctx):
        uni.setdefault(ts, []).append(c)
    for codec in CODECS:
        t = dec_chain(ctx, codec)['TAG_MAP']
        n = 0
        for k, v in t.d.items():
            if not isinstance(v, VInstance):
                continue
            pc = ctx.ev.inst_attr(v, 'protoComponent')
            owners = uni.get(k, [])
            if pc is None or not isinstance(pc, VInstance) or not owners:
                continue
            n += 1
            names = [o.name for o in owners]
            ok = pc.ci.name in names or any(PROTO_EXCEPTIONS.get(o) == pc.ci.name for o in names)
            ctx.ob('A1.proto', 'codec.%s.decoder.TAG_MAP' % codec, '%r -> prototype %s' % (k, '/'.join(names)), ok,
                   'tag %r belongs to %s, the codec registered under it (%s) creates %s when no schema is given: the decoded value '
                   'has the wrong type (text read as octets, re-encoding and comparison differ)' % (k, '/'.join(names), v.ci.short, pc.ci.short)
                   if not ok else pc.ci.short, node=_site(v))
        if n < 20:
            raise AnalysisError('only %d prototypes evaluated in the %s by-tag table' % (n, codec))


# ------------------------------------------------------------------- A5.encread

def rule_encoder_reads(ctx):
    """A5.encread: the native record encoder touches a component through the instantiating accessor `value[idx]` only after
    `namedTypes[idx].isOptional` held (short-circuit order).  For a CHOICE (which inherits this encoder, and whose items()
    yields only the chosen alternative at idx 0) an unguarded `value[0]` re-selects alternative 0 and wipes the chosen one."""
    f = ctx.func('codec.native.encoder.SetEncoder.encode')
    val = f.params()[1]
    subs = [s for s in walk_own(f.node) if isinstance(s, ast.Subscript) and norm(s.value) == val and isinstance(s.ctx, ast.Load)]
    if not subs:
        raise AnalysisError('no `%s[...]` read in %s' % (val, f.short))
    for s in subs:
        guarded = False
        why = 'not inside a short-circuit chain'
        node = s
        for a in ancestors(s):
            if isinstance(a, ast.BoolOp) and isinstance(a.op, ast.And):
                idx = [i for i, v in enumerate(a.values) if any(x is s for x in ast.walk(v))][0]
                left = [norm(v) for v in a.values[:idx]]
                guarded = any(t.endswith('.isOptional') for t in left)
                why = 'operands evaluated before it: %s' % left
                break
            if isinstance(a, ast.If):
                break
        if not guarded:
            for a in ancestors(s):
                if isinstance(a, ast.If) and any(x is s for b in a.body for x in ast.walk(b)) and \
                        any(norm(c).endswith('.isOptional') for c in _conjuncts(a.test)):
                    guarded = True
        ctx.ob('A5.encread', f, '`%s` evaluated only for OPTIONAL components' % norm(s), guarded,
               '%s: `%s` runs for every component.  CHOICE inherits this encoder; there idx is always 0, and reading position 0 '
               'of a CHOICE whose chosen alternative is another one re-selects alternative 0: encoding changes the value' % (why, norm(s))
               if not guarded else why, node=s)


# ------------------------------------------------------------------- A5.memo

def _store_expr(n):
    """The right-hand side for the (possibly chained) assignment `... = C[k] = v`."""
    return n.value


def memo_sites(fnode):
    """[(store stmt, container text, key expr, value expr)] for `C[k] = v` where C is an attribute or a name not bound in
    the function, and the function also looks `C` up under the same key (C.get(k) / C[k] / k in C)."""
    from sa.cfg import CFG
    bound = set()
    for x in walk_own(fnode):
        if isinstance(x, ast.Name) and isinstance(x.ctx, ast.Store):
            bound.add(x.id)
    a = fnode.args
    for x in a.args + a.kwonlyargs + a.posonlyargs + [y for y in (a.vararg, a.kwarg) if y is not None]:
        bound.add(x.arg)
    fresh = set(norm(t) for x in walk_own(fnode) if isinstance(x, ast.Assign) for t in x.targets if isinstance(t, ast.Attribute))
    out = []
    for n in walk_own(fnode):
        if not isinstance(n, ast.Assign):
            continue
        for t in n.targets:
            if not isinstance(t, ast.Subscript):
                continue
            C = t.value
            if norm(C) in fresh:
                continue    # the container is created by this very call: nothing outlives it
            if isinstance(C, ast.Name) and C.id in bound:
                continue
            if not isinstance(C, (ast.Name, ast.Attribute)):
                continue
            ctext, ktext = norm(C), norm(t.slice)
            looked = False
            for y in walk_own(fnode):
                if isinstance(y, ast.Call) and isinstance(y.func, ast.Attribute) and y.func.attr == 'get' and norm(y.func.value) == ctext \
                        and y.args and norm(y.args[0]) == ktext:
                    looked = True
                elif isinstance(y, ast.Subscript) and isinstance(y.ctx, ast.Load) and norm(y.value) == ctext and norm(y.slice) == ktext:
                    looked = True
                elif isinstance(y, ast.Compare) and len(y.ops) == 1 and isinstance(y.ops[0], (ast.In, ast.NotIn)) and \
                        norm(y.comparators[0]) == ctext and norm(y.left) == ktext:
                    looked = True
            if looked:
                out.append((n, ctext, t.slice, n.value))
    return out


def memo_leaks(fnode, params, site, modnames=()):
    """Names the cached value is computed from that are neither part of the key nor derived from the key alone."""
    from sa.cfg import CFG
    cfg = CFG(fnode)
    rd = reaching_defs(cfg, params)
    stmt, ctext, key, val = site
    node = cfg.node_of[stmt]
    K = names_used(key)
    # a per-instance container is implicitly keyed by the instance; a class- or module-level one is shared by all
    implicit = ('self', 'cls') if ctext.startswith('self.') else ('cls',)
    leaks = []
    seen = set()
    work = [(nm, node, (nm,)) for nm in names_used(val) if nm not in modnames]
    while work:
        nm, at, via = work.pop()
        if nm in K:
            continue
        defs = rd[at].get(nm, set())
        real = [d for d in defs if d is not cfg.entry]
        if not real:
            if nm in params and nm not in implicit:
                leaks.append((nm, via))
            continue
        # tests that decide WHICH of several definitions reaches here (a test all definitions sit under alike is only a
        # condition for getting here at all, not an input of the value)
        tds = [set(_tdeps(cfg, d)) for d in real]
        common = set.intersection(*tds) if tds else set()
        for d in real:
            if (nm, d) in seen:
                continue
            seen.add((nm, d))
            used = set()
            for e in node_exprs(d):
                if d.kind == 'stmt' and isinstance(d.ast, ast.Assign):
                    e = d.ast.value
                elif d.kind == 'stmt' and isinstance(d.ast, ast.AugAssign):
                    used |= {nm} if isinstance(d.ast.target, ast.Name) else set()
                    e = d.ast.value
                used |= names_used(e)
                for x in ast.walk(e):
                    if isinstance(x, ast.Attribute) and isinstance(x.value, ast.Name) and x.value.id == 'self' and \
                            not isinstance(getattr(x, 'parent', None), ast.Call):
                        pass
            if len(real) > 1:
                for b, lab in set(_tdeps(cfg, d)) - common:
                    if b.ast is not None and hasattr(b.ast, 'test'):
                        used |= names_used(b.ast.test)
            for u in used:
                if u in implicit or u in modnames:
                    continue
                work.append((u, d, via + (u,)))
    # a name that is itself (re)defined from something outside the key, reached without passing through the key
    out = []
    for nm, via in leaks:
        if (nm, via) not in out:
            out.append((nm, via))
    return out


_MEMO_POSITIVE = '''
def f(self, text):
    tz, sign = text[1:], text[0]
    hit = self._cache.get(tz)
    if hit is None:
        minutes = int(tz)
        if sign == '-':
            minutes *= -1
        hit = self._cache[tz] = make(minutes)
    return hit
'''
_MEMO_NEGATIVE2 = '''
def f(self, text):
    if '+' in text:
        tz, sign = text[1:], text[0]
        hit = Cls._cache.get((sign, tz))
        if hit is None:
            minutes = int(tz)
            if sign == '-':
                minutes *= -1
            hit = Cls._cache[sign, tz] = make(minutes)
        return hit
'''
_MEMO_NEGATIVE = _MEMO_POSITIVE.replace('self._cache.get(tz)', 'self._cache.get(text)').replace('self._cache[tz]', 'self._cache[text]')


def rule_memo_key(ctx):
    """A5.memo: where a function memoises a computed object in a dict that outlives the call (`C[k] = v` with a lookup of
    `C` under the same key), everything `v` is computed from is part of `k` or derived from `k`: otherwise a later call
    with an equal key and a different input is served the earlier call's object (the outcome depends on the history)."""
    # embedded controls: the rule must fire on the first and stay silent on the second
    for src, want in ((_MEMO_POSITIVE, True), (_MEMO_NEGATIVE, False), (_MEMO_NEGATIVE2, False)):
        fn = ast.parse(src).body[0]
        sites = memo_sites(fn)
        got = bool(sites) and bool(memo_leaks(fn, ['self', 'text'], sites[0]))
        if not sites or got != want:
            raise AnalysisError('A5.memo self-check failed (control %s)' % ('positive' if want else 'negative'))
    n = 0
    skip = ('pyasn1.codec.ber.decoder',)   # the tag caches of the item decoder are path-sensitive: decided by A5.cachekey
    for f in sorted(ctx.prog.all_functions(), key=lambda f: f.qualname):
        if f.module.name in skip:
            continue
        try:
            sites = memo_sites(f.node)
        except Exception:
            continue
        for site in sites:
            n += 1
            modnames = set(f.module.bindings) | set(dir(__builtins__) if not isinstance(__builtins__, dict) else __builtins__)
            leaks = memo_leaks(f.node, f.params(), site, modnames)
            leaks = [(a, b) for a, b in leaks if a not in modnames]
            ctx.ob('A5.memo', f, 'memo `%s[%s]` keyed by everything the value depends on' % (site[1], norm(site[2])), not leaks,
                   'the cached `%s` also depends on %s, which the key `%s` does not determine: a later call with the same key '
                   'and another `%s` gets the object computed for the first one' % (
                       norm(site[3])[:50], ', '.join('`%s` (through %s)' % (a, ' <- '.join(b[:-1]) or 'itself') for a, b in leaks[:2]),
                       norm(site[2]), (leaks[0][1][-2] if len(leaks[0][1]) > 1 else leaks[0][0])) if leaks else 'key covers the inputs',
                   node=site[0])
    ctx.ob('A5.memo', 'pyasn1', 'census: memoising stores outside the item decoder', True,
           '%d site(s); embedded positive and negative controls behave' % n, nontrivial=False)


# ------------------------------------------------------------------- A11.frac

def rule_fraction_pair(ctx):
    """A11.frac: fromDateTime writes the sub-second part as an integer count and asDateTime reads the digits after the
    point as an integer count of the same unit (pyasn1's convention: milliseconds), with nothing altering the digits in
    between; writer divisor == reader multiplier."""
    w = ctx.func('type.useful.TimeMixIn.fromDateTime')
    r = ctx.func('type.useful.TimeMixIn.asDateTime')
    fr = [n for n in walk_own(w.node) if isinstance(n, (ast.AugAssign, ast.Assign)) and
          any(isinstance(c, ast.Constant) and isinstance(c.value, str) and c.value.startswith('.%') for c in ast.walk(n.value))]
    if len(fr) != 1:
        raise AnalysisError('fraction formatting not found in %s' % w.short)
    v = fr[0].value
    direct = isinstance(v, ast.BinOp) and isinstance(v.op, ast.Mod) and isinstance(v.left, ast.Constant) and v.left.value == '.%d'
    ctx.ob('A11.frac', w, 'fraction digits are written as formatted, nothing trims or pads them afterwards', direct,
           '`%s`: the reader takes the digits as an integer count (int(ms) * 1000), so dropping or adding digits changes the '
           'instant (120 ms written `.12` reads back as 12 ms)' % norm(v) if not direct else norm(v), node=fr[0])
    k1 = None
    arg = None
    if direct:
        arg = v.right.elts[0] if isinstance(v.right, ast.Tuple) and len(v.right.elts) == 1 else v.right
    else:
        for c in ast.walk(v):
            if isinstance(c, ast.BinOp) and isinstance(c.op, ast.Mod) and isinstance(c.left, ast.Constant) and str(c.left.value).startswith('.%'):
                arg = c.right
    if isinstance(arg, ast.Name):
        ds = [a.value for a in walk_own(w.node) if isinstance(a, ast.Assign) and norm(a.targets[0]) == arg.id]
        arg = ds[0] if len(ds) == 1 else arg
    if isinstance(arg, ast.BinOp) and isinstance(arg.op, ast.FloorDiv) and norm(arg.left).endswith('.microsecond'):
        k1 = const_int(arg.right)
    rd = [a for a in walk_own(r.node) if isinstance(a, ast.Assign) and isinstance(a.value, ast.BinOp) and isinstance(a.value.op, ast.Mult)
          and isinstance(a.value.left, ast.Call) and call_name(a.value.left) == 'int']
    k2 = const_int(rd[0].value.right) if len(rd) == 1 else None
    if k1 is None or k2 is None:
        raise AnalysisError('sub-second unit of writer (%r) / reader (%r) not recognised' % (k1, k2))
    ctx.ob('A11.frac', w, 'writer unit == reader unit', k1 == k2 and k1 > 0,
           'writer divides microseconds by %d, reader multiplies the digits by %d' % (k1, k2), node=fr[0])
    uses = any(isinstance(c, ast.Call) and call_name(c) == 'replace' and any(k.arg == 'microsecond' and norm(k.value) == norm(rd[0].targets[0])
                                                                            for k in c.keywords) for c in walk_own(r.node))
    ctx.ob('A11.frac', r, 'the parsed count becomes the microsecond field', uses, '')


# ------------------------------------------------------------------- A11.div

_LEAF_RANGES = (('.days', (-1, 0)), ('.seconds', (0, 86399)), ('.microseconds', (0, 999999)), ('.microsecond', (0, 999999)))


def rule_offset_division(ctx):
    """A11.div: digits are cut out of a quantity with // and % only where the quantity cannot be negative (interval
    analysis over fromDateTime; |utcoffset| < 24 h, so days in -1..0 and seconds in 0..86399).  Python's // and % floor:
    on a negative dividend the remainder comes from the wrong side (-00:30 would be written -0130)."""
    from sa.rules.misc import Iv, iv_eval
    f = ctx.func('type.useful.TimeMixIn.fromDateTime')
    sites = []

    def leaf(e):
        t = norm(e)
        for suf, (lo, hi) in _LEAF_RANGES:
            if isinstance(e, ast.Attribute) and t.endswith(suf):
                return Iv(lo, hi)
        return None

    def ev(e, env):
        """Interval of e (None = unknown); records every division site with the interval of its dividend."""
        if isinstance(e, ast.Attribute):
            return leaf(e)
        if isinstance(e, ast.BinOp) and isinstance(e.op, (ast.FloorDiv, ast.Mod)) and not (
                isinstance(e.left, ast.Constant) and isinstance(e.left.value, str)):
            a, b = ev(e.left, env), ev(e.right, env)
            sites.append((e, e.left, a))
            if a is None or b is None or b.lo != b.hi or b.lo <= 0:
                return None
            if isinstance(e.op, ast.FloorDiv):
                return Iv(a.lo // b.lo, a.hi // b.lo)
            return Iv(a.lo, a.hi) if a.lo >= 0 and a.hi < b.lo else Iv(0, b.lo - 1)
        if isinstance(e, ast.BinOp):
            if isinstance(e.op, ast.Mod):   # string formatting: look into the arguments
                for x in (e.right.elts if isinstance(e.right, ast.Tuple) else [e.right]):
                    ev(x, env)
                return None
            a, b = ev(e.left, env), ev(e.right, env)
            if a is None or b is None:
                return None
            if isinstance(e.op, ast.Add):
                return Iv(a.lo + b.lo, a.hi + b.hi)
            if isinstance(e.op, ast.Sub):
                return Iv(a.lo - b.hi, a.hi - b.lo)
            if isinstance(e.op, ast.Mult):
                c = [a.lo * b.lo, a.lo * b.hi, a.hi * b.lo, a.hi * b.hi]
                return Iv(min(c), max(c))
            return None
        if isinstance(e, ast.Call) and call_name(e) == 'divmod' and len(e.args) == 2:
            a, b = ev(e.args[0], env), ev(e.args[1], env)
            sites.append((e, e.args[0], a))
            return None
        if isinstance(e, ast.Call):
            for x in e.args:
                ev(x, env)
            if call_name(e) == 'abs' and len(e.args) == 1:
                return iv_eval(e, env)
            return None
        if isinstance(e, ast.IfExp):
            ev(e.test, env)
            a = ev(e.body, refine(e.test, env, True))
            b = ev(e.orelse, refine(e.test, env, False))
            if a is None or b is None:
                return None
            return Iv(min(a.lo, b.lo), max(a.hi, b.hi))
        if isinstance(e, ast.UnaryOp) and isinstance(e.op, ast.USub):
            a = ev(e.operand, env)
            return None if a is None else Iv(-a.hi, -a.lo)
        if isinstance(e, (ast.BoolOp, ast.Compare, ast.Tuple)):
            for x in ast.iter_child_nodes(e):
                if isinstance(x, ast.expr):
                    ev(x, env)
            return None
        return iv_eval(e, env)

    def refine(test, env, branch):
        if isinstance(test, ast.Compare) and len(test.ops) == 1 and isinstance(test.left, ast.Name) and test.left.id in env \
                and env[test.left.id] is not None and const_int(test.comparators[0]) is not None:
            c = const_int(test.comparators[0])
            iv = env[test.left.id]
            op = type(test.ops[0])
            if not branch:
                op = {ast.Lt: ast.GtE, ast.LtE: ast.Gt, ast.Gt: ast.LtE, ast.GtE: ast.Lt}.get(op)
            lo, hi = iv.lo, iv.hi
            if op is ast.Lt:
                hi = min(hi, c - 1)
            elif op is ast.LtE:
                hi = min(hi, c)
            elif op is ast.Gt:
                lo = max(lo, c + 1)
            elif op is ast.GtE:
                lo = max(lo, c)
            env = dict(env)
            env[test.left.id] = Iv(lo, hi) if lo <= hi else None
        return env

    def run(stmts, env):
        for s in stmts:
            if isinstance(s, ast.Assign) and len(s.targets) == 1:
                t = s.targets[0]
                if isinstance(t, ast.Tuple) and isinstance(s.value, ast.Call) and call_name(s.value) == 'divmod' and len(t.elts) == 2 \
                        and len(s.value.args) == 2:
                    a, b = ev(s.value.args[0], env), ev(s.value.args[1], env)
                    sites.append((s.value, s.value.args[0], a))
                    for x, kind in zip(t.elts, ('q', 'r')):
                        if isinstance(x, ast.Name):
                            if a is None or b is None or b.lo != b.hi or b.lo <= 0:
                                env[x.id] = None
                            else:
                                env[x.id] = Iv(a.lo // b.lo, a.hi // b.lo) if kind == 'q' else Iv(0, b.lo - 1)
                    continue
                v = ev(s.value, env)
                for x in ast.walk(t):
                    if isinstance(x, ast.Name):
                        env[x.id] = v if isinstance(t, ast.Name) else None
            elif isinstance(s, ast.AugAssign):
                v = ev(s.value, env)
                if isinstance(s.target, ast.Name):
                    cur = env.get(s.target.id)
                    if cur is not None and v is not None and isinstance(s.op, (ast.Add, ast.Sub)):
                        env[s.target.id] = Iv(cur.lo + v.lo, cur.hi + v.hi) if isinstance(s.op, ast.Add) else Iv(cur.lo - v.hi, cur.hi - v.lo)
                    else:
                        env[s.target.id] = None
            elif isinstance(s, ast.If):
                ev(s.test, env)
                e1 = run(s.body, refine(s.test, dict(env), True))
                e2 = run(s.orelse, refine(s.test, dict(env), False))
                env = {}
                for k in set(e1) | set(e2):
                    a, b = e1.get(k), e2.get(k)
                    env[k] = Iv(min(a.lo, b.lo), max(a.hi, b.hi)) if a is not None and b is not None else None
            elif isinstance(s, (ast.Expr, ast.Return)):
                if s.value is not None:
                    ev(s.value, env)
            elif isinstance(s, (ast.For, ast.While, ast.Try, ast.With)):
                for x in ast.walk(s):
                    if isinstance(x, ast.Name) and isinstance(x.ctx, ast.Store):
                        env[x.id] = None
                    if isinstance(x, ast.BinOp) and isinstance(x.op, (ast.FloorDiv, ast.Mod)) and not isinstance(x.left, ast.Constant):
                        sites.append((x, x.left, None))
        return env
    run(f.node.body, {})
    if len(sites) < 3:
        raise AnalysisError('expected the sub-second and hour/minute divisions in %s, found %d' % (f.short, len(sites)))
    for e, dividend, iv in sites:
        if iv is None:
            raise AnalysisError('cannot bound the dividend `%s` of `%s` in %s' % (norm(dividend), norm(e)[:50], f.short))
        ctx.ob('A11.div', f, 'dividend of `%s` is never negative' % norm(e)[:60], iv.lo >= 0,
               '`%s` ranges over %r for offsets between -24 h and +24 h: floor division / modulo of a negative quantity takes '
               'the remainder from the wrong side, so e.g. -00:30 is written as -01:30' % (norm(dividend), iv) if iv.lo < 0 else
               '`%s` in %r' % (norm(dividend), iv), node=e)


# ------------------------------------------------------------------- W.real10

_TRUEDIV_POSITIVE = '''
def f(value):
    m, b, e = value
    while m and m % 10 == 0:
        m /= 10
        e += 1
    return m, b, e
'''


def _true_divisions(fnode):
    return [n for n in walk_own(fnode) if (isinstance(n, ast.BinOp) and isinstance(n.op, ast.Div)) or
            (isinstance(n, ast.AugAssign) and isinstance(n.op, ast.Div))]


def rule_real_base10_exact(ctx):
    """W.real10: building a REAL value from (mantissa, 10, exponent) keeps an integer mantissa exact: trailing zeros are
    moved into the exponent with integer division.  True division turns the mantissa into a float: above 2**53 it is
    rounded (another value), above 1e308 it raises OverflowError (which is not a PyAsn1Error)."""
    if len(_true_divisions(ast.parse(_TRUEDIV_POSITIVE).body[0])) != 1:
        raise AnalysisError('W.real10 self-check failed')
    c = ctx.cls('type.univ.Real')
    fs = [f for f in ctx.prog.all_functions() if f.cls is c and (f.name in ('prettyIn',) or 'normalizeBase10' in f.name)]
    if len(fs) < 2:
        raise AnalysisError('Real.prettyIn / base-10 normalisation not found')
    for f in fs:
        divs = _true_divisions(f.node)
        ctx.ob('W.real10', f, 'no true division of the mantissa', not divs,
               '`%s`: an integer mantissa becomes a float - 123456789012345678900 comes back as 12345678901234567168 * 10, and a '
               'decimal mantissa beyond 1e308 (09 .. 01 31 30 30 30 ..) raises OverflowError out of the decoder' % norm(divs[0])
               if divs else 'integer arithmetic only', node=divs[0] if divs else f.node)
    norm10 = [f for f in fs if 'normalizeBase10' in f.name][0]
    loops = [n for n in walk_own(norm10.node) if isinstance(n, ast.While)]
    ok = len(loops) == 1 and any(isinstance(s, ast.AugAssign) and isinstance(s.op, ast.FloorDiv) and const_int(s.value) == 10 for s in loops[0].body) \
        and any(isinstance(s, ast.AugAssign) and isinstance(s.op, ast.Add) and const_int(s.value) == 1 for s in loops[0].body)
    ctx.ob('W.real10', norm10, 'each trailing zero of the mantissa moves into the exponent (m //= 10; e += 1)', ok, '')
