"""A4 `guards` (must-pass-through, who-may-write, contradiction), A6 `siblings`, A8 `pairing`."""
import ast

from sa.model import AnalysisError, ClassInfo, FuncInfo, norm, walk_own, ancestors
from sa.cfg import reaching_defs, node_exprs, names_used, node_defs, feasible_reach
from sa.util import is_log_test, call_name, const_int, if_chain, stmts_of
from sa.rules import genproto as G
from sa.rules.excflow import _edge_dominates
from sa.consteval import VInstance, VDict


def _nodes(cfg, pred):
    return [n for n in cfg.stmt_nodes() if pred(n)]


def _text(n):
    return n.text()


def _calls_in_node(n):
    out = []
    for e in node_exprs(n):
        for x in ast.walk(e):
            if isinstance(x, ast.Call):
                out.append(x)
    return out


def _raising_branch(t):
    """'true'/'false'/None: which branch of test node t leads straight to a raise."""
    if any(isinstance(s, ast.Raise) for s in t.ast.body):
        return 'true'
    if any(isinstance(s, ast.Raise) for s in t.ast.orelse):
        return 'false'
    return None


# ===================================================================== C07

def rule_c07_len(ctx):
    """C07.len: after a definite-length value is decoded, consumed octets are compared with the announced length."""
    f = ctx.func('codec.ber.decoder.SingleItemDecoder.__call__')
    cfg = ctx.cfg(f)
    rd = reaching_defs(cfg, f.params())
    from sa.rules import genproto as G
    loops = [n for n in cfg.stmt_nodes() if n.kind == 'for' and isinstance(n.ast.iter, ast.Call) and
             any(m.name == 'valueDecoder' for m in G.callee_set(ctx, f, n.ast.iter))]
    stops = [n for n in cfg.stmt_nodes() if n.kind == 'stmt' and norm(n.ast) == 'state = stStop']
    if len(loops) != 1 or not stops:
        raise AnalysisError('definite-length value loop / stStop assignment not found in %s' % f.short)
    F = loops[0]

    def is_len_check(n):
        if n.kind != 'test' or not isinstance(n.ast.test, ast.Compare) or len(n.ast.test.ops) != 1:
            return False
        t = n.ast.test
        sides = [t.left, t.comparators[0]]
        names = [norm(s) for s in sides]
        if 'length' not in names:
            return False
        other = sides[1 - names.index('length')]
        # the other side is a tell() difference: directly, or a name defined as one
        exprs = [other]
        if isinstance(other, ast.Name):
            exprs = [d.ast.value for d in rd[n].get(other.id, ()) if d.kind == 'stmt' and isinstance(d.ast, ast.Assign)]
            if not exprs:
                return False
        for e in exprs:
            if not (isinstance(e, ast.BinOp) and isinstance(e.op, ast.Sub) and norm(e.left) == 'substrate.tell()'
                    and isinstance(e.right, ast.Name)):
                return False
            # subtrahend defined as substrate.tell() before the value loop
            sub = e.right.id
            sdefs = rd[n].get(sub, set())
            if not sdefs or not all(d.kind == 'stmt' and isinstance(d.ast, ast.Assign) and
                                    norm(d.ast.value) == 'substrate.tell()' and cfg.dominates(d, F) for d in sdefs):
                return False
        op = t.ops[0]
        rb = _raising_branch(n)
        return (isinstance(op, ast.NotEq) and rb == 'true') or (isinstance(op, ast.Eq) and rb == 'false')

    checks = [n for n in cfg.stmt_nodes() if is_len_check(n)]
    # on the paths of a definite length (length == -1 false) the item is not complete before a length check
    ok = bool(checks) and not any(_feasible_with(cfg, F, s_, checks, {'length == -1': False}) for s_ in stops
                                  if s_ in cfg.reachable(F, labels_skip=('item',)))
    # only the exhausted edge of F matters: paths from the loop exit
    ctx.ob('C07.len', f, 'consumed == announced length, else raise, before the item is complete', ok,
           'length checks found: %s' % [c.text() for c in checks], node=checks[0].ast if checks else F.ast)


def rule_c07_eoo(ctx):
    """C07.eoo: the end-of-octets probe reads N octets and un-reads exactly N on mismatch."""
    f = ctx.func('codec.ber.decoder.SingleItemDecoder.__call__')
    cfg = ctx.cfg(f)
    loops = [n for n in cfg.stmt_nodes() if n.kind == 'for' and isinstance(n.ast.iter, ast.Call) and
             call_name(n.ast.iter) == 'readFromStream' and len(n.ast.iter.args) >= 2 and const_int(n.ast.iter.args[1]) == 2
             and any(b.kind == 'test' and 'allowEoo' in norm(b.ast.test) for b, lab in cfg.control_deps(n))]
    if len(loops) != 1:
        raise AnalysisError('end-of-octets probe not found in %s' % f.short)
    P = loops[0]
    var = P.ast.target.id
    N = const_int(P.ast.iter.args[1])
    env = ctx.ev.module_env(f.module)
    sentinel = env.get('EOO_SENTINEL')
    ctx.ob('C07.eoo', f, 'probe size equals the sentinel length', isinstance(sentinel, bytes) and len(sentinel) == N,
           'reads %d octets, EOO_SENTINEL = %r' % (N, sentinel), node=P.ast)
    tests = [n for n in cfg.stmt_nodes() if n.kind == 'test' and isinstance(n.ast.test, ast.Compare) and
             norm(n.ast.test.left) == var and norm(n.ast.test.comparators[0]) == 'EOO_SENTINEL' and
             isinstance(n.ast.test.ops[0], ast.Eq)]
    if len(tests) != 1:
        ctx.ob('C07.eoo', f, 'probe result compared with the sentinel', False, 'no `%s == EOO_SENTINEL` test' % var, node=P.ast)
        return
    T = tests[0]
    # match arm: yield the end-of-octets singleton and return
    body = [s for s in T.ast.body if not (isinstance(s, ast.If) and is_log_test(s.test))]
    ok_match = (len(body) == 2 and isinstance(body[0], ast.Expr) and isinstance(body[0].value, ast.Yield) and
                norm(body[0].value.value).endswith('endOfOctets') and isinstance(body[1], ast.Return))
    ctx.ob('C07.eoo', f, 'match: yields the end-of-octets object and returns', ok_match, 'arm: %s' % [norm(s) for s in body], node=T.ast)
    # mismatch arm: relative seek back by N before anything else touches the stream
    want = 'substrate.seek(-%d, os.SEEK_CUR)' % N
    seeks = [n for n in cfg.stmt_nodes() if n.kind == 'stmt' and norm(n.ast) == want]
    mark = [n for n in cfg.stmt_nodes() if n.kind == 'stmt' and norm(n.ast).startswith('substrate.markedPosition =')]
    ok = bool(seeks) and bool(mark) and all(
        cfg.must_pass(T, m, lambda n: n in seeks) for m in mark)
    # and no stream use between T(false) and the seek
    ctx.ob('C07.eoo', f, 'mismatch: stream rewound by the probe size before the element starts', ok,
           'rewind statements: %s' % [s.text() for s in seeks] or 'none', node=seeks[0].ast if seeks else T.ast)


# ===================================================================== A8

def rule_a8_pairing(ctx):
    """A8: the encoder appends end-of-octets iff it wrote an indefinite-length header, for every codec class."""
    enc = ctx.func('codec.ber.encoder.AbstractItemEncoder.encode')
    el = ctx.func('codec.ber.encoder.AbstractItemEncoder.encodeLength')
    # condition for the indefinite header inside encodeLength(length, defMode)
    first = [s for s in el.node.body if isinstance(s, ast.If)]
    if not first or not (isinstance(first[0].body[0], ast.Return) and norm(first[0].body[0].value) in ('(128,)', '(0x80,)')):
        raise AnalysisError('encodeLength: indefinite-header arm not recognised')
    hcond = first[0].test
    atoms_h = set(norm(x) for x in ast.walk(hcond) if isinstance(x, (ast.Name, ast.Attribute)) and not isinstance(getattr(x, 'parent', None), ast.Attribute))
    # call site in encode(): second argument
    calls = [c for c in walk_own(enc.node) if isinstance(c, ast.Call) and norm(c.func) == 'self.encodeLength']
    if len(calls) != 1:
        raise AnalysisError('expected one encodeLength call in encode()')
    arg = norm(calls[0].args[1])
    # EOO appends and their guards
    appends = []
    for n in walk_own(enc.node):
        if isinstance(n, ast.AugAssign) and norm(n.target) == 'substrate' and 'eoo' in norm(n.value):
            # path condition inside the tag loop: every enclosing test with the arm the append sits in
            conds = []
            cur = n
            for a in ancestors(n, enc.node):
                if isinstance(a, (ast.For, ast.While)):
                    break
                if isinstance(a, ast.If):
                    conds.append((a.test, any(cur is x for x in a.body)))
                cur = a
            appends.append((n, conds))
    if len(appends) < 1:
        raise AnalysisError('end-of-octets appends not found in encode()')
    from sa import intexpr
    param = el.params()[2]  # defMode
    classes = [c for c in ctx.prog.subclasses(ctx.cls('codec.ber.encoder.AbstractItemEncoder'))]
    registered = set()
    from sa.rules.tables import enc_chain
    for codec in ('ber', 'cer', 'der'):
        ch = enc_chain(ctx, codec)
        for nm in ('TAG_MAP', 'TYPE_MAP'):
            for v in ch[nm].d.values():
                if isinstance(v, VInstance):
                    registered.add(v.ci)
    for c in sorted(registered, key=lambda c: c.qualname):
        _, sup = ctx.ev.class_attr(c, 'supportIndefLenMode')
        if sup not in (True, False, 0, 1):
            raise AnalysisError('supportIndefLenMode of %s does not evaluate' % c.short)
        bad = []
        for dmo in (True, False):
            def res(e):
                t = norm(e)
                if t == 'self.supportIndefLenMode':
                    return bool(sup)
                return None
            free = sorted(set(x.id for n_, conds in appends for t_, pol in conds for x in ast.walk(t_) if isinstance(x, ast.Name)) - {arg, 'self'})
            if len(free) > 4:
                raise AnalysisError('A8 guards over too many atoms: %s' % free)
            import itertools
            try:
                h = bool(intexpr.ev(hcond, {param: dmo}, res))
                for bits in itertools.product((False, True), repeat=len(free)):
                    env = dict(zip(free, bits))
                    env[arg] = dmo
                    fired = [all(bool(intexpr.ev(t_, env, res)) == pol for t_, pol in conds) for n_, conds in appends]
                    if (sum(fired) == 1) != h or sum(fired) > 1:
                        bad.append('%s=%s%s: indefinite header %s, end-of-octets appended %d time(s)' % (
                            arg, dmo, ''.join(', %s=%s' % kv for kv in env.items() if kv[0] != arg), h, sum(fired)))
                        break
            except intexpr.NotPure as x:
                raise AnalysisError('A8 guard not propositional: %s' % x)
        ctx.ob('A8.pair', c, 'end-of-octets appended <=> indefinite header written (tag levels above the base)', not bad,
               '; '.join(bad) if bad else 'header condition `%s` and append guard agree for supportIndefLenMode=%r' % (norm(hcond), sup),
               node=(c.module.relpath, c.node.lineno))
    # base level: primitive encodings force the definite form: `defModeOverride = True` is reached exactly where the contents
    # are known to be primitive, and only for the base tag (first pass of the tag loop, or before the loop)
    from sa.cfg import known_at
    ecfg = ctx.cfg(enc)
    erd = reaching_defs(ecfg, enc.params())
    forced = [n for n in ecfg.stmt_nodes() if n.kind == 'stmt' and norm(n.ast) == 'defModeOverride = True']
    ok = False
    for n in forced:
        prim = known_at(ecfg, n, 'isConstructed', False, erd)
        in_loop = any(isinstance(a, (ast.For, ast.While)) for a in ancestors(n.ast, enc.node))
        base_only = (not in_loop) or known_at(ecfg, n, 'idx', False, erd)
        def conj(t_):
            return [c_ for v_ in t_.values for c_ in conj(v_)] if isinstance(t_, ast.BoolOp) and isinstance(t_.op, ast.And) else [t_]
        others = [norm(a.test) for a in ancestors(n.ast, enc.node) if isinstance(a, ast.If) and
                  any(norm(c_) not in ('isConstructed', 'not isConstructed', 'not idx', 'idx') for c_ in conj(a.test))]
        if prim and base_only and not others:
            ok = True
        elif prim and others:
            raise AnalysisError('definite-form override under `%s` not understood' % others[0])
    # the same decision kept in a list of length modes, one per tag, walked in step with the tags (`zip(superTags, modes)`):
    # `modes[0] = True` where the contents are known to be primitive
    for n in ecfg.stmt_nodes():
        a_ = n.ast
        if n.kind == 'stmt' and isinstance(a_, ast.Assign) and len(a_.targets) == 1 and isinstance(a_.targets[0], ast.Subscript) and \
                isinstance(a_.targets[0].value, ast.Name) and isinstance(a_.targets[0].slice, ast.Constant) and a_.targets[0].slice.value == 0 and \
                isinstance(a_.value, ast.Constant) and a_.value.value is True:
            lst = a_.targets[0].value.id
            zipped = any(isinstance(lp, ast.For) and isinstance(lp.iter, ast.Call) and norm(lp.iter.func) == 'zip' and
                         any(isinstance(x, ast.Name) and x.id == lst for x in lp.iter.args) for lp in walk_own(enc.node))
            if zipped and known_at(ecfg, n, 'isConstructed', False, erd):
                ok = True
    ctx.ob('A8.pair', enc, 'primitive contents force the definite form at the base tag', ok,
           'found: %s' % ok if ok else 'no `defModeOverride = True` under `not isConstructed`: a primitive value would get an indefinite '
           'header in indefinite mode')


def rule_a8_dec(ctx):
    """A8.dec: raw capture of an indefinite-length TLV: header re-read <=> end-of-octets appended."""
    f = ctx.func('codec.ber.decoder.AnyPayloadDecoder.indefLenValueDecoder')
    cfg = ctx.cfg(f)
    # header prepended: `chunk` defined by a read of (current - marked) octets under `not isTagged`
    hdr = [n for n in cfg.stmt_nodes() if n.kind == 'for' and isinstance(n.ast.iter, ast.Call) and
           call_name(n.ast.iter) == 'readFromStream' and 'fullPosition' in norm(n.ast.iter)]
    if len(hdr) != 1:
        raise AnalysisError('header re-read not found in %s' % f.short)
    hdeps = [(norm(b.ast.test), lab) for b, lab in cfg.control_deps(hdr[0]) if b.kind == 'test']
    hcond = [('not ' if lab == 'false' else '') + t for t, lab in hdeps]
    var = hdr[0].ast.target.id
    # terminator appended: an augmented assignment of end-of-octets octets to the same variable after the loop
    apps = [n for n in cfg.stmt_nodes() if n.kind == 'stmt' and isinstance(n.ast, ast.AugAssign) and
            norm(n.ast.target) == var and ('EOO' in norm(n.ast.value).upper() or 'eoo' in norm(n.ast.value))]
    if not apps:
        ctx.ob('A8.dec', f, 'header re-read <=> end-of-octets appended', False,
               'the captured octets start with the re-read header when `%s`, but the two end-of-octets octets consumed by '
               'the item decoder are never appended: the captured TLV is incomplete' % ' and '.join(hcond), node=hdr[0].ast)
        return
    adeps = [(norm(b.ast.test), lab) for b, lab in cfg.control_deps(apps[0]) if b.kind == 'test']
    acond = [('not ' if lab == 'false' else '') + t for t, lab in adeps if 'isTagged' in t]
    hc = [c for c in hcond if 'isTagged' in c]
    ctx.ob('A8.dec', f, 'header re-read <=> end-of-octets appended', sorted(hc) == sorted(acond),
           'header under %s, terminator under %s' % (hc, acond), node=apps[0].ast)


# ===================================================================== C04

def _record_loops(ctx):
    """(function, For node, arm) for the four record encoder loops."""
    out = []
    for q in ('codec.ber.encoder.SequenceEncoder.encodeValue', 'codec.cer.encoder.SetEncoder.encodeValue'):
        f = ctx.func(q)
        loops = [n for n in walk_own(f.node) if isinstance(n, ast.For) and
                 (norm(n.iter) == 'enumerate(value.values())' or 'namedTypes)' in norm(n.iter) and 'asn1Spec.componentType' in norm(n.iter))]
        if len(loops) != 2:
            raise AnalysisError('expected the value arm and the python arm loops in %s, found %d' % (f.short, len(loops)))
        for lp in loops:
            out.append((f, lp, 'value' if 'value.values()' in norm(lp.iter) else 'python'))
    return out


def rule_c04_default(ctx):
    """C04.default: DEFAULT components equal to their default are skipped before encoding, in all four record loops."""
    for f, lp, arm in _record_loops(ctx):
        cfg = ctx.cfg(f)
        head = cfg.node_of[lp]
        body_nodes = cfg.reachable(head, labels_skip=('exhausted',))
        sinks = []
        for n in body_nodes:
            if n.kind != 'stmt' or n.loop is not head:
                continue
            for c in _calls_in_node(n):
                if (isinstance(c.func, ast.Name) and c.func.id == 'encodeFun') or norm(c.func) == 'comps.append':
                    sinks.append(n)
        if not sinks:
            raise AnalysisError('no component sink in %s (%s arm)' % (f.short, arm))

        def is_default_skip(n):
            if n.kind != 'test':
                return False
            t = norm(n.ast.test)
            if 'isDefaulted' not in t or '==' not in t or '.asn1Object' not in t:
                return False
            return any(isinstance(s, ast.Continue) for s in n.ast.body)
        checks = [n for n in body_nodes if is_default_skip(n)]
        ok = bool(checks)
        why = 'no `isDefaulted and component == default: continue` test in the loop'
        if checks:
            bad = [s for s in sinks if feasible_reach(cfg, head, s, avoid=checks)]
            # in the value arm the schema may be empty (no named types -> no defaults): assume it is not
            if bad and arm == 'value':
                bad = [s for s in bad if _feasible_with(cfg, head, s, checks, {'namedTypes': True})]
            ok = not bad
            why = ('every component sink is preceded by the DEFAULT skip' if ok else
                   'sink `%s` reachable without passing the DEFAULT skip' % bad[0].text()[:60])
        ctx.ob('C04.default', f, '%s arm: DEFAULT == default skipped before encoding' % arm, ok, why, node=lp)
        # OPTIONAL skip likewise (value arm: not component.isValue; python arm: name not in value)
        def is_optional_skip(n):
            if n.kind != 'test':
                return False
            t = norm(n.ast.test)
            return 'isOptional' in t and ('not component.isValue' in t or 'not in value' in t) and \
                any(isinstance(s, ast.Continue) for s in n.ast.body)
        ochecks = [n for n in body_nodes if is_optional_skip(n)]
        ctx.ob('C04.optional', f, '%s arm: absent OPTIONAL skipped' % arm, bool(ochecks),
               'found %d optional-skip test(s)' % len(ochecks), node=lp)


def _feasible_with(cfg, start, target, avoid, assume):
    """feasible_reach with an initial valuation: implemented by pre-seeding through a fake walk."""
    from sa import cfg as C
    avoid = set(avoid)
    seen = set()
    stack = [(start, tuple(sorted(assume.items())))]
    while stack:
        n, valt = stack.pop()
        if (n, valt) in seen:
            continue
        seen.add((n, valt))
        if n is target and n is not start:
            return True
        val = dict(valt)
        ds = node_defs(n)
        for k in list(val):
            if any(C._mentions(k, d) for d in ds) and k not in assume:
                del val[k]
        for s, lab in n.succs:
            if s in avoid:
                continue
            v2 = val
            if n.kind in ('test', 'while') and lab in ('true', 'false'):
                cur = C._eval3(n.ast.test, val)
                br = lab == 'true'
                if cur is not None and cur != br:
                    continue
                v2 = C._assume(n.ast.test, br, val)
            stack.append((s, tuple(sorted(v2.items()))))
    return False


def rule_c04_clone(ctx):
    """C04.clone: deep copy visits every stored component and clones constructed ones with the incoming flag."""
    for q in ('type.univ.SequenceOfAndSetOfBase._cloneComponentValues', 'type.univ.SequenceAndSetBase._cloneComponentValues',
              'type.univ.Choice._cloneComponentValues'):
        f = ctx.func(q)
        calls = [c for c in walk_own(f.node) if isinstance(c, ast.Call)]
        deep = [c for c in calls if call_name(c) == 'clone' and any(k.arg == 'cloneValueFlag' and norm(k.value) == 'cloneValueFlag' for k in c.keywords)]
        shallow = [c for c in calls if call_name(c) == 'clone' and not c.keywords and not c.args]
        stores = [c for c in calls if call_name(c) in ('setComponentByPosition', 'setComponentByType') and norm(c.func.value) == 'myClone']
        ok = bool(deep) and bool(shallow) and len(stores) >= 2
        # the constructed test selects the deep clone
        tests = [n for n in walk_own(f.node) if isinstance(n, ast.If) and 'isinstance(' in norm(n.test) and 'ConstructedAsn1Type' in norm(n.test)]
        ok = ok and bool(tests) and any(call_name(c) == 'clone' and c.keywords for s in tests[0].body for c in ast.walk(s) if isinstance(c, ast.Call))
        if 'Choice' not in q:
            loops = [n for n in walk_own(f.node) if isinstance(n, ast.For) and '_componentValues' in norm(n.iter)]
            ok = ok and len(loops) == 1
            if loops:
                it = norm(loops[0].iter)
                keyed = it in ('self._componentValues.items()', 'enumerate(self._componentValues)')
                # the dict-shaped store (SEQUENCE OF) is keyed by position: enumerate(values()) would renumber by insertion order
                if 'SequenceOfAndSetOfBase' in q:
                    keyed = it in ('self._componentValues.items()', 'sorted(self._componentValues.items())')
                pos = loops[0].target.elts[0].id if isinstance(loops[0].target, ast.Tuple) else None
                same = all(norm(c.args[0]) == pos for c in stores if c.args)
                ctx.ob('C04.clone', f, 'components are copied to the position they are stored at', keyed and same,
                       'loop `for %s in %s`; positions passed to the clone: %s' % (norm(loops[0].target), it, [norm(c.args[0]) for c in stores if c.args]),
                       node=loops[0])
            for lp in loops:
                gs = [n for n in lp.body if isinstance(n, ast.If) and 'noValue' in norm(n.test)]
                for g in gs:
                    cj = g.test.values if isinstance(g.test, ast.BoolOp) else [g.test]
                    only = len(cj) == 1 and isinstance(cj[0], ast.Compare) and isinstance(cj[0].ops[0], ast.IsNot)
                    ctx.ob('C04.clone', f, 'a component is skipped only when its slot is empty', only,
                           'the copy is made under `%s`: stored components that are not (yet) complete values - a partly filled '
                           'nested record, a list holding a placeholder - are dropped from the clone' % norm(g.test) if not only else norm(g.test),
                           node=g)
        ctx.ob('C04.clone', f, 'every stored component copied; constructed ones cloned with cloneValueFlag', ok,
               'deep=%d shallow=%d stores=%d' % (len(deep), len(shallow), len(stores)))
    f = ctx.func('type.base.ConstructedAsn1Type.clone')
    txt = [norm(s) for s in stmts_of(f.node)]
    ok = any(t.startswith('if cloneValueFlag:') for t in txt) and any('self._cloneComponentValues(clone, cloneValueFlag)' in t for t in txt)
    ctx.ob('C04.clone', f, 'clone(cloneValueFlag=True) copies the values', ok, '')


# ===================================================================== C10

def rule_c10(ctx):
    """C10.req / C10.cons: spec-guided exits of the constructed decoders check required components and constraints."""
    for q in ('codec.ber.decoder.ConstructedPayloadDecoderBase.valueDecoder',
              'codec.ber.decoder.ConstructedPayloadDecoderBase.indefLenValueDecoder'):
        f = ctx.func(q)
        cfg = ctx.cfg(f)
        ys = [n for n in cfg.stmt_nodes() if n.kind == 'stmt' and norm(n.ast) == 'yield asn1Object']
        if not ys:
            raise AnalysisError('result yield not found in %s' % f.short)
        Y = ys[-1]
        # component loops: while-loops containing a setComponentByPosition with verifyConstraints=False
        wl = []
        for n in cfg.stmt_nodes():
            if n.kind == 'while' and any(isinstance(c, ast.Call) and call_name(c) == 'setComponentByPosition' and
                                         any(k.arg == 'verifyConstraints' for k in c.keywords)
                                         for s in n.ast.body for c in ast.walk(s)):
                wl.append(n)
        if len(wl) != 2:
            raise AnalysisError('expected record and collection component loops in %s, found %d' % (f.short, len(wl)))
        rec = [w for w in wl if any('seenIndices' in norm(s) for s in w.ast.body)]
        col = [w for w in wl if w not in rec]
        if len(rec) != 1 or len(col) != 1:
            raise AnalysisError('record/collection loops not told apart in %s' % f.short)

        def is_req(n):
            """A test whose raising arm is taken exactly when some required component is missing: `not R.issubset(S)`,
            `R.difference(S)` / `R - S` (non-empty), `not R <= S`, alone or as a disjunct; or the positive forms with the
            raise in the other arm."""
            if n.kind != 'test' or 'requiredComponents' not in norm(n.ast.test):
                return False
            rb = _raising_branch(n)
            if rb not in ('true', 'false'):
                return False

            def missing(e):
                """+1: e is truthy iff something is missing; -1: e is truthy iff nothing is missing; 0: neither."""
                if isinstance(e, ast.UnaryOp) and isinstance(e.op, ast.Not):
                    return -missing(e.operand)
                if isinstance(e, ast.Call) and isinstance(e.func, ast.Attribute) and norm(e.func.value).endswith('requiredComponents'):
                    if e.func.attr == 'issubset':
                        return -1
                    if e.func.attr == 'difference':
                        return 1
                if isinstance(e, ast.BinOp) and isinstance(e.op, ast.Sub) and norm(e.left).endswith('requiredComponents'):
                    return 1
                if isinstance(e, ast.Compare) and len(e.ops) == 1 and isinstance(e.ops[0], ast.LtE) and norm(e.left).endswith('requiredComponents'):
                    return -1
                return 0
            t = n.ast.test
            parts = t.values if isinstance(t, ast.BoolOp) and isinstance(t.op, ast.Or) else [t]
            if rb == 'true':
                return any(missing(v) == 1 for v in parts)
            return len(parts) == 1 and missing(t) == -1
        reqs = [n for n in cfg.stmt_nodes() if is_req(n)]
        ok = bool(reqs) and not _feasible_with(cfg, rec[0], Y, reqs, {'namedTypes': True})
        ctx.ob('C10.req', f, 'record exit: required components present (schema with components)', ok,
               'required-components tests: %s' % [r.text()[:60] for r in reqs], node=reqs[0].ast if reqs else rec[0].ast)

        def is_cons(n):
            if n.kind != 'test' or _raising_branch(n) != 'true':
                return False
            t = n.ast.test
            if not isinstance(t, ast.Name):
                return 'isInconsistent' in norm(t)
            defs = [s for s in stmts_of(f.node) if isinstance(s, ast.Assign) and any(
                isinstance(x, ast.Name) and x.id == t.id for x in s.targets)]
            return bool(defs) and all(norm(d.value).endswith('.isInconsistent') for d in defs)
        cons = [n for n in cfg.stmt_nodes() if is_cons(n)]
        for name, w, assume in (('record', rec[0], {'namedTypes': True}), ('record without declared components', rec[0], {'namedTypes': False}),
                                ('collection', col[0], {})):
            bad = _feasible_with(cfg, w, Y, cons, assume)
            ctx.ob('C10.cons', f, '%s exit: isInconsistent -> raise before the value is returned' % name, not bad,
                   'constraint tests: %s; %s' % ([c.text()[:40] for c in cons],
                                                 'the result can be yielded without passing one' if bad else 'on every path'),
                   node=w.ast)


# ===================================================================== C13

def rule_c13(ctx):
    """Tag algebra shape (this is also what the constant evaluator's tag model assumes)."""
    tagm = ctx.mod('type.tag')
    env = ctx.ev.module_env(tagm)
    TS = ctx.cls('type.tag.TagSet')
    TG = ctx.cls('type.tag.Tag')
    # ---- tagExplicitly
    f = ctx.func('type.tag.TagSet.tagExplicitly')
    cfg = ctx.cfg(f)
    par = f.params()[1]
    raises = [n for n in cfg.stmt_nodes() if n.kind == 'raisestmt']
    ok_r = False
    for r in raises:
        for b, lab in cfg.control_deps(r):
            if b.kind == 'test' and isinstance(b.ast.test, ast.Compare) and norm(b.ast.test.left) == '%s.tagClass' % par \
                    and isinstance(b.ast.test.ops[0], ast.Eq) and lab == 'true':
                v = ctx.ev.eval(tagm, b.ast.test.comparators[0], env)
                ok_r = (v == 0)
    ctx.ob('C13.expl', f, 'UNIVERSAL class refused', ok_r, 'raise guarded by `%s.tagClass == <universal>`: %s' % (par, ok_r))
    rets = [n for n in cfg.stmt_nodes() if n.kind == 'return']
    rd = reaching_defs(cfg, f.params())
    ok = bool(rets)
    det = []
    for r in rets:
        v = r.ast.value
        if not (isinstance(v, ast.BinOp) and isinstance(v.op, ast.Add) and norm(v.left) == 'self' and isinstance(v.right, ast.Name)):
            ok = False
            det.append('return is not `self + <tag>`')
            continue
        for d in rd[r].get(v.right.id, ()):
            if d is cfg.entry:
                # the parameter itself reaches the return only when its format already is constructed
                guard = [t for t in cfg.stmt_nodes() if t.kind == 'test' and isinstance(t.ast.test, ast.Compare) and
                         norm(t.ast.test.left) == '%s.tagFormat' % par and isinstance(t.ast.test.ops[0], ast.NotEq) and
                         ctx.ev.eval(tagm, t.ast.test.comparators[0], env) == 0x20 and
                         any(isinstance(s, ast.Assign) and norm(s.targets[0]) == par for s in t.ast.body)]
                if not guard:
                    ok = False
                    det.append('the tag passed in can be appended with a primitive format')
            else:
                val = d.ast.value
                good = (isinstance(val, ast.Call) and ctx.prog.resolve_expr(tagm, val.func) is TG and len(val.args) == 3 and
                        norm(val.args[0]) == '%s.tagClass' % par and norm(val.args[2]) == '%s.tagId' % par and
                        ctx.ev.eval(tagm, val.args[1], env) == 0x20)
                if not good:
                    ok = False
                    det.append('rebuilt tag `%s` is not (class, CONSTRUCTED, id) of the argument' % norm(val))
    ctx.ob('C13.expl', f, 'result = receiver + one constructed tag with the argument\'s class and number', ok, '; '.join(det) or 'ok')
    # ---- tagImplicitly
    f = ctx.func('type.tag.TagSet.tagImplicitly')
    cfg = ctx.cfg(f)
    par = f.params()[1]
    rd = reaching_defs(cfg, f.params())
    rets = [n for n in cfg.stmt_nodes() if n.kind == 'return']
    ok = bool(rets)
    det = []
    for r in rets:
        v = r.ast.value
        if not (isinstance(v, ast.BinOp) and isinstance(v.op, ast.Add) and norm(v.left) == 'self[:-1]' and isinstance(v.right, ast.Name)):
            ok = False
            det.append('return is not `self[:-1] + <tag>`')
            continue
        defs = rd[r].get(v.right.id, set())
        rebuilt = [d for d in defs if d is not cfg.entry]
        from sa.cfg import known_at, _literals
        atoms = set(t_ for n_ in cfg.nodes if n_.kind in ('test', 'while') and n_.ast is not None
                    for t_, p_, e_ in _literals(n_.ast.test)[1] if t_.endswith('superTags'))
        if not rebuilt and any(known_at(cfg, r, a_, False, rd) for a_ in atoms):
            continue        # nothing to replace on this path: the receiver has no tag
        if not rebuilt:
            ok = False
            det.append('format of the replaced tag is never carried over')
        for d in rebuilt:
            val = d.ast.value
            good = (isinstance(val, ast.Call) and ctx.prog.resolve_expr(tagm, val.func) is TG and len(val.args) == 3 and
                    norm(val.args[0]) == '%s.tagClass' % par and norm(val.args[2]) == '%s.tagId' % par and
                    norm(val.args[1]).endswith('superTags[-1].tagFormat'))
            if not good:
                ok = False
                det.append('rebuilt tag `%s` does not keep the replaced tag\'s format with the argument\'s class/number' % norm(val))
            deps = [(norm(b.ast.test), lab) for b, lab in cfg.control_deps(d) if b.kind == 'test']
            if not any(t.endswith('superTags') and lab == 'true' for t, lab in deps) and \
                    not any(known_at(cfg, d, a_, True, rd) for a_ in atoms):
                ok = False
                det.append('format carry-over is not conditional on the receiver having a tag')
    ctx.ob('C13.impl', f, 'result = receiver minus last + (arg class, replaced format, arg number)', ok, '; '.join(det) or 'ok')
    # ---- comparison keys
    init = ctx.func('type.tag.TagSet.__init__')
    txt = [norm(s) for s in init.node.body]
    keydef = [t for t in txt if 'superTagsClassId =' in t]
    ok = bool(keydef) and 'tagClass' in keydef[0] and 'tagId' in keydef[0] and 'for' in keydef[0] and 'in superTags' in keydef[0]
    ctx.ob('C13.cmp', init, 'comparison key covers class and number of every super tag', ok, keydef[0] if keydef else 'not found')
    hashdef = [t for t in txt if t.startswith('self.__hash =')]
    ctx.ob('C13.cmp', init, 'hash derives from the comparison key', bool(hashdef) and 'superTagsClassId' in hashdef[0],
           hashdef[0] if hashdef else 'not found')
    for opn in ('__eq__', '__ne__', '__lt__', '__le__', '__gt__', '__ge__'):
        m = TS.method(opn)
        body = [s for s in m.node.body if not (isinstance(s, ast.Expr) and isinstance(s.value, ast.Constant))]
        ok = len(body) == 1 and isinstance(body[0], ast.Return) and isinstance(body[0].value, ast.Compare) and \
            norm(body[0].value.left).endswith('superTagsClassId') and norm(body[0].value.comparators[0]) == m.params()[1]
        ctx.ob('C13.cmp', m, 'compares the (class, number) key', ok, norm(body[0]) if body else '')
    tinit = ctx.func('type.tag.Tag.__init__')
    ttxt = [norm(s) for s in tinit.node.body]
    ok = any(t.replace(' ', '') == 'self.__tagClassId=(tagClass,tagId)' for t in ttxt)
    ctx.ob('C13.cmp', tinit, 'Tag comparison key is (class, number)', ok, [t for t in ttxt if 'ClassId' in t])
    # ---- model facts used by the evaluator
    add = TS.method('__add__')
    radd = TS.method('__radd__')
    def built(m):
        # the argument list of the `self.__class__(...)` the operator returns (star-args flattened by the loader)
        for r in walk_own(m.node):
            if isinstance(r, ast.Return) and isinstance(r.value, ast.Call) and norm(r.value.func) == 'self.__class__' and not r.value.keywords:
                return [('*' + norm(a.value)) if isinstance(a, ast.Starred) else norm(a) for a in r.value.args]
        return None
    pa, pr = add.params()[1], radd.params()[1]
    ok = built(add) == ['self.__baseTag', '*self.__superTags', pa] and built(radd) == ['self.__baseTag', pr, '*self.__superTags']
    ctx.ob('C13.model', add, '`+` appends (outermost last), reflected `+` prepends, base tag kept', ok, '')
    gi = TS.method('__getitem__')
    ok = 'self.__class__(self.__baseTag, *self.__superTags[i])' in norm(gi.node) and 'self.__superTags[i]' in norm(gi.node)
    ctx.ob('C13.model', gi, 'slicing keeps the base tag; indexing returns the i-th super tag', ok, '')
    it = ctx.func('type.tag.initTagSet')
    ok = any(isinstance(s, ast.Return) and norm(s.value) == 'TagSet(%s, %s)' % (it.params()[0], it.params()[0]) for s in it.node.body)
    ctx.ob('C13.model', it, 'initTagSet(t) = TagSet(t, t)', ok, '')
    # ---- subtype() routes the tagging options
    for q in ('type.base.SimpleAsn1Type.subtype', 'type.base.ConstructedAsn1Type.subtype'):
        f = ctx.func(q)
        txt = [norm(s) for s in stmts_of(f.node)]
        ok = ("initializers['tagSet'] = self.tagSet.tagImplicitly(implicitTag)" in txt and
              "initializers['tagSet'] = self.tagSet.tagExplicitly(explicitTag)" in txt and
              "implicitTag = kwargs.pop('implicitTag', None)" in txt and "explicitTag = kwargs.pop('explicitTag', None)" in txt)
        built = any('self.__class__(' in t and '**initializers' in t for t in txt)
        ctx.ob('C13.sub', f, 'implicitTag/explicitTag reach tagImplicitly/tagExplicitly and the result builds the new object',
               ok and built, 'routes=%s built-from-initializers=%s' % (ok, built))
    # ---- encoder: one header per super tag, base first, prepended
    f = ctx.func('codec.ber.encoder.AbstractItemEncoder.encode')
    aliases = set(['tagSet.superTags'])
    for a_ in walk_own(f.node):
        if isinstance(a_, ast.Assign) and len(a_.targets) == 1 and isinstance(a_.targets[0], ast.Name) and norm(a_.value) == 'tagSet.superTags':
            aliases.add(a_.targets[0].id)

    def tag_var(lp_):
        # the loop variable that walks the super tags: `for t in S`, `for i, t in enumerate(S)`, `for t, m in zip(S, M)`
        it = lp_.iter
        if norm(it) in aliases:
            return lp_.target
        if isinstance(it, ast.Call) and norm(it.func) == 'enumerate' and it.args and norm(it.args[0]) in aliases and \
                isinstance(lp_.target, ast.Tuple) and len(lp_.target.elts) == 2:
            return lp_.target.elts[1]
        if isinstance(it, ast.Call) and norm(it.func) == 'zip' and isinstance(lp_.target, ast.Tuple) and len(lp_.target.elts) == len(it.args):
            for k_, x_ in enumerate(it.args):
                if norm(x_) in aliases:
                    return lp_.target.elts[k_]
        return None
    loops = [n for n in walk_own(f.node) if isinstance(n, ast.For) and tag_var(n) is not None]
    ok = len(loops) == 1
    det = 'loop over the super tags: %d' % len(loops)
    if ok:
        lp = loops[0]
        ets = [c for c in ast.walk(lp) if isinstance(c, ast.Call) and norm(c.func) == 'self.encodeTag']
        pre = [s for s in ast.walk(lp) if isinstance(s, ast.Assign) and norm(s.targets[0]) == 'substrate' and
               isinstance(s.value, ast.BinOp) and isinstance(s.value.op, ast.Add) and norm(s.value.right) == 'substrate'
               and 'header' in norm(s.value.left)]
        top = [s for s in lp.body if any(c in ast.walk(s) for c in ets)]
        ok = len(ets) == 1 and len(pre) >= 1 and len(top) == 1 and not isinstance(top[0], (ast.If, ast.For, ast.While)) \
            and norm(ets[0].args[0]) == norm(tag_var(lp))
        if ok:
            # every path from the identifier to the next iteration prepends the header (however the arms are arranged)
            cfg = ctx.cfg(f)
            tnode = cfg.node_of[top[0]]
            ok = cfg.node_of[lp] not in cfg.reachable(tnode, avoid=[cfg.node_of[p_] for p_ in pre])
        det = 'encodeTag calls=%d (unconditional: %s), header prepended in %d place(s), on every path: %s' % (
            len(ets), bool(top) and not isinstance(top[0], ast.If), len(pre), ok)
    ctx.ob('C13.enc', f, 'exactly one identifier per super tag, each header prepended', ok, det)
    # ---- decoder: spec accepted only on tag equality / tag-map membership
    f = ctx.func('codec.ber.decoder.SingleItemDecoder.__call__')
    tests = [n for n in walk_own(f.node) if isinstance(n, ast.If) and norm(n.test) == 'tagSet == asn1Spec.tagSet or tagSet in asn1Spec.tagMap']
    ok = len(tests) == 1 and any(norm(s) == 'chosenSpec = asn1Spec' for s in tests[0].body) and \
        any(norm(s) == 'chosenSpec = None' for s in ast.walk(tests[0]) if isinstance(s, ast.Assign))
    ctx.ob('C13.dec', f, 'guiding type accepted only when the recovered tags equal its tags or are in its tag map', ok, '')


# ===================================================================== C14

def rule_c14(ctx):
    """Constraint funnel, derivation, encoder refusal."""
    # who-may-write _value
    writers = []
    for f in ctx.prog.all_functions():
        for n in walk_own(f.node):
            tg = []
            if isinstance(n, ast.Assign):
                tg = n.targets
            elif isinstance(n, (ast.AugAssign, ast.AnnAssign)):
                tg = [n.target]
            for t in tg:
                for x in ast.walk(t):
                    if isinstance(x, ast.Attribute) and x.attr == '_value' and isinstance(x.ctx, ast.Store):
                        writers.append((f, n))
            if isinstance(n, ast.Call) and call_name(n) == 'setattr' and len(n.args) >= 2 and \
                    isinstance(n.args[1], ast.Constant) and n.args[1].value == '_value':
                writers.append((f, n))
            if isinstance(n, ast.Subscript) and isinstance(n.ctx, ast.Store) and norm(n.value).endswith('__dict__') and \
                    isinstance(n.slice, ast.Constant) and n.slice.value == '_value':
                writers.append((f, n))
    for f, n in writers:
        ctx.ob('C14.funnel', f, 'store to _value', f.short == 'type.base.SimpleAsn1Type.__init__',
               'the payload of a scalar may only be stored by SimpleAsn1Type.__init__ (after the constraint call)', node=n)
    if not writers:
        raise AnalysisError('no store to _value found at all')
    init = ctx.func('type.base.SimpleAsn1Type.__init__')
    cfg = ctx.cfg(init)
    store = [n for n in cfg.stmt_nodes() if n.kind == 'stmt' and norm(n.ast) == 'self._value = value']
    vpar = init.params()[1]
    spec = [n for n in cfg.stmt_nodes() if n.kind == 'stmt' and norm(n.ast) == 'self.subtypeSpec(%s)' % vpar]
    pin = [n for n in cfg.stmt_nodes() if n.kind == 'stmt' and norm(n.ast) == '%s = self.prettyIn(%s)' % (vpar, vpar)]
    ok = len(store) == 1 and len(spec) == 1 and len(pin) == 1
    det = 'store/spec/prettyIn statements: %d/%d/%d' % (len(store), len(spec), len(pin))
    if ok:
        # every path to the store passes either the constraint call (after normalisation) or the `value is noValue` arm
        t = [n for n in cfg.stmt_nodes() if n.kind == 'test' and norm(n.ast.test) == '%s is noValue' % vpar]
        ok = bool(t) and cfg.dominates(pin[0], spec[0]) and not _feasible_with(cfg, cfg.entry, store[0], spec, {'%s is noValue' % vpar: False})
        # the constraint call is in a try whose handler re-raises
        tr = [a for a in ancestors(spec[0].ast, init.node) if isinstance(a, ast.Try)]
        ok = ok and bool(tr) and all(any(isinstance(s, ast.Raise) for s in h.body) for h in tr[0].handlers)
        det = 'supplied values reach the store only through prettyIn + subtypeSpec(value); handler re-raises'
    ctx.ob('C14.funnel', init, 'constraint call dominates the store on the supplied-value arm', ok, det)
    # overriding __init__ in the scalar hierarchy funnel into it
    root = ctx.cls('type.base.SimpleAsn1Type')
    n_over = 0
    for c in ctx.prog.subclasses(root):
        d = c.own('__init__')
        if c is root or d is None or d[0] != 'func':
            continue
        n_over += 1
        f = d[1]
        cfg = ctx.cfg(f)
        calls = [n for n in cfg.stmt_nodes() if n.kind == 'stmt' and any(
            norm(x.func).endswith('SimpleAsn1Type.__init__') or (norm(x.func).endswith('.__init__') and
            isinstance(ctx.prog.resolve_expr(f.module, x.func), FuncInfo) and
            ctx.prog.resolve_expr(f.module, x.func).cls in c.mro[1:]) for x in _calls_in_node(n))]
        ok = bool(calls) and cfg.exit not in cfg.reachable(cfg.entry, avoid=calls)
        ctx.ob('C14.init', f, 'every normal path calls the base initialiser', ok, 'base __init__ calls: %d' % len(calls))
    if n_over < 3:
        raise AnalysisError('expected __init__ overrides in the scalar hierarchy')
    # clone/subtype build through the class constructor
    for q in ('type.base.SimpleAsn1Type.clone', 'type.base.SimpleAsn1Type.subtype'):
        f = ctx.func(q)
        rets = [r for r in walk_own(f.node) if isinstance(r, ast.Return)]
        ok = all(norm(r.value) in ('self', 'self.__class__(value, **initializers)') for r in rets) and \
            any(norm(r.value) == 'self.__class__(value, **initializers)' for r in rets)
        ctx.ob('C14.init', f, 'new objects are built by the class constructor (so they pass the funnel)', ok,
               [norm(r.value) for r in rets])
    # derivation only extends constraints
    for q in ('type.base.SimpleAsn1Type.subtype', 'type.base.ConstructedAsn1Type.subtype'):
        f = ctx.func(q)
        loops = [n for n in walk_own(f.node) if isinstance(n, ast.For) and norm(n.iter) == 'kwargs.items()']
        ok = len(loops) == 1 and len(loops[0].body) == 1 and isinstance(loops[0].body[0], ast.AugAssign) and \
            isinstance(loops[0].body[0].op, ast.Add) and norm(loops[0].body[0].target) == 'initializers[%s]' % norm(loops[0].target.elts[0])
        ctx.ob('C14.extend', f, 'subtype() adds the given constraints to the inherited ones (+=), never replaces', ok,
               norm(loops[0].body[0]) if loops else 'loop over kwargs not found')
    f = ctx.func('type.base.ConstructedAsn1Type._moveSizeSpec')
    cfg = ctx.cfg(f)
    bad = []
    for n in cfg.stmt_nodes():
        if n.kind == 'stmt' and isinstance(n.ast, ast.Assign) and norm(n.ast.targets[0]) == 'subtypeSpec' and \
                norm(n.ast.value) == 'sizeSpec':
            deps = [(norm(b.ast.test), lab) for b, lab in cfg.control_deps(n) if b.kind == 'test']
            if ('subtypeSpec', 'true') in deps:
                bad.append(n)
    ctx.ob('C14.extend', f, 'a non-empty subtypeSpec is extended by the legacy sizeSpec, not replaced', not bad,
           '`subtypeSpec = sizeSpec` runs exactly when subtypeSpec is non-empty: the declared constraints are dropped' if bad else 'ok',
           node=bad[0].ast if bad else None)
    # encoders refuse inconsistent constructed values
    sites = [('codec.ber.encoder.SequenceEncoder.encodeValue', 'value'), ('codec.ber.encoder.SequenceOfEncoder._encodeComponents', 'value'),
             ('codec.cer.encoder.SetEncoder.encodeValue', 'value'), ('codec.native.encoder.SetEncoder.encode', 'value'),
             ('codec.native.encoder.SequenceOfEncoder.encode', 'value')]
    for q, var in sites:
        f = ctx.func(q)
        cfg = ctx.cfg(f)
        cons = []
        for n in cfg.stmt_nodes():
            if n.kind == 'test' and _raising_branch(n) == 'true' and isinstance(n.ast.test, ast.Name):
                defs = [s for s in stmts_of(f.node) if isinstance(s, ast.Assign) and norm(s.targets[0]) == n.ast.test.id]
                if defs and all(norm(d.value) == '%s.isInconsistent' % var for d in defs):
                    cons.append(n)
        encs = [n for n in cfg.stmt_nodes() if any(isinstance(c.func, ast.Name) and c.func.id == 'encodeFun' for c in _calls_in_node(n))]
        if not encs:
            raise AnalysisError('no encodeFun call in %s' % f.short)
        # value arm = asn1Spec is None (native encoders have no schema arm)
        assume = {'asn1Spec is None': True} if 'native' not in q else {}
        bad = [e for e in encs if _feasible_with(cfg, cfg.entry, e, cons, assume)]
        # restrict to encodeFun calls that encode components of `value` (value arm)
        ctx.ob('C14.enc', f, 'value arm: isInconsistent -> raise before any component is encoded', bool(cons) and not bad,
               'constraint tests %d; %s' % (len(cons), 'component encoding reachable without it' if bad or not cons else 'dominates every component encoding'))
        # ... and before the encoder returns at all (an empty container can violate a SIZE constraint too)
        rets = [n for n in cfg.stmt_nodes() if isinstance(n.ast, ast.Return)]
        early = [r for r in rets if _feasible_with(cfg, cfg.entry, r, cons, assume)]
        ctx.ob('C14.enc', f, 'value arm: no return before the isInconsistent test', bool(cons) and not early,
               '`%s` is reachable without the consistency test: a value that violates its constraints without having components '
               '(an empty SET SIZE(1..3) OF) is encoded' % early[0].text()[:50] if early else 'every return follows the test')
    # derived constraint sets remember what they were derived from
    for opn in ('__add__', '__radd__'):
        f = ctx.func('type.constraint.AbstractConstraintSet.%s' % opn)
        bodies = [f]
        for c in walk_own(f.node):
            if isinstance(c, ast.Call) and isinstance(c.func, ast.Attribute) and norm(c.func.value) == 'self':
                h = f.cls.method(c.func.attr)
                if h is not None:
                    bodies.append(h)
        members = any('self._values' in norm(r.value) for g in bodies for r in walk_own(g.node) if isinstance(r, ast.Return)) or \
            any('self.__class__(*' in norm(n) for g in bodies for n in walk_own(g.node) if isinstance(n, ast.Call))
        recorded = False
        ancestry = False
        for g in bodies:
            rets = [norm(r.value) for r in walk_own(g.node) if isinstance(r, ast.Return) and r.value is not None]
            for n in walk_own(g.node):
                if isinstance(n, ast.Call) and norm(n.func).endswith('._valueMap.add') and len(n.args) == 1 and norm(n.args[0]) == 'self' \
                        and norm(n.func.value.value) in rets:
                    recorded = True
                if isinstance(n, ast.Call) and norm(n.func) == 'self.__class__' and any(norm(a) == 'self' for a in n.args):
                    recorded = True
                    ancestry = True
                if isinstance(n, ast.Call) and norm(n.func).endswith('._valueMap.update') and len(n.args) == 1 and \
                        norm(n.args[0]) in ('self._valueMap', 'self.getValueMap()') and norm(n.func.value.value) in rets:
                    ancestry = True
        rets_ok = all(isinstance(r.value, ast.Call) and any(isinstance(x, ast.Name) and x.id == f.params()[1] for x in ast.walk(r.value))
                      for r in walk_own(f.node) if isinstance(r, ast.Return))
        ctx.ob('C14.vmap', f, 'every result of adding a constraint contains that constraint', rets_ok,
               'a return path hands back a set without the added constraint (the derived type silently loses it)' if not rets_ok else 'ok')
        ctx.ob('C14.vmap', f, 'derived set keeps the member constraints and records the set it was derived from',
               members and recorded, 'members carried over: %s; receiver recorded in the derived set\'s value map: %s' % (members, recorded))
        ctx.ob('C14.vmap', f, 'derived set inherits the ancestry of the set it was derived from', ancestry,
               'the receiver\'s own value map is not carried over: a type derived in two steps is not recognised by its grandparent'
               if not ancestry else 'value map of the receiver carried over')
    f = ctx.func('type.constraint.AbstractConstraintSet._setValues')
    txt = norm(f.node)
    ok = 'self._valueMap.add(constraint)' in txt and 'self._valueMap.update(constraint.getValueMap())' in txt
    ctx.ob('C14.vmap', f, 'value map records every member constraint and what those were derived from', ok, '')
    for q, needle in (('type.constraint.AbstractConstraint.isSuperTypeOf', 'self in otherConstraint.getValueMap()'),
                      ('type.constraint.AbstractConstraint.isSubTypeOf', 'otherConstraint in self._valueMap')):
        g = ctx.func(q)
        ctx.ob('C14.vmap', g, 'subtype test consults the value map', needle in norm(g.node), needle)


# ===================================================================== C17

def rule_c17_contra(ctx):
    """A4.contra: no membership test of key k in m that is dominated by m[k] under a raising KeyError handler."""
    for f, lp, arm in _record_loops(ctx):
        if arm != 'python':
            continue
        cfg = ctx.cfg(f)
        lookups = []
        for n in cfg.stmt_nodes():
            if n.kind == 'stmt' and isinstance(n.ast, ast.Assign) and isinstance(n.ast.value, ast.Subscript) and n.loop is cfg.node_of[lp]:
                tr = [a for a in ancestors(n.ast, f.node) if isinstance(a, ast.Try)]
                if tr and any(h.type is not None and 'KeyError' in norm(h.type) and any(isinstance(s, ast.Raise) for s in h.body)
                              for h in tr[0].handlers):
                    lookups.append(n)
        if not lookups:
            raise AnalysisError('python-arm member lookup not found in %s' % f.short)
        L = lookups[0]
        m, k = norm(L.ast.value.value), norm(L.ast.value.slice)
        tests = [n for n in cfg.stmt_nodes() if n.kind == 'test' and ('%s not in %s' % (k, m)) in norm(n.ast.test)]
        if not tests:
            ctx.ob('A4.contra', f, 'python arm: absent OPTIONAL member is skipped', False,
                   'no `%s not in %s` test: absent OPTIONAL members cannot be skipped' % (k, m), node=lp)
            continue
        for t in tests:
            dead = cfg.dominates(L, t)
            ctx.ob('A4.contra', f, 'python arm: `%s not in %s` is satisfiable where it is tested' % (k, m), not dead,
                   'the test is dominated by `%s`, whose KeyError handler raises: it can only be false there '
                   '(absent OPTIONAL members are refused)' % norm(L.ast) if dead else 'tested before the raising lookup', node=t.ast)
            ctx.ob('A4.contra', f, 'python arm: OPTIONAL-absent skip precedes the raising lookup', cfg.dominates(t, L),
                   'test dominates lookup: %s' % cfg.dominates(t, L), node=t.ast)


# ===================================================================== A6 siblings

def _spec_chain(f, loopnode, target):
    """The if/elif chain assigning the per-component spec variable `target` at the top of a record loop:
    list of (guard text, [assigned expr texts])."""
    for s in loopnode.body:
        if isinstance(s, ast.If):
            assigned = [n for n in ast.walk(s) if isinstance(n, ast.Assign) and norm(n.targets[0]) == target]
            if assigned:
                arms, orelse = if_chain(s)
                out = []
                for test, body in arms:
                    vals = sorted(set(norm(n.value) for b in body for n in ast.walk(b) if isinstance(n, ast.Assign) and norm(n.targets[0]) == target))
                    out.append((norm(test), vals))
                vals = sorted(set(norm(n.value) for b in orelse for n in ast.walk(b) if isinstance(n, ast.Assign) and norm(n.targets[0]) == target))
                out.append(('else', vals))
                return out
    return None


def rule_a6_spec(ctx):
    """A6.spec: definite and indefinite record loops select the per-component type the same way."""
    fd = ctx.func('codec.ber.decoder.ConstructedPayloadDecoderBase.valueDecoder')
    fi = ctx.func('codec.ber.decoder.ConstructedPayloadDecoderBase.indefLenValueDecoder')

    def recloop(f):
        ws = [n for n in walk_own(f.node) if isinstance(n, ast.While) and any('seenIndices.add' in norm(s) for s in n.body)]
        if len(ws) != 1:
            raise AnalysisError('record loop not found in %s' % f.short)
        return ws[0]
    def preamble(f):
        out = {}
        lp = recloop(f)
        for n in walk_own(f.node):
            if isinstance(n, ast.Assign) and len(n.targets) == 1 and isinstance(n.targets[0], ast.Name) and \
                    n.targets[0].id in ('namedTypes', 'isSetType', 'isDeterministic') and n.lineno < lp.lineno:
                out[n.targets[0].id] = norm(n.value).replace('asn1Object.', 'asn1Spec.')
        return out
    pd_, pi_ = preamble(fd), preamble(fi)
    ctx.ob('A6.spec', fi, 'record kind flags (namedTypes / isSetType / isDeterministic) are computed as in the definite-length loop',
           pd_ == pi_ and len(pd_) == 3, 'definite: %s | indefinite: %s' % (pd_, pi_))

    def reqtest(f):
        return sorted(norm(n.test) for n in walk_own(f.node) if isinstance(n, ast.If) and 'requiredComponents' in norm(n.test))
    ctx.ob('A6.spec', fi, 'required-components test is the same as in the definite-length loop', reqtest(fd) == reqtest(fi),
           'definite: %s | indefinite: %s' % (reqtest(fd), reqtest(fi)))
    # ---- per-component type selection and position update, compared as decision tables (sa/dtable.py): every
    # valuation of the atomic conditions -> the expression the component spec / the position ends up with
    from sa import dtable
    L_ATOM = 'len(namedTypes) <= idx'

    def regions(f, specvar):
        lp = recloop(f)
        k = [i for i, s_ in enumerate(lp.body) if isinstance(s_, ast.For) and isinstance(s_.iter, ast.Call) and
             call_name(s_.iter) == 'decodeFun']
        if len(k) != 1:
            raise AnalysisError('component decode loop not found in the record loop of %s' % f.short)
        pre, post = lp.body[:k[0]], lp.body[k[0] + 1:]
        call = lp.body[k[0]].iter
        sv = None
        if len(call.args) >= 2 and isinstance(call.args[1], ast.Name):
            sv = call.args[1].id
        for kw_ in call.keywords:
            if kw_.arg == 'asn1Spec' and isinstance(kw_.value, ast.Name):
                sv = kw_.value.id
        regions.specvar[f.short] = sv or specvar
        cut = [i for i, s_ in enumerate(post) if any(isinstance(c, ast.Call) and call_name(c) == 'setComponentByPosition' for c in ast.walk(s_))]
        if not cut:
            raise AnalysisError('component store not found in the record loop of %s' % f.short)
        # statements before the decode loop that only concern the end-of-octets probe / excess test are not part of
        # the selection; keep everything, the table ignores what does not assign the targets
        return pre, post[:cut[0]]
    regions.specvar = {}
    try:
        pre_d, post_d = regions(fd, 'componentType')
        pre_i, post_i = regions(fi, 'asn1Spec')
        sd_, si_ = regions.specvar[fd.short], regions.specvar[fi.short]     # the variable handed to decodeFun as the spec
        al_d = dtable.single_aliases(recloop(fd).body, exclude=(sd_, 'idx', 'component'))
        al_i = dtable.single_aliases(recloop(fi).body, exclude=(si_, 'idx', 'component'))
        td, ad = dtable.table(pre_d, {sd_}, rename={sd_: 'spec'}, aliases=al_d)
        ti, ai = dtable.table(pre_i, {si_}, rename={si_: 'spec'}, aliases=al_i)
        ud, aud = dtable.table(post_d, {'idx'}, aliases=al_d)
        ui, aui = dtable.table(post_i, {'idx'}, aliases=al_i)
    except dtable.Unknown as x:
        raise AnalysisError('record loop selection region not understood: %s' % x)

    def cmp_tables(t1, a1, t2, a2, what):
        common = sorted(set(a1) | set(a2))
        bad = []
        for key2, r2 in t2.items():
            if L_ATOM in key2 and 'isSetType' not in key2 and 'namedTypes' in key2:
                continue        # all components seen (SEQUENCE): the indefinite loop expects end-of-octets here
            if 'jump' in r2 or 'raise' in r2:
                continue        # exits of the indefinite form only (end-of-octets reached, excess component)
            for key1, r1 in t1.items():
                if all((a in key1) == (a in key2) for a in common if a in a1 and a in a2):
                    x1 = dict((k, v) for k, v in r1.items() if k in ('spec', 'idx'))
                    x2 = dict((k, v) for k, v in r2.items() if k in ('spec', 'idx'))
                    if x1 != x2:
                        bad.append((sorted(key2), x1, x2))
        return bad
    bad = cmp_tables(td, ad, ti, ai, 'spec')
    ctx.ob('A6.spec', fi, 'component-type selection agrees with the definite-length loop (decision tables)', not bad,
           'under %s the definite loop selects %s, the indefinite loop %s' % bad[0] if bad else
           '%d x %d valuations agree (atoms: %s)' % (len(td), len(ti), sorted(set(ad) | set(ai))))
    # the "all components seen" arm must not capture SET members (looked up by tag in any position) nor the schema-less case
    leak = [sorted(k) for k, r in ti.items() if L_ATOM in k and 'isSetType' in k and 'namedTypes' in k and
            r.get('spec') == 'None']
    if L_ATOM in ai:
        ctx.ob('A6.spec', fi, '"all components seen" arm is tried after the schema-less and SET arms', not leak,
               'for a SET (%s) the member spec is None once idx passed the last position: members after the last-declared '
               'one are decoded without their schema' % leak[0] if leak else 'SET members keep tagMapUnique at any position')
    bad = cmp_tables(ud, aud, ui, aui, 'idx')
    ctx.ob('A6.spec', fi, 'component position update agrees with the definite-length loop', not bad,
           'under %s the definite loop sets %s, the indefinite loop %s' % bad[0] if bad else
           '%d x %d valuations agree (atoms: %s)' % (len(ud), len(ui), sorted(set(aud) | set(aui))))
    # both variants store with the same flags
    def stores(f):
        lp = recloop(f)
        return sorted(norm(c) for s in lp.body for c in ast.walk(s) if isinstance(c, ast.Call) and call_name(c) == 'setComponentByPosition')
    ctx.ob('A6.spec', fi, 'components stored with the same call', stores(fd) == stores(fi), '%s | %s' % (stores(fd), stores(fi)))


def rule_a6_record_arms(ctx):
    """A6.arms: value arm and python arm of each record encoder take the same OPTIONAL/DEFAULT/open-type actions."""
    loops = _record_loops(ctx)
    byf = {}
    for f, lp, arm in loops:
        byf.setdefault(f, {})[arm] = lp
    for f, arms in byf.items():
        def actions(lp):
            acts = set()
            for n in ast.walk(lp):
                if isinstance(n, ast.If):
                    t = norm(n.test)
                    if 'isOptional' in t and any(isinstance(s, ast.Continue) for s in n.body):
                        acts.add('skip-optional')
                    if 'isDefaulted' in t and any(isinstance(s, ast.Continue) for s in n.body):
                        acts.add('skip-default')
                    if 'openType' in t:
                        acts.add('open-type')
                    if t == 'omitEmptyOptionals':
                        acts.add('omit-empty')
                if isinstance(n, ast.Call) and norm(n.func) == 'options.update' and any(k.arg == 'ifNotEmpty' for k in n.keywords):
                    acts.add('ifNotEmpty')
            return acts
        av, ap = actions(arms['value']), actions(arms['python'])
        ctx.ob('A6.arms', f, 'value arm and python arm take the same OPTIONAL/DEFAULT/open-type actions', av == ap,
               'value arm: %s | python arm: %s' % (sorted(av), sorted(ap)))


# ===================================================================== A7.unit / A7.nested

def rule_a7_unit(ctx):
    """A7.unit: the chunking loop slices the same (octet-level) object whose length decided that chunking is needed."""
    f = ctx.func('codec.ber.encoder.OctetStringEncoder.encodeValue')
    guards = [n for n in walk_own(f.node) if isinstance(n, ast.If) and 'maxChunkSize' in norm(n.test) and 'len(' in norm(n.test)]
    if len(guards) != 1:
        raise AnalysisError('chunk-size guard not found in %s' % f.short)
    measured = [norm(c.args[0]) for c in ast.walk(guards[0].test) if isinstance(c, ast.Call) and call_name(c) == 'len']
    loops = [n for n in walk_own(f.node) if isinstance(n, ast.While)]
    sliced = []
    for lp in loops:
        for n in ast.walk(lp):
            if isinstance(n, ast.Subscript) and isinstance(n.slice, ast.Slice) and 'maxChunkSize' in norm(n.slice):
                sliced.append(n)
    if len(sliced) != 1 or len(measured) != 1:
        raise AnalysisError('chunk slice / measured object not recognised in %s' % f.short)
    s = sliced[0]
    base = norm(s.value)
    # what does the measured name hold: octets on every path?
    mdefs = [n.value for n in walk_own(f.node) if isinstance(n, ast.Assign) and norm(n.targets[0]) == measured[0] and n.lineno < guards[0].lineno]
    octet_level = all(norm(d).endswith('.asOctets()') or norm(d) == 'value' for d in mdefs)
    same = base == measured[0]
    sdefs = [n.value for n in walk_own(f.node) if isinstance(n, ast.Assign) and norm(n.targets[0]) == base and n.lineno < s.lineno]
    alias = bool(sdefs) and all(norm(d) == measured[0] or norm(d).endswith('.asOctets()') for d in sdefs) and base != 'value'
    ok = octet_level and (same or alias)
    ctx.ob('A7.unit', f, 'chunks are slices of the octets that were measured against maxChunkSize', ok,
           'the decision to chunk measures len(%s) (octets), the loop slices `%s` (%s): for a character string with multi-octet '
           'characters a slice of N characters is longer than N octets and is chunked again, without end' % (
               measured[0], base, 'the character-level value' if base == 'value' else '?') if not ok else 'same object', node=s)
    # stride equals window
    incs = [n for lp in loops for n in ast.walk(lp) if isinstance(n, ast.AugAssign) and isinstance(n.op, ast.Add) and
            isinstance(s.slice.lower, ast.Name) and norm(n.target) == norm(s.slice.lower)]
    win = norm(s.slice.upper).replace(norm(s.slice.lower) + ' + ', '') if s.slice.upper is not None else '?'
    ok = len(incs) == 1 and norm(incs[0].value) == win
    ctx.ob('A7.unit', f, 'chunk window advances by its own width', ok, 'window %s, stride %s' % (win, [norm(i.value) for i in incs]), node=s)
    # BIT STRING: window in bits = maxChunkSize * 8, next start = previous stop
    f = ctx.func('codec.ber.encoder.BitStringEncoder.encodeValue')
    src = [norm(x) for x in stmts_of(f.node)]
    ok = 'start = stop' in src and 'stop = min(start + maxChunkSize * 8, valueLength)' in src and \
        any('alignedValue[start:stop]' in x for x in src) and any(x.startswith('while stop < valueLength') for x in src)
    ctx.ob('A7.unit', f, 'bit chunks: contiguous windows of maxChunkSize * 8 bits up to the value length', ok, '')


def rule_a7_nested(ctx):
    """A7.nested: string reassembly recurses into constructed segments (in both length forms)."""
    D = 'codec.ber.decoder.'
    for cls in ('OctetStringPayloadDecoder', 'BitStringPayloadDecoder'):
        for meth in ('valueDecoder', 'indefLenValueDecoder'):
            f = ctx.func(D + cls + '.' + meth)
            first = [s for s in f.node.body if isinstance(s, ast.If)][0]
            t = norm(first.test)
            captures = any(isinstance(x, ast.Call) and norm(x.func) == 'substrateFun' for x in ast.walk(first))
            if not captures:
                raise AnalysisError('raw-capture prologue not found in %s' % f.short)
            own = 'substrateFun is not self.substrateCollector' in t
            # alternatively the primitive form may be captured raw for the own collector
            prim = 'tagFormatSimple' in t
            ctx.ob('A7.nested', f, 'raw capture is not taken for the decoder\'s own collector on constructed segments', own or prim,
                   'the prologue `if %s:` hands the contents of ANY segment to the collector, including constructed ones: a nested '
                   'constructed segment comes back as its raw inner TLVs (headers included) instead of its reassembled value' % t
                   if not (own or prim) else 'guard `%s`' % t, node=first)


def rule_a6_optdef(ctx):
    """A6.optdef: wherever the position logic treats a component as "may be absent", OPTIONAL and DEFAULT are
    treated alike (both may be omitted from an encoding)."""
    sites = []

    def collect(f, by_position=False):
        """Maximal boolean expressions (wherever they stand: a test, a named condition, a returned value) that read
        `.isOptional` / `.isDefaulted`; by_position: only of a component looked up by its position (`namedTypes[idx]`
        or a local bound to such a subscript), which is what the position logic of the decoders does."""
        got = []
        for n in walk_own(f.node):
            if isinstance(n, ast.Attribute) and n.attr in ('isOptional', 'isDefaulted') and isinstance(n.ctx, ast.Load):
                if by_position:
                    b = n.value
                    if isinstance(b, ast.Name):
                        from sa.cfg import reaching_defs
                        cfg = ctx.cfg(f)
                        key = ('rd', f.qualname)
                        if key not in ctx.cache:
                            ctx.cache[key] = reaching_defs(cfg, f.params())
                        st_ = n
                        while not (isinstance(st_, ast.stmt) and st_ in cfg.node_of):
                            st_ = st_.parent
                        defs = ctx.cache[key][cfg.node_of[st_]].get(b.id, set())
                        if not any(isinstance(getattr(d, 'ast', None), ast.Assign) and isinstance(d.ast.value, ast.Subscript) for d in defs):
                            continue
                    elif not isinstance(b, ast.Subscript):
                        continue
                top = n
                while isinstance(getattr(top, 'parent', None), (ast.BoolOp, ast.UnaryOp)):
                    top = top.parent
                if not any(top is x for x in got):
                    got.append(top)
        return got
    per = {}
    for q in ('codec.ber.decoder.ConstructedPayloadDecoderBase.valueDecoder', 'codec.ber.decoder.ConstructedPayloadDecoderBase.indefLenValueDecoder'):
        f = ctx.func(q)
        per[q] = collect(f, by_position=True)
        sites.extend((f, e) for e in per[q])
    nt = ctx.cls('type.namedtype.NamedTypes')
    for name, defs in nt.attrs.items():
        for d in defs:
            if d[0] != 'func':
                continue
            sites.extend((d[1], e) for e in collect(d[1]))
    f = ctx.func('type.univ.SequenceAndSetBase.isValue')
    sites.extend((f, e) for e in collect(f))
    if len(sites) < 6 or not all(per.values()):
        raise AnalysisError('A6.optdef found only %d may-be-absent tests' % len(sites))
    seen = set()
    for f, e in sites:
        t = norm(e)
        if (f.short, t) in seen:
            continue
        seen.add((f.short, t))
        both = '.isOptional' in t and '.isDefaulted' in t
        ctx.ob('A6.optdef', f, t[:80], both,
               'this may-be-absent test looks at only one of isOptional / isDefaulted: DEFAULT components are omitted from encodings '
               'just like absent OPTIONAL ones, so position / completeness logic that forgets one of them mis-places or rejects valid input'
               if not both else 'both kinds considered', node=e)


def rule_a6_open(ctx):
    """A6.open: the open-type resolution pass is the same in the definite and the indefinite record decoder
    (modulo the end-of-octets idiom and logging)."""
    fd = ctx.func('codec.ber.decoder.ConstructedPayloadDecoderBase.valueDecoder')
    fi = ctx.func('codec.ber.decoder.ConstructedPayloadDecoderBase.indefLenValueDecoder')

    def region(f):
        ifs = [n for n in walk_own(f.node) if isinstance(n, ast.If) and norm(n.test) == 'namedTypes.hasOpenTypes']
        if len(ifs) != 1:
            raise AnalysisError('open-type pass not found in %s' % f.short)
        return ifs[0]

    def actions(node):
        acts = []

        def rec(stmts):
            for s in stmts:
                if isinstance(s, ast.If) and is_log_test(s.test):
                    continue
                if isinstance(s, ast.If) and isinstance(s.test, ast.Compare) and isinstance(s.test.ops[0], ast.Is) and \
                        norm(s.test.comparators[0]).endswith('endOfOctets') and all(isinstance(b, ast.Break) for b in s.body):
                    continue
                if isinstance(s, ast.If):
                    acts.append('if ' + norm(s.test))
                    rec(s.body)
                    rec(s.orelse)
                elif isinstance(s, (ast.For, ast.While)):
                    head = norm(s.iter) if isinstance(s, ast.For) else norm(s.test)
                    acts.append('loop ' + head.replace('**dict(options, allowEoo=True)', '**options'))
                    rec(s.body)
                elif isinstance(s, ast.Try):
                    acts.append('try')
                    rec(s.body)
                    for h in s.handlers:
                        acts.append('except ' + norm(h.type))
                        rec(h.body)
                else:
                    acts.append(norm(s).replace('**dict(options, allowEoo=True)', '**options'))
        rec(node.body)
        return sorted(acts)
    ad, ai = actions(region(fd)), actions(region(fi))
    only_d = [a for a in ad if a not in ai]
    only_i = [a for a in ai if a not in ad]
    ctx.ob('A6.open', fi, 'open-type pass takes the same actions as the definite-length decoder', ad == ai,
           'only in the definite variant: %s | only in the indefinite variant: %s' % (only_d[:4], only_i[:4]) if ad != ai
           else '%d actions agree' % len(ad))
    # precedence: caller-supplied map first, then the default map of the component; unknown governing value leaves the raw value
    for f in (fd, fi):
        r = region(f)
        trys = [n for n in ast.walk(r) if isinstance(n, ast.Try)]
        ok = len(trys) == 2 and 'openTypes[governingValue]' in norm(trys[0].body[0]) and \
            any('namedType.openType[governingValue]' in norm(b) for h in trys[0].handlers for b in ast.walk(h) if isinstance(b, ast.Assign)) and \
            any(isinstance(x, ast.Continue) for h in trys[1].handlers for x in ast.walk(h))
        ctx.ob('A6.open', f, 'caller map overrides the default map; unmapped value keeps the raw octets', ok, '')
        gate = [n for n in ast.walk(r) if isinstance(n, ast.If) and norm(n.test) == "openTypes or options.get('decodeOpenTypes', False)"]
        ctx.ob('A6.open', f, 'resolution only when asked for (decodeOpenTypes or a caller map)', len(gate) == 1, '')
