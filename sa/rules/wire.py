"""Wire-format guard predicates compared with X.690 (truth tables over finite octet domains).

Each rule takes a guard (or an if/elif chain of guards) from an anchored function, computes the set of octet /
small-integer values for which it holds with sa.intexpr, and compares that set with the partition X.690
prescribes.  Re-spelling a guard (`< 128`, `<= 0x7f`, `& 0x80 == 0`) does not change the set; moving a boundary does.
"""
import ast
import re
import copy

from sa.model import AnalysisError, norm, walk_own, ancestors
from sa import intexpr, x690
from sa.util import if_chain, raises_in, call_name
from sa.cfg import reaching_defs, node_exprs


def _subst(e, mapping):
    """Copy of expression e with sub-expressions whose normalised text is in `mapping` replaced by Names."""
    class T(ast.NodeTransformer):
        def generic_visit(self, node):
            if isinstance(node, ast.expr) and norm(node) in mapping:
                return ast.Name(id=mapping[norm(node)], ctx=ast.Load())
            return super().generic_visit(node)

        def visit(self, node):
            if isinstance(node, ast.expr) and norm(node) in mapping:
                return ast.Name(id=mapping[norm(node)], ctx=ast.Load())
            return super().visit(node)
    # clone through unparse/parse: a deepcopy would follow the .parent links and copy the whole module tree
    return T().visit(ast.parse(ast.unparse(e), mode='eval').body)


def _resolver(ctx, f, rich=False):
    env = ctx.ev.module_env(f.module)

    def plain(v):
        from sa.consteval import VDict
        if isinstance(v, (int, bool)):
            return v
        if rich and isinstance(v, VDict):
            v = v.d
        if rich and isinstance(v, dict):
            out = {}
            for k, x in v.items():
                if not isinstance(k, (int, bool)) or not isinstance(x, (int, bool)):
                    return None
                out[k] = x
            return out
        if rich and isinstance(v, (tuple, list)) and all(isinstance(x, (int, bool)) for x in v):
            return tuple(v)
        return None

    def res(e):
        if rich and isinstance(e, ast.Attribute) and isinstance(e.value, ast.Name) and e.value.id in ('self', 'cls') and f.cls is not None:
            try:
                _, v = ctx.ev.class_attr(f.cls, e.attr)
                return plain(v)
            except Exception:
                return None
        v = ctx.ev.eval(f.module, e, env, f.cls)
        return plain(v)
    return res


def _chain_sets(ctx, f, ifnode, var_text, domain):
    arms, orelse = if_chain(ifnode)
    remaining = set(domain)
    out = []
    res = _resolver(ctx, f)
    for test, body in arms:
        t = _subst(test, {var_text: '__v'})
        try:
            acc = intexpr.accept_set(t, '__v', remaining, resolver=res)
        except intexpr.NotPure as x:
            raise AnalysisError('guard `%s` in %s is not a pure integer predicate (%s)' % (norm(test), f.short, x))
        out.append((test, body, acc))
        remaining -= acc
    out.append((None, orelse, remaining))
    return out


def _find_if(f, pred):
    hits = [n for n in walk_own(f.node) if isinstance(n, ast.If) and pred(n) and not (
        isinstance(n.parent, ast.If) and n in n.parent.orelse and len(n.parent.orelse) == 1)]
    return hits


def _fmt(s):
    return intexpr.fmt_set(s)


def rule_encode_header(ctx):
    """W.enc: identifier and length octets written by the encoder (X.690 8.1.2.4, 8.1.3.4/5)."""
    f = ctx.func('codec.ber.encoder.AbstractItemEncoder.encodeTag')
    ifs = _find_if(f, lambda n: 'tagId' in norm(n.test) and isinstance(n.test, ast.Compare))
    if len(ifs) != 1:
        raise AnalysisError('low/high tag number guard not found in %s' % f.short)
    sets = _chain_sets(ctx, f, ifs[0], 'tagId', range(0, 400))
    low = set()
    for test, body, acc in sets:
        rets = [r for s in body for r in ast.walk(s) if isinstance(r, ast.Return)]
        if rets and all(isinstance(r.value, ast.Tuple) and len(r.value.elts) == 1 for r in rets):
            low |= acc
    ctx.ob('W.enc', f, 'single identifier octet for tag numbers 0..%d only' % x690.LOW_TAG_MAX, low == set(range(0, 31)),
           'low-tag-number form chosen for {%s}' % _fmt(low), node=ifs[0])
    hi = [n for n in walk_own(f.node) if isinstance(n, ast.Return) and isinstance(n.value, ast.BinOp)]
    lead = None
    for r in hi:
        for x in ast.walk(r.value):
            if isinstance(x, ast.BinOp) and isinstance(x.op, ast.BitOr) and norm(x.left) == 'encodedTag':
                lead = intexpr.ev(x.right, {})
    ctx.ob('W.enc', f, 'high-tag-number form leads with tag number bits 11111', lead == 0x1F, 'leading octet = encodedTag | %r' % lead)
    # continuation octets: 7 bits each, bit 8 set on all but the last
    consts = sorted(set(intexpr.ev(c, {}) for c in ast.walk(ifs[0]) if isinstance(c, ast.Constant) and isinstance(c.value, int)))
    shifts = [norm(n) for n in ast.walk(ifs[0]) if isinstance(n, ast.AugAssign) and isinstance(n.op, ast.RShift)]
    ok = all(s == 'tagId >>= 7' for s in shifts) and len(shifts) >= 2 and 0x7f in consts and 0x80 in consts
    ctx.ob('W.enc', f, 'subsequent octets carry 7 bits, bit 8 marks continuation', ok, 'shifts %s, constants %s' % (shifts, consts))
    # constructed bit
    ok = any(isinstance(n, ast.If) and norm(n.test) == 'isConstructed' and any(
        norm(s) == 'encodedTag |= tag.tagFormatConstructed' for s in n.body) for n in walk_own(f.node))
    ctx.ob('W.enc', f, 'constructed bit set for constructed contents', ok, '')
    # ---- length
    f = ctx.func('codec.ber.encoder.AbstractItemEncoder.encodeLength')
    ifs = _find_if(f, lambda n: isinstance(n.test, ast.Compare) and norm(n.test.left) == 'length')
    if len(ifs) != 1:
        raise AnalysisError('short/long length guard not found in %s' % f.short)
    sets = _chain_sets(ctx, f, ifs[0], 'length', range(0, ctx.scale(70000, 1200000)))
    short = set()
    for test, body, acc in sets:
        if any(isinstance(s, ast.Return) and norm(s.value) in ('(length,)',) for s in body):
            short |= acc
    ctx.ob('W.enc', f, 'short form for lengths 0..127 only', short == set(range(0, 128)),
           'short form chosen for {%s}' % _fmt(short), node=ifs[0])
    ovf = _find_if(f, lambda n: 'substrateLen' in norm(n.test) and raises_in(n.body))
    if len(ovf) != 1:
        raise AnalysisError('length-of-length overflow guard not found')
    acc = intexpr.accept_set(ovf[0].test, 'substrateLen', range(0, 300))
    ctx.ob('W.enc', f, 'at most %d subsequent length octets' % x690.LONG_LENGTH_OCTETS_MAX, acc == set(range(127, 300)),
           'refuses {%s}' % _fmt(acc), node=ovf[0])
    rets = [r for r in walk_own(f.node) if isinstance(r, ast.Return) and isinstance(r.value, ast.BinOp)]
    ok = any(norm(r.value) in ('(128 | substrateLen,) + substrate', '(0x80 | substrateLen,) + substrate') for r in rets)
    ctx.ob('W.enc', f, 'long form: first octet = 0x80 | number of subsequent octets', ok, [norm(r.value) for r in rets])
    sh = [norm(n) for n in walk_own(f.node) if isinstance(n, ast.AugAssign)]
    masks = [norm(n) for n in walk_own(f.node) if isinstance(n, ast.BinOp) and isinstance(n.op, ast.BitAnd)]
    ctx.ob('W.enc', f, 'length octets are base-256, most significant first', sh == ['length >>= 8'] and masks == ['length & 255'] and
           any(norm(n) == 'substrate = (length & 255,) + substrate' for n in walk_own(f.node) if isinstance(n, ast.Assign)),
           'shifts %s masks %s' % (sh, masks))


def rule_decode_header(ctx):
    """W.dec: identifier and length octets as read by the item decoder (X.690 8.1.2, 8.1.3)."""
    f = ctx.func('codec.ber.decoder.SingleItemDecoder.__call__')
    assigns = {}
    for n in walk_own(f.node):
        if isinstance(n, ast.Assign) and len(n.targets) == 1 and isinstance(n.targets[0], ast.Name):
            assigns.setdefault(n.targets[0].id, []).append(n.value)
    res = _resolver(ctx, f)
    # class / form fields: what the Tag(...) built for the item receives, traced back to the identifier octet
    cfg = ctx.cfg(f)
    rd = reaching_defs(cfg, f.params())
    tagcalls = [(n, c) for n in cfg.stmt_nodes() if n.kind == 'stmt' for e in node_exprs(n) for c in ast.walk(e)
                if isinstance(c, ast.Call) and norm(c.func) == 'tag.Tag' and any(k.arg == 'tagFormat' for k in c.keywords)]
    if len(tagcalls) != 1:
        raise AnalysisError('construction of the decoded tag not found in %s' % f.short)
    tnode, tcall = tagcalls[0]

    def first_octet_only(name, at):
        """True if every definition of `name` reaching `at` is (a copy of) the first identifier octet."""
        seen = set()
        work = [(name, at)]
        while work:
            nm, node = work.pop()
            defs = rd[node].get(nm, set())
            if not defs:
                return False, '`%s` has no definition' % nm
            for d in defs:
                if (nm, d) in seen:
                    continue
                seen.add((nm, d))
                if d.kind != 'stmt' or not isinstance(d.ast, ast.Assign):
                    return False, '`%s` is also bound by `%s`' % (nm, d.text()[:50])
                rhs = d.ast.value
                if isinstance(rhs, ast.Name):
                    work.append((rhs.id, d))
                elif isinstance(rhs, ast.Call) and call_name(rhs) in ('ord', 'oct2int') and norm(rhs.args[0]) == 'firstByte':
                    continue
                else:
                    return False, '`%s` may hold `%s` (line %d), not the first identifier octet' % (nm, norm(rhs)[:40], d.ast.lineno)
        return True, ''
    for name, mask in (('tagClass', 0xC0), ('tagFormat', 0x20)):
        kv = [k.value for k in tcall.keywords if k.arg == name]
        if not kv:
            raise AnalysisError('%s not passed to tag.Tag' % name)
        v, at = kv[0], tnode
        if isinstance(v, ast.Name):
            defs = rd[tnode].get(v.id, set())
            if len(defs) != 1 or list(defs)[0].kind != 'stmt' or not isinstance(list(defs)[0].ast, ast.Assign):
                ctx.ob('W.dec', f, '%s = identifier octet & %#x' % (name, mask), False,
                       '`%s` passed to tag.Tag has %d reaching definitions' % (v.id, len(defs)), node=tcall)
                continue
            at = list(defs)[0]
            v = at.ast.value
        if not (isinstance(v, ast.BinOp) and isinstance(v.op, ast.BitAnd)):
            raise AnalysisError('%s extraction `%s` not recognised' % (name, norm(v)))
        ops = [x for x in (v.left, v.right) if isinstance(x, ast.Name)]
        if len(ops) != 1:
            raise AnalysisError('%s extraction `%s` not recognised' % (name, norm(v)))
        try:
            table = [intexpr.ev(v, {ops[0].id: b}, res) for b in range(256)]
        except intexpr.NotPure as x:
            raise AnalysisError('%s extraction not a pure expression: %s' % (name, x))
        ctx.ob('W.dec', f, '%s = identifier octet & %#x' % (name, mask), table == [b & mask for b in range(256)],
               '`%s`' % norm(v), node=v)
        okf, why = first_octet_only(ops[0].id, at)
        ctx.ob('W.dec', f, '%s is taken from the FIRST identifier octet' % name, okf,
               '%s: for a multi-octet identifier the %s bits come from a tag-number octet' % (why, name) if not okf else
               '`%s` is the first identifier octet on every path' % ops[0].id, node=v)
    for name, mask in (('tagId', 0x1F),):
        cands = [v for v in assigns.get(name, []) if isinstance(v, ast.BinOp) and isinstance(v.op, ast.BitAnd)
                 and not any(isinstance(a, ast.AugAssign) for a in ancestors(v, f.node))]
        cands = [v for v in cands if isinstance(v.left, ast.Name) or isinstance(v.right, ast.Name)]
        if not cands:
            raise AnalysisError('%s extraction not found' % name)
        v = cands[0]
        opn = [x for x in (v.left, v.right) if isinstance(x, ast.Name)][0].id
        try:
            table = [intexpr.ev(v, {opn: b}, res) for b in range(256)]
        except intexpr.NotPure as x:
            raise AnalysisError('%s extraction not a pure expression: %s' % (name, x))
        ctx.ob('W.dec', f, '%s = identifier octet & %#x' % (name, mask), table == [b & mask for b in range(256)],
               '`%s`' % norm(v), node=v)
    hi = _find_if(f, lambda n: norm(n.test).startswith('tagId ==') or norm(n.test).endswith('== tagId'))
    if len(hi) != 1:
        raise AnalysisError('high-tag-number test not found')
    acc = intexpr.accept_set(hi[0].test, 'tagId', range(0, 32), resolver=res)
    ctx.ob('W.dec', f, 'tag number bits 11111 announce the high-tag-number form', acc == {31}, 'taken for {%s}' % _fmt(acc), node=hi[0])
    # continuation predicate inside the long-tag loop
    brk = [n for n in ast.walk(hi[0]) if isinstance(n, ast.If) and any(isinstance(s, ast.Break) for s in n.body) and 'integerTag' in norm(n.test)]
    if len(brk) != 1:
        raise AnalysisError('long tag termination test not found')
    acc = intexpr.accept_set(brk[0].test, 'integerTag', range(256), resolver=res)
    ctx.ob('W.dec', f, 'long tag ends at the first octet with bit 8 clear', acc == set(range(0, 128)), 'stops on {%s}' % _fmt(acc), node=brk[0])
    # one round of the long-tag loop as a table: tag number' = tag number * 128 + (octet & 127)
    from sa import region
    acc7 = []
    ok = False
    for lw in [w for w in ast.walk(hi[0]) if isinstance(w, ast.While)]:
        idx = [i for i, st_ in enumerate(lw.body) if isinstance(st_, ast.Assign) and isinstance(st_.targets[0], ast.Name) and
               isinstance(st_.value, ast.Call) and isinstance(st_.value.func, ast.Name) and st_.value.func.id in ('ord', 'oct2int')]
        if not idx:
            continue
        ov = lw.body[idx[0]].targets[0].id
        accv = [norm(n.target) for n in ast.walk(lw) if isinstance(n, ast.AugAssign) and isinstance(n.op, (ast.LShift, ast.BitOr, ast.Mult))] + \
               [norm(n.targets[0]) for n in ast.walk(lw) if isinstance(n, ast.Assign) and isinstance(n.value, ast.BinOp) and
                any(isinstance(x, ast.BinOp) and isinstance(x.op, (ast.LShift, ast.Mult)) for x in ast.walk(n.value))]
        accv = [v for v in accv if v != ov]
        if not accv:
            continue
        tv = accv[0]

        def stop(st_, env):
            return 'end' if isinstance(st_, ast.If) and any(isinstance(x, ast.Break) for x in ast.walk(st_)) else None
        try:
            bad = None
            for t0 in (0, 1, 5, 127, 300, 16383):
                for o in list(range(0, 256, 17)) + [127, 128, 255]:
                    lab, env = region.walk(lw.body[idx[0] + 1:], {tv: t0, ov: o}, stop)
                    if env.get(tv) != (t0 << 7) | (o & 0x7f):
                        bad = (t0, o, env.get(tv))
                        break
                if bad:
                    break
            ok = bad is None
            acc7 = ['%s after one round from %s and octet %s: %s' % ((tv,) + bad)] if bad else ['%s = %s * 128 + (octet & 127)' % (tv, tv)]
        except region.Undecided as x:
            raise AnalysisError('long-tag round not a pure table: %s' % x)
    ctx.ob('W.dec', f, 'long tag accumulates 7 bits per octet, most significant first', ok, str(acc7))
    # ---- length octet partition
    ln = _find_if(f, lambda n: isinstance(n.test, ast.Compare) and norm(n.test.left) == 'firstOctet' and
                  any(norm(s).startswith('length =') for s in n.body))
    if len(ln) != 1:
        raise AnalysisError('length octet chain not found')
    sets = _chain_sets(ctx, f, ln[0], 'firstOctet', range(256))
    kinds = {}
    for test, body, acc in sets:
        txt = [norm(s) for s in body]
        if 'length = firstOctet' in txt:
            kinds['short'] = kinds.get('short', set()) | acc
        elif any(t.startswith('size = ') for t in txt):
            kinds['long'] = kinds.get('long', set()) | acc
            sz = [s.value for s in body if isinstance(s, ast.Assign) and norm(s.targets[0]) == 'size'][0]
            tab = dict((b, intexpr.ev(sz, {'firstOctet': b}, res)) for b in acc)
            ctx.ob('W.dec', f, 'long form: number of length octets = first octet & 0x7f', all(tab[b] == b & 0x7f for b in acc),
                   '`%s`' % norm(sz), node=sz)
        elif 'length = -1' in txt:
            kinds['indef'] = kinds.get('indef', set()) | acc
        else:
            kinds.setdefault('other', set()).update(acc)
    ok = kinds.get('short') == set(range(0, 128)) and kinds.get('long') == set(range(129, 256)) and kinds.get('indef') == {128} \
        and not kinds.get('other')
    ctx.ob('W.dec', f, 'length octet: 0..127 short, 128 indefinite, 129..255 long', ok,
           dict((k, _fmt(v)) for k, v in kinds.items()), node=ln[0])
    # no raise depends on the VALUE of a length octet: only a short read and "indefinite form not supported" may raise here
    cfg = ctx.cfg(f)
    sec_raises = [n for n in ast.walk(ln[0]) if isinstance(n, ast.Raise)]
    extra = _find_if(f, lambda n: 'supportIndefLength' in norm(n.test) and raises_in(n.body))
    for g in extra:
        for r in g.body:
            if isinstance(r, ast.Raise) and r not in sec_raises:
                sec_raises.append(r)
    indef_raises = []
    for r in sec_raises:
        guards = [a for a in ancestors(r, f.node) if isinstance(a, ast.If) and (any(a is x for x in ast.walk(ln[0])) or a in extra)]
        own = guards[0] if guards else None
        cj = [norm(c) for c in (own.test.values if own is not None and isinstance(own.test, ast.BoolOp) and isinstance(own.test.op, ast.And)
                                else ([own.test] if own is not None else []))]
        if any('supportIndefLength' in c for c in cj):
            indef_raises.append((r, own, cj))
            continue
        ok = own is not None and len(cj) == 1 and re.fullmatch(r'len\((\w+)\) != size', cj[0]) is not None
        if ok:
            rv = re.fullmatch(r'len\((\w+)\) != size', cj[0]).group(1)
            for st in ast.walk(ln[0]):
                if isinstance(st, ast.Assign) and norm(st.targets[0]) == rv and st.lineno < own.lineno:
                    keep = isinstance(st.value, ast.Call) and isinstance(st.value.func, ast.Name) and \
                        st.value.func.id in ('list', 'bytes', 'bytearray', 'tuple', 'octs2ints') and norm(st.value.args[0]) == rv
                    ctx.ob('W.dec', f, 'the length octets are counted as read', keep,
                           '`%s` changes the octets before `%s` compares their number with the announced one: a long form with '
                           'leading zero octets is reported as a short read' % (norm(st), cj[0]) if not keep else norm(st), node=st)
        ctx.ob('W.dec', f, 'raise inside the length decoding', ok,
               'only a short read may raise here; found guard `%s`: a well-formed length (e.g. a long form with leading zero '
               'octets, or one of more than N octets) is refused' % (norm(own.test) if own is not None else '?'), node=r)
    # indefinite form refused exactly when the codec switches it off: the refusal is reached for first octet 128 only,
    # under `not self.supportIndefLength` and nothing else
    if len(indef_raises) != 1:
        ctx.ob('W.dec', f, 'indefinite length refused exactly when the codec switches it off', False,
               '%d refusal sites for the indefinite form' % len(indef_raises))
    else:
        r, own, cj = indef_raises[0]
        others = [c for c in cj if 'supportIndefLength' not in c]
        flag_ok = [c for c in cj if 'supportIndefLength' in c] == ['not self.supportIndefLength']
        # first-octet values under which the refusal site is reached
        reach = None
        inside = any(own is x for x in ast.walk(ln[0]))
        if inside:
            for test, body, acc in sets:
                if any(own is x for st in body for x in ast.walk(st)):
                    reach = set(acc)
            others_ok = not others
        else:
            reach = set(kinds.get('indef', set())) if others == ['length == -1'] else None
            others_ok = others == ['length == -1']
        ok = flag_ok and others_ok and reach == {128}
        ctx.ob('W.dec', f, 'indefinite length refused exactly when the codec switches it off', ok,
               'refusal guarded by `%s`, reached for first length octet in {%s}' % (norm(own.test), _fmt(reach) if reach is not None else '?'),
               node=own)
        # the refusal precedes value decoding
        from sa.rules import genproto as G
        t = cfg.node_of[own]
        calls = [n for n in cfg.stmt_nodes() if n.kind == 'for' and isinstance(n.ast.iter, ast.Call) and
                 any(m.name in ('valueDecoder', 'indefLenValueDecoder') for m in G.callee_set(ctx, f, n.ast.iter))]
        if not calls:
            raise AnalysisError('value decoder call sites not found in %s' % f.short)
        # reaching a value decoder from the indefinite arm without passing the refusal test
        start = cfg.node_of[ln[0]]
        ok = all(not _reach_avoiding(cfg, start, c, t) for c in calls) if not inside else True
        ctx.ob('W.dec', f, 'the refusal lies on every path from the length octets to value decoding', ok,
               'inside the indefinite arm' if inside else '')
    # long form accumulation: one loop over the length octets, each round length' = length * 256 + octet
    loops = [n for n in ast.walk(ln[0]) if isinstance(n, ast.For) and any(
        isinstance(x, (ast.Assign, ast.AugAssign)) and 'length' in [t.id for t in ast.walk(x) if isinstance(t, ast.Name) and isinstance(t.ctx, ast.Store)]
        for x in n.body)]
    if len(loops) != 1 or not isinstance(loops[0].target, ast.Name):
        raise AnalysisError('length accumulation loop not found')
    octv = loops[0].target.id
    bad = None
    try:
        for L0 in (0, 1, 2, 255, 256, 65535):
            for o in (0, 1, 127, 128, 255):
                env = {'length': L0, octv: o}
                for st in loops[0].body:
                    if isinstance(st, ast.Assign) and len(st.targets) == 1 and isinstance(st.targets[0], ast.Name):
                        env[st.targets[0].id] = intexpr.ev(st.value, env, res)
                    elif isinstance(st, ast.AugAssign) and isinstance(st.target, ast.Name):
                        fake = ast.BinOp(left=ast.Name(id=st.target.id, ctx=ast.Load()), op=st.op, right=st.value)
                        env[st.target.id] = intexpr.ev(fake, env, res)
                    else:
                        raise intexpr.NotPure(type(st).__name__)
                if env['length'] != L0 * 256 + o:
                    bad = (L0, o, env['length'])
    except intexpr.NotPure as x:
        raise AnalysisError('length accumulation `%s` is not pure integer arithmetic: %s' % (norm(loops[0])[:60], x))
    ctx.ob('W.dec', f, 'long form length is base-256, most significant first (leading zero octets allowed)', bad is None,
           'one round turns length %d and octet %d into %d' % bad if bad else 'length\' = length * 256 + octet', node=loops[0])


def _reach_avoiding(cfg, a, b, avoid):
    return b in cfg.reachable(a, avoid=[avoid])


def rule_content_guards(ctx):
    """W.content: anchored format checks of the content decoders (BIT STRING padding, OID octets, REAL forms, NULL)."""
    D = 'codec.ber.decoder.'
    # BIT STRING unused-bits octet: 0..7
    n = 0
    for q in (D + 'BitStringPayloadDecoder.valueDecoder', D + 'BitStringPayloadDecoder.indefLenValueDecoder'):
        f = ctx.func(q)
        pads = [c for c in walk_own(f.node) if isinstance(c, ast.Call) and any(k.arg == 'padding' for k in c.keywords)]
        for c in pads:
            n += 1
            pv = [k.value for k in c.keywords if k.arg == 'padding'][0]
            guards = [g for g in walk_own(f.node) if isinstance(g, ast.If) and norm(pv) in [norm(x) for x in ast.walk(g.test)] and raises_in(g.body)]
            ok = False
            det = 'no range check of `%s` before it is used as padding' % norm(pv)
            cfg = ctx.cfg(f)
            stmt = c
            while not isinstance(stmt, ast.stmt):
                stmt = stmt.parent
            use = cfg.node_of[stmt]
            for g in guards:
                acc = intexpr.accept_set(g.test, norm(pv), range(256))
                gn = cfg.node_of[g]
                from sa.rules.excflow import _edge_dominates
                if _edge_dominates(cfg, gn, 'false', use):
                    ok = acc == set(range(8, 256))
                    det = 'refuses {%s}' % _fmt(acc)
            ctx.ob('W.content', f, 'unused-bits count `%s` limited to 0..7 before use' % norm(pv), ok, det, node=c)
    if n < 3:
        raise AnalysisError('expected 3 padding uses in the BIT STRING decoder, found %d' % n)
    # OID sub-identifier octets: outcome table of the arc loop body over the first octet of a sub-identifier
    from sa import region
    f = ctx.func(D + 'ObjectIdentifierPayloadDecoder.valueDecoder')
    outer = [w for w in walk_own(f.node) if isinstance(w, ast.While) and not any(isinstance(a_, ast.While) for a_ in ancestors(w, f.node))
             and any(isinstance(x, ast.While) for st_ in w.body for x in ast.walk(st_))]
    if len(outer) != 1:
        raise AnalysisError('sub-identifier loop not found in %s' % f.short)
    outer = outer[0]
    first = [i for i, st_ in enumerate(outer.body) if isinstance(st_, ast.Assign) and isinstance(st_.value, ast.Subscript)
             and isinstance(st_.targets[0], ast.Name)]
    if not first:
        raise AnalysisError('sub-identifier octet read not found in %s' % f.short)
    var = outer.body[first[0]].targets[0].id
    arcvar = [norm(st_.target) for st_ in ast.walk(outer) if isinstance(st_, ast.AugAssign) and isinstance(st_.value, ast.Tuple)]
    arcvar = arcvar[0] if arcvar else 'oid'

    def mark(st_, env):
        if isinstance(st_, ast.While):
            return 'multi'
        if isinstance(st_, (ast.AugAssign, ast.Assign)) and norm(st_.target if isinstance(st_, ast.AugAssign) else st_.targets[0]) == arcvar:
            return 'single' if var in env else 'multi'
        if isinstance(st_, ast.Assign) and norm(st_.targets[0]) == var:
            return 'multi'          # the octet variable is re-used as the accumulator of a multi-octet arc
        return None
    try:
        tab = region.table(outer.body[first[0] + 1:], var, range(256), mark)
    except region.Undecided as x:
        raise AnalysisError('sub-identifier region in %s: %s' % (f.short, x))
    kinds = region.groups(tab)
    raised = set()
    for k, v in kinds.items():
        if k and k.startswith('raise:'):
            raised |= v
    ok = kinds.get('single') == set(range(128)) and kinds.get('multi') == set(range(129, 256)) and raised == {128}
    ctx.ob('W.content', f, 'sub-identifier first octet: 0..127 single, 129..255 multi-octet, 128 (leading zero) refused', ok,
           dict((str(k), _fmt(v)) for k, v in kinds.items()), node=outer)
    inner = [w for st_ in outer.body for w in ast.walk(st_) if isinstance(w, ast.While)]
    if inner:
        tv = [n_.id for n_ in ast.walk(inner[0].test) if isinstance(n_, ast.Name)]
        if len(set(tv)) != 1:
            raise AnalysisError('continuation test `%s` not over one variable' % norm(inner[0].test))
        acc = intexpr.accept_set(inner[0].test, tv[0], range(256))
        ctx.ob('W.content', f, 'multi-octet arc continues while bit 8 is set', acc == set(range(128, 256)), 'continues on {%s}' % _fmt(acc), node=inner[0])
    # the two leading arcs: table of the statements between the loop and the result over the first sub-identifier
    blk = outer.parent.body if hasattr(outer.parent, 'body') and outer in outer.parent.body else None
    if blk is None:
        raise AnalysisError('first-arcs region not found')
    after = blk[blk.index(outer) + 1:]

    def stop(st_, env):
        if isinstance(st_, (ast.For, ast.Return)) or any(isinstance(x, ast.Yield) for x in ast.walk(st_)):
            return 'end'
        return None

    def bind(env, v):
        env[arcvar] = (v, 'a2', 'a3')
    try:
        res = {}
        for v in range(0, ctx.scale(400, 4000)):
            env = {}
            bind(env, v)
            lab, env = region.walk(after, env, stop)
            res[v] = env.get(arcvar) if lab == 'end' else lab
    except region.Undecided as x:
        raise AnalysisError('first-arcs region in %s: %s' % (f.short, x))
    want = dict((v, ((0, v) if v < 40 else ((1, v - 40) if v < 80 else (2, v - 80))) + ('a2', 'a3')) for v in res)
    bad = sorted(v for v in res if res[v] != want[v])
    ctx.ob('W.content', f, 'first sub-identifier split into the two leading arcs (X.690 8.19.4)', not bad,
           'first sub-identifier %d becomes %r, X.690 8.19.4 says %r' % (bad[0], res[bad[0]], want[bad[0]]) if bad else
           '0..39 -> (0, n); 40..79 -> (1, n-40); 80.. -> (2, n-80)', node=after[0] if after else outer)
    # NULL: content must be empty
    f = ctx.func(D + 'NullPayloadDecoder.valueDecoder')
    lv = [n.target.id for n in walk_own(f.node) if isinstance(n, ast.For) and isinstance(n.target, ast.Name) and
          isinstance(n.iter, ast.Call) and getattr(n.iter.func, 'id', '') == 'readFromStream']
    g = [x for x in walk_own(f.node) if isinstance(x, ast.If) and lv and norm(x.test) in (lv[0], 'len(%s)' % lv[0], '%s != null' % lv[0])
         and raises_in(x.body)]
    ctx.ob('W.content', f, 'non-empty NULL contents refused', len(g) == 1, '')
    # REAL first octet
    f = ctx.func(D + 'RealPayloadDecoder.valueDecoder')
    top = _find_if(f, lambda x: norm(x.test) in ('fo & 128', 'fo & 0x80'))
    if len(top) != 1:
        raise AnalysisError('REAL first-octet chain not found')
    sets = _chain_sets(ctx, f, top[0], 'fo', range(256))
    got = [_fmt(acc) for t, b, acc in sets]
    ctx.ob('W.content', f, 'REAL first octet: bit 8 binary, bits 8-7 = 01 special, 00 decimal', got[:3] == ['128..255', '64..127', '0..63'],
           str(got), node=top[0])
    for var, lim in (('b', 2),):
        from sa import condeq
        gs = condeq.raising_guards(f.node, '%s > %d' % (var, lim), raises_in, walk_own)
        ctx.ob('W.content', f, 'reserved REAL base refused', len(gs) == 1, '')
    # constructed-form refusal precedes the reassembly loop
    for q in (D + 'BitStringPayloadDecoder.valueDecoder', D + 'OctetStringPayloadDecoder.valueDecoder'):
        f = ctx.func(q)
        cfg = ctx.cfg(f)
        from sa import condeq
        g = [t for t in cfg.stmt_nodes() if t.kind == 'test' and (
            (condeq.same(t.ast.test, 'not self.supportConstructedForm') == 1 and raises_in(t.ast.body)) or
            (condeq.same(t.ast.test, 'not self.supportConstructedForm') == -1 and raises_in(t.ast.orelse)))]
        loops = [t for t in cfg.stmt_nodes() if t.kind == 'for' and isinstance(t.ast.iter, ast.Call) and norm(t.ast.iter.func) == 'decodeFun']
        ok = len(g) == 1 and bool(loops) and all(cfg.dominates(g[0], lp) for lp in loops)
        ctx.ob('W.content', f, 'constructed-form refusal dominates segment reassembly', ok, '')
    # primitive-only types refuse the constructed tag form, constructed types the primitive one
    for cls, want in (('IntegerPayloadDecoder', 'tag.tagFormatSimple'), ('NullPayloadDecoder', 'tag.tagFormatSimple'),
                      ('ObjectIdentifierPayloadDecoder', 'tag.tagFormatSimple'), ('RealPayloadDecoder', 'tag.tagFormatSimple'),
                      ('ConstructedPayloadDecoderBase', 'tag.tagFormatConstructed')):
        for meth in ('valueDecoder',) + (('indefLenValueDecoder',) if cls == 'ConstructedPayloadDecoderBase' else ()):
            f = ctx.func(D + cls + '.' + meth)
            first = [s for s in f.node.body if not (isinstance(s, ast.Expr) and isinstance(s.value, ast.Constant))][0]
            from sa import condeq
            ok = isinstance(first, ast.If) and ((condeq.same(first.test, 'tagSet[0].tagFormat != %s' % want) == 1 and raises_in(first.body)) or
                                                (condeq.same(first.test, 'tagSet[0].tagFormat != %s' % want) == -1 and raises_in(first.orelse)))
            ctx.ob('W.content', f, 'tag form checked first (%s)' % want.split('Format')[1], ok, norm(first.test) if isinstance(first, ast.If) else norm(first)[:40])
