"""A2 `genproto`: the underrun generator protocol of the streaming decoder.

Family = generator functions whose items can reach a consumer that tests
`isinstance(x, SubstrateUnderrunError)`.  Leaf producers live in
codec/streaming.py; everything else forwards.  Two scopes: logging off
(statements under `if LOG:` removed) and logging on.
"""
import ast

from sa.model import AnalysisError, ClassInfo, FuncInfo, norm, walk_own, ancestors
from sa.util import raises_in, const_int, is_log_test, call_name, stmts_of

DEC_MODULES = ('pyasn1.codec.ber.decoder', 'pyasn1.codec.cer.decoder', 'pyasn1.codec.der.decoder',
               'pyasn1.codec.streaming')
SUE = 'pyasn1.error.SubstrateUnderrunError'


def under_log(node, stop=None):
    for a in ancestors(node, stop):
        if isinstance(a, ast.If) and is_log_test(a.test):
            # only the true arm is log-only
            cur = node
            while cur.parent is not a:
                cur = cur.parent
            if cur in a.body:
                return True
    return False


def is_sue_class(ctx, m, expr):
    c = ctx.prog.resolve_expr(m, expr)
    return isinstance(c, ClassInfo) and c.subclass_of_name(SUE)


def isinstance_sue_test(ctx, f, test):
    """If `test` is `isinstance(<Name>, <SUE family>)` return the name, else None."""
    if isinstance(test, ast.Call) and isinstance(test.func, ast.Name) and test.func.id == 'isinstance' and len(test.args) == 2:
        if isinstance(test.args[0], ast.Name) and is_sue_class(ctx, f.module, test.args[1]):
            return test.args[0].id
    return None


# ------------------------------------------------------------ call resolution

def payload_decoder_methods(ctx, name):
    root = ctx.cls('codec.ber.decoder.AbstractPayloadDecoder')
    out = set()
    for c in ctx.prog.subclasses(root):
        m = c.method(name)
        if m is not None:
            out.add(m)
    return out


def callee_set(ctx, f, call, _depth=0):
    """FuncInfos a call expression may invoke (frozen slot bindings for the codec callbacks)."""
    fn = call.func
    params = f.params()
    if isinstance(fn, ast.Name):
        if fn.id in ('decodeFun',) and fn.id in params:
            return {ctx.func('codec.ber.decoder.SingleItemDecoder.__call__')}
        if fn.id == 'substrateFun' and (fn.id in params or True):
            return {ctx.func('codec.ber.decoder.AbstractSimplePayloadDecoder.substrateCollector')}
        r = ctx.prog.resolve_name(f.module, fn.id)
        if isinstance(r, FuncInfo):
            return {r}
        if isinstance(r, ClassInfo):
            it = r.method('__iter__')
            return {it} if it else set()
        # a local that only ever holds bound methods / functions (`fun = a.m if c else a.n`): union of what it may hold
        if fn.id not in params and _depth < 3:
            vals = [n.value for n in walk_own(f.node) if isinstance(n, ast.Assign) and len(n.targets) == 1 and
                    isinstance(n.targets[0], ast.Name) and n.targets[0].id == fn.id]
            flat = []
            for v in vals:
                flat.extend([v.body, v.orelse] if isinstance(v, ast.IfExp) else [v])
            if flat and all(isinstance(v, (ast.Attribute, ast.Name)) for v in flat):
                out = set()
                for v in flat:
                    fake = ast.Call(func=v, args=call.args, keywords=call.keywords)
                    out |= callee_set(ctx, f, fake, _depth + 1)
                return out
        return set()
    if isinstance(fn, ast.Attribute):
        base = fn.value
        if isinstance(base, ast.Name) and base.id == 'self' and f.cls is not None:
            if fn.attr == '_singleItemDecoder':
                return {ctx.func('codec.ber.decoder.SingleItemDecoder.__call__')}
            out = set()
            for c in [f.cls] + [k for k in ctx.prog.subclasses(f.cls) if k is not f.cls]:
                m = c.method(fn.attr)
                if m is not None:
                    out.add(m)
            return out
        if isinstance(base, ast.Name) and base.id == 'concreteDecoder' and fn.attr in ('valueDecoder', 'indefLenValueDecoder'):
            return payload_decoder_methods(ctx, fn.attr)
        if isinstance(base, ast.Name) and base.id == 'cls' and f.cls is not None:
            _, v = ctx.ev.class_attr(f.cls, fn.attr)
            from sa.consteval import VClass
            if isinstance(v, VClass):
                out = set()
                for c in ctx.prog.subclasses(v.ci):
                    it = c.method('__iter__')
                    if it:
                        out.add(it)
                return out
        r = ctx.prog.resolve_expr(f.module, fn)
        if isinstance(r, FuncInfo):
            return {r}
    return set()


def iter_producers(ctx, f, it, _depth=0):
    """Functions whose generator is iterated by `for x in <it>`."""
    if isinstance(it, ast.Call):
        return set(c for c in callee_set(ctx, f, it) if c.is_generator)
    if isinstance(it, ast.Name) and _depth < 3:
        out = set()
        for n in walk_own(f.node):
            if isinstance(n, ast.Assign) and any(isinstance(t, ast.Name) and t.id == it.id for t in n.targets):
                out |= iter_producers(ctx, f, n.value, _depth + 1)
        return out
    return set()


# --------------------------------------------------------------------- family

class Fam(object):
    def __init__(self):
        self.members = {}     # FuncInfo -> kinds set
        self.loops = []       # (FuncInfo, For node, producers set)
        self.leaves = set()


def family(ctx, scope='off'):
    k = ('family', scope)
    if k in ctx.cache:
        return ctx.cache[k]
    fam = Fam()
    cands = [f for f in ctx.prog.all_functions() if f.module.name in DEC_MODULES]
    gens = [f for f in cands if f.is_generator]
    leaves = set(f for f in gens if f.module.name == 'pyasn1.codec.streaming')
    if len(leaves) < 2:
        raise AnalysisError('leaf producers not found in codec/streaming.py')
    fam.leaves = leaves
    # loops over generators
    loops = []
    for f in cands:
        for n in walk_own(f.node):
            if isinstance(n, ast.For):
                if scope == 'off' and under_log(n, f.node):
                    continue
                ps = iter_producers(ctx, f, n.iter)
                if ps:
                    loops.append((f, n, ps))
    # membership fixpoint: leaves + generators that iterate a member
    members = set(leaves)
    changed = True
    while changed:
        changed = False
        for f, n, ps in loops:
            if f.is_generator and f not in members and ps & members:
                members.add(f)
                changed = True
    # in logging-off scope a leaf that nobody consumes outside LOG blocks is not part of the protocol
    consumed = set()
    for f, n, ps in loops:
        consumed |= ps
    fam.loops = [(f, n, ps & members) for f, n, ps in loops if ps & members]
    # also direct `next(<leaf>(...))`
    kinds = dict((f, set()) for f in members)
    changed = True
    while changed:
        changed = False
        for f in members:
            new = set(kinds[f])
            for y in yields_of(f, scope):
                new |= yield_kinds(ctx, fam, f, y, kinds)
            if new != kinds[f]:
                kinds[f] = new
                changed = True
    fam.members = kinds
    fam.consumed = consumed
    ctx.cache[k] = fam
    return fam


def yields_of(f, scope):
    out = []
    for n in walk_own(f.node):
        if isinstance(n, ast.Yield):
            if scope == 'off' and under_log(n, f.node):
                continue
            out.append(n)
    return out


def enclosing_loops(node, fnode):
    return [a for a in ancestors(node, fnode) if isinstance(a, (ast.For, ast.While))]


def loop_entry(fam, f, fornode):
    for ff, n, ps in fam.loops:
        if n is fornode:
            return ps
    return None


def guarded_by_isinstance(ctx, f, node, var):
    """'true' / 'false' / None: is `node` inside the true (false) arm of isinstance(var, SUE)?"""
    cur = node
    for a in ancestors(node, f.node):
        if isinstance(a, ast.If) and isinstance_sue_test(ctx, f, a.test) == var:
            return 'true' if _in(cur, a.body) else 'false'
        if isinstance(a, ast.If) and isinstance(a.test, ast.UnaryOp) and isinstance(a.test.op, ast.Not) \
                and isinstance_sue_test(ctx, f, a.test.operand) == var:
            return 'false' if _in(cur, a.body) else 'true'
        cur = a
    return None


def _in(node, stmts):
    return any(node is s for s in stmts)


def yield_kinds(ctx, fam, f, y, kinds):
    """Kinds {U,N,D} a single yield can produce, given the current kinds of the producers it forwards."""
    v = y.value
    if v is None or (isinstance(v, ast.Constant) and v.value is None):
        return {'N'}
    if isinstance(v, ast.Call) and is_sue_class(ctx, f.module, v.func):
        return {'U'}
    if isinstance(v, ast.Name):
        for lp in enclosing_loops(y, f.node):
            if isinstance(lp, ast.For) and isinstance(lp.target, ast.Name) and lp.target.id == v.id:
                ps = loop_entry(fam, f, lp) if fam.loops else None
                if ps is None:
                    ps = iter_producers(ctx, f, lp.iter) & set(kinds)
                if not ps:
                    break
                pk = set()
                for p in ps:
                    pk |= kinds.get(p, set())
                g = guarded_by_isinstance(ctx, f, y, v.id)
                if g == 'true':
                    return pk & {'U'}
                if g == 'false':
                    return pk - {'U'}
                return pk
    return {'D'}


# ---------------------------------------------------------------------- rules

def rule_slots(ctx):
    """A2.slot: who-passes-what for the decodeFun slot (so that `decodeFun(...)` resolves to the item decoder)."""
    f = ctx.func('codec.ber.decoder.SingleItemDecoder.__call__')
    kinds = set()
    for c in walk_own(f.node):
        if not isinstance(c, ast.Call):
            continue
        names = set(m.name for m in callee_set(ctx, f, c) if m.name in ('valueDecoder', 'indefLenValueDecoder'))
        if not names or not (isinstance(c.func, ast.Name) or (isinstance(c.func, ast.Attribute) and norm(c.func.value) == 'concreteDecoder')):
            continue
        kinds |= names
        for nm in sorted(names):
            ok = len(c.args) >= 7 and norm(c.args[5]) == 'self' and norm(c.args[0]) == 'substrate'
            ctx.ob('A2.slot', f, 'concreteDecoder.%s receives decodeFun=self on the same substrate' % nm, ok,
                   'positional arguments: %s' % [norm(a) for a in c.args], node=c)
    if kinds != {'valueDecoder', 'indefLenValueDecoder'}:
        raise AnalysisError('expected call sites of concreteDecoder.valueDecoder and .indefLenValueDecoder in %s, found %s' % (
            f.short, sorted(kinds)))
    # every other decodeFun argument in the decoder modules is the parameter itself (passed down) or self
    for g in ctx.prog.all_functions():
        if g.module.name not in DEC_MODULES:
            continue
        for c in walk_own(g.node):
            if isinstance(c, ast.Call):
                for k in c.keywords:
                    if k.arg == 'decodeFun':
                        ctx.ob('A2.slot', g, 'decodeFun=%s' % norm(k.value), norm(k.value) in ('decodeFun', 'self'),
                               'decodeFun bound to %s' % norm(k.value), node=c)


def rule_prod(ctx, scope='off', rule='A2.prod'):
    fam = family(ctx, scope)
    for f in sorted(fam.members, key=lambda f: f.qualname):
        if scope == 'off' and f in fam.leaves and f not in fam.consumed:
            continue
        for y in yields_of(f, scope):
            ks = yield_kinds(ctx, fam, f, y, fam.members)
            v = y.value
            bare = v is None or (isinstance(v, ast.Constant) and v.value is None)
            if bare:
                # dead if inside the true arm of an isinstance test that its producers can never satisfy
                dead = False
                for a in ancestors(y, f.node):
                    if isinstance(a, ast.If):
                        var = isinstance_sue_test(ctx, f, a.test)
                        if var:
                            for lp in enclosing_loops(y, f.node):
                                if isinstance(lp, ast.For) and isinstance(lp.target, ast.Name) and lp.target.id == var:
                                    ps = loop_entry(fam, f, lp) or set()
                                    pk = set()
                                    for p in ps:
                                        pk |= fam.members.get(p, set())
                                    if ps and 'U' not in pk:
                                        dead = True
                if dead:
                    ctx.ob(rule, f, 'yield <none>', True,
                           'bare yield is dead: its isinstance guard is never satisfied by the producers\' kinds',
                           node=y, note=True)
                    continue
                ctx.ob(rule, f, 'yield <none>', False,
                       'a family generator yields None: consumers test isinstance(x, SubstrateUnderrunError), so None is '
                       'taken for data (protocol break)', node=y)
            else:
                ctx.ob(rule, f, 'yield %s' % norm(v), True, 'kinds %s' % sorted(ks), node=y)


def rule_prod_on(ctx):
    rule_prod(ctx, 'on', 'A2.prod.log')


def _stream_read_calls(f):
    """Calls `<param>.read(...)` / `<param>.peek(...)` on the first parameter (the substrate)."""
    ps = f.params()
    if not ps:
        return []
    out = []
    for n in walk_own(f.node):
        if isinstance(n, ast.Call) and isinstance(n.func, ast.Attribute) and n.func.attr in ('read', 'peek') \
                and isinstance(n.func.value, ast.Name) and n.func.value.id == ps[0]:
            out.append(n)
    return out


def _stmt_of(node, fnode):
    cur = node
    while not isinstance(cur, ast.stmt):
        cur = cur.parent
    return cur


def rule_retry(ctx, scope='off', rule='A2.retry'):
    """Leaf producers: an underrun suspension is position-neutral and the read is repeated after resumption."""
    fam = family(ctx, scope)
    for f in sorted(fam.leaves, key=lambda f: f.qualname):
        if scope == 'off' and f not in fam.consumed:
            continue
        reads = _stream_read_calls(f)
        if not reads:
            continue   # a pure forwarder such as the fallback arm of peekIntoStream is covered by A2.cons
        cfg = ctx.cfg(f)
        read_nodes = [cfg.node_of[_stmt_of(r, f.node)] for r in reads]
        result_nodes = []
        susp_nodes = []
        for y in yields_of(f, scope):
            ks = yield_kinds(ctx, fam, f, y, fam.members)
            node = cfg.node_of[_stmt_of(y, f.node)]
            if ks <= {'U', 'N'} and ks:
                susp_nodes.append((y, node))
            else:
                result_nodes.append(node)
        for y, node in susp_nodes:
            # (1) after resumption every path to a result yield or to the end passes through a read again
            targets = result_nodes + [cfg.exit]
            own_reads = [r for r in read_nodes]
            ok1 = all(cfg.must_pass(node, t, lambda n: n in own_reads) for t in targets
                      if t in cfg.reachable(node))
            ctx.ob(rule, f, 'read repeated after `%s`' % norm(y), ok1,
                   'after the generator is resumed from this yield the stream is %sread again before a result is produced'
                   % ('' if ok1 else 'NOT '), node=y)
            # (2) position neutrality: if bytes may have been consumed, a relative seek back by that amount precedes the yield
            ok2, why = _position_neutral(ctx, f, cfg, y, node, reads)
            ctx.ob(rule, f, 'position restored before `%s`' % norm(y), ok2, why, node=y)
        # the probe in isEndOfStream style: a successful read(n) of data that is not returned must be undone
    return


def _ev3(test, v, val):
    """Three-valued truth of `test` with the read result `v` bound to `val`; parts that do not look at `v` are unknown."""
    from sa import intexpr as _ie
    names = [x.id for x in ast.walk(test) if isinstance(x, ast.Name)]
    if v not in names:
        return None
    if isinstance(test, ast.BoolOp):
        vals = [_ev3(x, v, val) for x in test.values]
        if isinstance(test.op, ast.And):
            if any(x is False for x in vals):
                return False
            return True if all(x is True for x in vals) else None
        if any(x is True for x in vals):
            return True
        return False if all(x is False for x in vals) else None
    if isinstance(test, ast.UnaryOp) and isinstance(test.op, ast.Not):
        x = _ev3(test.operand, v, val)
        return None if x is None else (not x)
    try:
        return bool(_ie.ev(test, {v: val}))
    except _ie.NotPure:
        return None


def _falsy_edge(test, lab, v):
    """Taking branch `lab` of `test` implies that read result `v` is None/empty (nothing was consumed): the edge cannot
    be taken when the read returned data - whatever way the test is written (`v is None`, `not v`, `v is not None` on its
    false edge, a conjunction containing one of them)."""
    x = _ev3(test, v, 1)          # 1 stands for "some data"
    if x is None:
        return False
    return x != (lab == 'true')


def _position_neutral(ctx, f, cfg, y, ynode, reads):
    """Every stream read that can precede the suspension is compensated before it.

    For each read `v = stream.read(n)`: there must be no path from the read to the yield (within the current trip, i.e.
    not through another suspension) on which v may hold octets and no compensating seek was executed.  Compensations:
    `stream.seek(-len(v), os.SEEK_CUR)`, or `stream.seek(-N, os.SEEK_CUR)` for a read of constant size N (guarded by
    `if v:`).  Branches that imply v is None/empty consumed nothing."""
    rvars = []
    for r in reads:
        st = _stmt_of(r, f.node)
        if isinstance(st, ast.Assign) and len(st.targets) == 1 and isinstance(st.targets[0], ast.Name) and st.value is r:
            rvars.append((st.targets[0].id, r, cfg.node_of[st]))
        else:
            return False, 'the result of `%s` is not bound to a variable' % norm(r)
    if not rvars:
        return False, 'no stream read found'
    others = set()
    for n in cfg.stmt_nodes():
        if n is not ynode and n.kind == 'stmt' and any(isinstance(x, ast.Yield) for x in ast.walk(n.ast)):
            others.add(n)
    reasons = []
    for var, r, rnode in rvars:
        stream = r.func.value.id
        if r.func.attr == 'peek':
            reasons.append('%s: peek does not advance' % var)
            continue
        comp = set()
        for n in cfg.stmt_nodes():
            if n.kind != 'stmt':
                continue
            t = norm(n.ast)
            if t == '%s.seek(-len(%s), os.SEEK_CUR)' % (stream, var):
                comp.add(n)
            size = r.args[0] if r.args else None
            if isinstance(size, ast.Constant) and isinstance(size.value, int) and size.value > 0 and \
                    t == '%s.seek(-%d, os.SEEK_CUR)' % (stream, size.value):
                # only when guarded by `if v:` (the probe returned data)
                par = getattr(n.ast, 'parent', None)
                if isinstance(par, ast.If) and norm(par.test) == var and n.ast in par.body:
                    comp.add(n)
        # search a harmful path: rnode ->* ynode avoiding other suspensions, compensations and "v is empty" branches
        seen = set()
        stack = [rnode]
        harmful = False
        while stack and not harmful:
            n = stack.pop()
            for s_, lab in n.succs:
                if lab == 'exc':
                    continue
                if n.kind in ('test', 'while') and lab in ('true', 'false') and _falsy_edge(n.ast.test, lab, var):
                    continue
                if s_ is ynode:
                    harmful = True
                    break
                if s_ in seen or s_ in others or s_ in comp or s_ is rnode:
                    continue
                seen.add(s_)
                stack.append(s_)
        if harmful:
            return False, ('octets consumed by `%s = %s` may still be missing from the stream when the generator suspends: a path '
                           'from the read to this yield passes no `%s.seek(-len(%s), os.SEEK_CUR)` (or guarded un-read of the constant '
                           'probe size) and no branch that implies the read returned nothing' % (var, norm(r), stream, var))
        reasons.append('%s: compensated or empty on every path' % var)
    return True, '; '.join(reasons)


def rule_retry_on(ctx):
    rule_retry(ctx, 'on', 'A2.retry.log')


# frozen reasoning entries for A2.cons: (function short name, loop iter text) -> reason
CONS_INMEMORY_REASON = ('the iterated decoder reads a fresh in-memory stream built from octets already read '
                        '(asSeekableStream(<value>.asOctets())): it cannot underrun on a valid encoding, so a use of the '
                        'loop variable there is outside the arrival-schedule quantifier')


def _first_arg_is_inmemory(f, fornode):
    it = fornode.iter
    if not (isinstance(it, ast.Call) and it.args and isinstance(it.args[0], ast.Name)):
        return False
    name = it.args[0].id
    defs = [n for n in walk_own(f.node) if isinstance(n, ast.Assign) and
            any(isinstance(t, ast.Name) and t.id == name for t in n.targets)]
    def octets(e):
        if norm(e).endswith('.asOctets()'):
            return True
        if isinstance(e, ast.Name):      # a local bound only to <value>.asOctets()
            ds = [n for n in walk_own(f.node) if isinstance(n, ast.Assign) and any(isinstance(t, ast.Name) and t.id == e.id for t in n.targets)]
            return bool(ds) and all(norm(d.value).endswith('.asOctets()') for d in ds)
        return False
    return bool(defs) and all(isinstance(d.value, ast.Call) and call_name(d.value) == 'asSeekableStream' and
                              d.value.args and octets(d.value.args[0]) for d in defs)


def _is_eoo_identity(test, var):
    """`var is <...endOfOctets>` (identity with the end-of-octets singleton)."""
    return (isinstance(test, ast.Compare) and len(test.ops) == 1 and isinstance(test.ops[0], ast.Is)
            and isinstance(test.left, ast.Name) and test.left.id == var
            and norm(test.comparators[0]).endswith('endOfOctets'))


def _falls_through(stmts):
    if not stmts:
        return True
    last = stmts[-1]
    if isinstance(last, (ast.Break, ast.Continue, ast.Return, ast.Raise)):
        return False
    return True


def _walk_cons(ctx, f, var, stmts, state, scope, out, in_generator):
    """state: 'U?' (x may be an underrun object), 'U' (certainly), 'D' (not an underrun object).

    Returns the state after the statements, or None if control never falls through.
    `out` collects (node, message) problems; out['forwarded'] records that x was yielded on the U path."""
    for s in stmts:
        if state == 'D':
            return 'D' if _falls_through(stmts) else None
        if isinstance(s, ast.If) and is_log_test(s.test) and not s.orelse:
            if scope == 'off':
                continue
            # logging-on scope: log blocks must not touch control flow; checked by A5.log
            continue
        if isinstance(s, ast.If):
            v = isinstance_sue_test(ctx, f, s.test)
            neg = False
            if v is None and isinstance(s.test, ast.UnaryOp) and isinstance(s.test.op, ast.Not):
                v = isinstance_sue_test(ctx, f, s.test.operand)
                neg = v is not None
            if v == var:
                ubody, dbody = (s.orelse, s.body) if neg else (s.body, s.orelse)
                after_u = _walk_cons(ctx, f, var, ubody, 'U', scope, out, in_generator)
                after_d = 'D' if _falls_through(dbody) else None
                if after_u is None and state == 'U':
                    return None
                if after_u is None:
                    state = 'D' if after_d else None
                    if state is None:
                        return None
                    continue
                # the underrun path falls through the forwarder
                continue
            if _is_eoo_identity(s.test, var) and not s.orelse and all(
                    isinstance(b, (ast.Break, ast.Return, ast.Continue)) or
                    (isinstance(b, ast.If) and is_log_test(b.test)) for b in s.body):
                continue   # identity test with the EOO singleton: false for an underrun object, no effect
            out['problems'].append((s, 'statement `%s` is reachable while `%s` is bound to an underrun object '
                                       '(after the generator is resumed it runs once per suspension)' % (
                                           norm(s).split(':')[0][:80], var)))
            continue
        if isinstance(s, ast.Expr) and isinstance(s.value, ast.Yield):
            yv = s.value.value
            if isinstance(yv, ast.Name) and yv.id == var:
                out['forwarded'] = True
                continue
            if yv is None or (isinstance(yv, ast.Constant) and yv.value is None):
                out['forwarded_none'] = True
                continue
            out['problems'].append((s, 'yields `%s` while `%s` is an underrun object' % (norm(yv), var)))
            continue
        if isinstance(s, ast.Raise) and not in_generator and state == 'U':
            exc = s.exc.func if isinstance(s.exc, ast.Call) else s.exc
            if exc is not None and is_sue_class(ctx, f.module, exc):
                out['forwarded'] = True
                return None
            out['problems'].append((s, 'underrun converted into `%s`, not a SubstrateUnderrunError' % norm(s)))
            return None
        if isinstance(s, ast.Pass):
            continue
        if isinstance(s, ast.Continue):
            return None
        if isinstance(s, (ast.Break, ast.Return)):
            out['problems'].append((s, '`%s` leaves the loop while `%s` may be an underrun object (input dropped / '
                                       'underrun taken for the result)' % (norm(s), var)))
            return None
        out['problems'].append((s, 'statement `%s` is reachable while `%s` is bound to an underrun object '
                                   '(it runs once per suspension)' % (norm(s)[:80], var)))
    return state


def rule_cons(ctx, scope='off', rule='A2.cons'):
    fam = family(ctx, scope)
    for f, lp, ps in sorted(fam.loops, key=lambda t: (t[0].qualname, t[1].lineno)):
        pk = set()
        for p in ps:
            pk |= fam.members.get(p, set())
        key = 'for %s in %s' % (norm(lp.target), norm(lp.iter))
        if not isinstance(lp.target, ast.Name):
            ctx.ob(rule, f, key, False, 'loop target is not a simple name', node=lp)
            continue
        var = lp.target.id
        if 'U' not in pk:
            ctx.ob(rule, f, key, True, 'producers %s never yield an underrun object (kinds %s)' % (
                sorted(p.short for p in ps), sorted(pk)), node=lp, nontrivial=False)
            continue
        out = {'problems': [], 'forwarded': False}
        end = _walk_cons(ctx, f, var, lp.body, 'U?', scope, out, f.is_generator)
        probs = list(out['problems'])
        if not out['forwarded'] and end is not None:
            probs.append((lp, 'underrun objects from %s are never forwarded (`yield %s`): the loop spins on an '
                              'empty stream instead of suspending' % (sorted(p.short for p in ps), var)))
        if lp.orelse:
            probs.append((lp, 'for-else on a family loop is not analysed'))
        if probs and _first_arg_is_inmemory(f, lp):
            for node, msg in probs:
                ctx.ob(rule, f, key + ' :: ' + norm(node)[:60], True, msg + ' -- ' + CONS_INMEMORY_REASON, node=node, note=True)
            ctx.ob(rule, f, key, True, 'in-memory inner stream (frozen reasoning entry)', node=lp)
            continue
        if not probs:
            ctx.ob(rule, f, key, True, 'underrun objects are forwarded untouched; nothing else runs on them', node=lp)
        for node, msg in probs:
            ctx.ob(rule, f, key + ' :: ' + norm(node).split('\n')[0][:70], False, msg, node=node)


def rule_cons_on(ctx):
    rule_cons(ctx, 'on', 'A2.cons.log')


def rule_last(ctx, scope='off'):
    """A2.last: a family generator yields underrun objects, then its result as the LAST item.

    (1) every normal path ends with a data-capable yield; (2) after a data-capable yield no further item can be
    produced, except by continuing to forward the items of the same producer call (whose own last item is its
    result).  Consumers keep only the last item and forward only underrun objects, so a result followed by an
    underrun is lost and an underrun becomes the 'result'."""
    fam = family(ctx, scope)
    loopheads = {}
    for f, lp, ps in fam.loops:
        loopheads.setdefault(f, set()).add(lp)
    for f in sorted(fam.members, key=lambda f: f.qualname):
        if f.name == '__iter__':
            continue   # the top-level iterator yields many results
        if scope == 'off' and f in fam.leaves and f not in fam.consumed:
            continue
        cfg = ctx.cfg(f)
        ynodes = {}
        for y in yields_of(f, 'on'):
            ynodes.setdefault(cfg.node_of[_stmt_of(y, f.node)], []).append(y)
        famheads = set(cfg.node_of[lp] for lp in loopheads.get(f, ()))
        # a family producer always yields at least its result, so a loop that forwards every item always yields
        fwdall = set()
        for lp in loopheads.get(f, ()):
            if isinstance(lp.target, ast.Name) and any(
                    isinstance(st, ast.Expr) and isinstance(st.value, ast.Yield) and isinstance(st.value.value, ast.Name)
                    and st.value.value.id == lp.target.id for st in lp.body):
                fwdall.add(cfg.node_of[lp])
        for n, ys in ynodes.items():
            y = ys[0]
            if scope == 'off' and under_log(y, f.node):
                continue
            ks = yield_kinds(ctx, fam, f, y, fam.members)
            others = (set(ynodes) | fwdall) - {n}
            if cfg.exit in cfg.reachable(n, avoid=others):
                ok = 'D' in ks
                ctx.ob('A2.last', f, 'last item `%s`' % norm(y), ok,
                       'kinds %s; the final item of a family generator must be its result' % sorted(ks), node=y)
            if 'D' not in ks:
                continue
            # (2) nothing after the result
            bad = None
            seen = set()
            work = [(s, lab, 0) for s, lab in n.succs if lab != 'exc']
            while work and bad is None:
                b, lab, flag = work.pop()
                if b in famheads and lab not in ('back', 'continue'):
                    flag = 1
                if (b, flag) in seen:
                    continue
                seen.add((b, flag))
                if b in ynodes and not (scope == 'off' and under_log(ynodes[b][0], f.node)):
                    if b is not n or flag == 1:
                        bad = (b, flag)
                        break
                    # same forwarder in the same producer call: keep going
                for s2, lab2 in b.succs:
                    if lab2 == 'exc':
                        continue
                    work.append((s2, lab2, flag))
            ctx.ob('A2.last', f, 'nothing is yielded after the result `%s`' % norm(y), bad is None,
                   'after this data-capable yield %s' % (
                       'no further item can be produced' if bad is None else
                       'the generator can still yield `%s` (line %d)%s: the consumer takes the last item for the result'
                       % (norm(ynodes[bad[0]][0]), bad[0].lineno, ' from a new producer call' if bad[1] else '')),
                   node=y)


def _forward_all(f, y):
    return isinstance(y.value, ast.Name)


def rule_drop(ctx):
    """A2.drop: the final item of a stream read is used after the loop (no octets silently dropped)."""
    fam = family(ctx, 'off')
    rfs = ctx.func('codec.streaming.readFromStream')
    for f, lp, ps in sorted(fam.loops, key=lambda t: (t[0].qualname, t[1].lineno)):
        if rfs not in ps or not isinstance(lp.target, ast.Name):
            continue
        var = lp.target.id
        # forward-all loops hand every item to the caller
        if any(isinstance(s, ast.Expr) and isinstance(s.value, ast.Yield) and isinstance(s.value.value, ast.Name)
               and s.value.value.id == var for s in lp.body):
            ctx.ob('A2.drop', f, 'for %s in %s' % (var, norm(lp.iter)), True, 'every item is handed to the caller', node=lp,
                   nontrivial=False)
            continue
        cfg = ctx.cfg(f)
        head = cfg.node_of[lp]
        used = False
        for n in cfg.reachable(head, labels_skip=('item',)):
            if n.kind in ('entry', 'exit', 'raise') or n is head:
                continue
            if under_log(n.ast, f.node) if n.ast is not None else False:
                continue
            from sa.cfg import node_exprs, names_used, node_defs
            for e in node_exprs(n):
                if var in names_used(e):
                    used = True
        ctx.ob('A2.drop', f, 'for %s in %s' % (var, norm(lp.iter)), used,
               'the octets read into `%s` are %s after the loop' % (var, 'used' if used else 'never used (dropped)'), node=lp)


def rule_reads_confined(ctx):
    """A2.reads: decoder modules never read the substrate directly; only codec/streaming.py does."""
    n = 0
    for f in ctx.prog.all_functions():
        if f.module.name not in DEC_MODULES:
            continue
        for c in walk_own(f.node):
            if isinstance(c, ast.Call) and isinstance(c.func, ast.Attribute) and c.func.attr in ('read', 'peek', 'readline', 'readinto'):
                direct = f.module.name != 'pyasn1.codec.streaming'
                n += 1
                ctx.ob('A2.reads', f, norm(c)[:70], not direct,
                       'direct stream read outside codec/streaming.py bypasses the None/empty/short classification' if direct
                       else 'stream read inside the streaming module', node=c, nontrivial=False)
    if n < 3:
        raise AnalysisError('expected the stream reads of codec/streaming.py, found %d' % n)


def rule_oneshot(ctx):
    """A2.oneshot: the one-shot wrapper raises on the first underrun and returns the rest of the same stream."""
    f = ctx.func('codec.ber.decoder.Decoder.__call__')
    cfg = ctx.cfg(f)
    rets = [n for n in cfg.stmt_nodes() if n.kind == 'return']
    tests = [n for n in cfg.stmt_nodes() if n.kind == 'test' and isinstance_sue_test(ctx, f, n.ast.test)]
    if not rets:
        raise AnalysisError('no return in %s' % f.short)
    ok = bool(tests)
    detail = 'no isinstance(x, SubstrateUnderrunError) test'
    if tests:
        t = tests[0]
        var = isinstance_sue_test(ctx, f, t.ast.test)
        raises = [s for s in t.ast.body if isinstance(s, ast.Raise)]
        r_ok = bool(raises) and all(is_sue_class(ctx, f.module, (r.exc.func if isinstance(r.exc, ast.Call) else r.exc)) for r in raises)
        dom = all(cfg.dominates(t, r) for r in rets)
        # returned object is the tested loop variable
        retvar = all(isinstance(r.ast.value, ast.Tuple) and len(r.ast.value.elts) == 2 and norm(r.ast.value.elts[0]) == var for r in rets)
        ok = r_ok and dom and retvar
        detail = 'true arm raises SubstrateUnderrunError family: %s; test dominates every return: %s; returned object is the tested item: %s' % (r_ok, dom, retvar)
    ctx.ob('A2.oneshot', f, 'underrun item is raised, never returned', ok, detail, node=tests[0].ast if tests else None)
    # remainder: read-to-end of the same stream object handed to the streaming decoder
    body = list(walk_own(f.node))
    sd = [c for c in body if isinstance(c, ast.Call) and norm(c.func).endswith('STREAMING_DECODER') and c.args]
    if len(sd) != 1 or not isinstance(sd[0].args[0], ast.Name):
        raise AnalysisError('streaming decoder construction not found in %s' % f.short)
    stream = sd[0].args[0].id
    reads = [c for c in body if isinstance(c, ast.Call) and call_name(c) == 'readFromStream']
    det = []
    if not reads:
        det.append('the remainder is not read from the stream at all')
    for c in reads:
        if not c.args or norm(c.args[0]) != stream:
            det.append('`%s` reads another object than the stream `%s` the item was decoded from' % (norm(c), stream))
        if len(c.args) > 1 and const_int(c.args[1]) != -1:
            det.append('`%s` does not read to the end' % norm(c))
    # the statement that pulls the remainder out of the producer is inside a try with an EndOfStreamError handler
    # whose outcome is an empty remainder
    pulls = [c for c in body if isinstance(c, ast.Call) and isinstance(c.func, ast.Name) and c.func.id == 'next']
    guarded = False
    for t in [n for n in body if isinstance(n, ast.Try)]:
        inner = [c for st in t.body for c in ast.walk(st) if isinstance(c, ast.Call) and isinstance(c.func, ast.Name) and c.func.id == 'next']
        if not inner:
            continue
        for h in t.handlers:
            if h.type is not None and norm(h.type).endswith('EndOfStreamError'):
                empties = [st for st in h.body if (isinstance(st, ast.Assign) and norm(st.value) in ('null', "b''")) or
                           (isinstance(st, ast.Return) and norm(st.value) in ('null', "b''")) or
                           (isinstance(st, ast.Return) and isinstance(st.value, ast.Tuple) and st.value.elts and
                            norm(st.value.elts[-1]) in ('null', "b''"))]
                if empties and not raises_in(h.body):
                    guarded = True
                else:
                    det.append('the EndOfStreamError handler does not produce an empty remainder')
    if pulls and not guarded and not det:
        det.append('an exhausted stream makes the remainder read raise EndOfStreamError (no handler producing an empty remainder)')
    if reads and not pulls:
        raise AnalysisError('how the remainder is taken out of readFromStream() in %s is not understood' % f.short)
    ctx.ob('A2.oneshot', f, 'remainder is read from the same stream; exhausted stream gives an empty remainder',
           not det, '; '.join(det) or 'read to the end of `%s`, EndOfStreamError -> empty remainder' % stream)
    # asSeekableStream(substrate) precedes
    src = [norm(s) for s in stmts_of(f.node)]
    first = [s for s in src if s.startswith('substrate = asSeekableStream(substrate)')]
    ctx.ob('A2.oneshot', f, 'input normalised by asSeekableStream before decoding', bool(first), 'found: %s' % bool(first),
           nontrivial=False)


def rule_iter_total(ctx):
    """A2.iter: the top-level iterator decodes an item before it may end, so the one-shot wrapper always gets an item
    or an exception (its `for` loop has nothing after it: falling off would return None)."""
    fam = family(ctx, 'off')
    f = ctx.func('codec.ber.decoder.StreamingDecoder.__iter__')
    cfg = ctx.cfg(f)
    item = ctx.func('codec.ber.decoder.SingleItemDecoder.__call__')
    heads = [cfg.node_of[lp] for g, lp, ps in fam.loops if g is f and item in ps]
    if not heads:
        raise AnalysisError('item decoder loop not found in %s' % f.short)
    ok = cfg.exit not in cfg.reachable(cfg.entry, avoid=heads)
    if not ok:
        # a loop flag initialised to a constant (`done = False; while not done:`) makes the bypassing path contradict itself
        from sa.cfg import feasible_reach
        ok = not feasible_reach(cfg, cfg.entry, cfg.exit, avoid=heads)
    ctx.ob('A2.iter', f, 'no path to the end of the iterator bypasses the item decoder', ok,
           'the iterator can finish without having run the item decoder: on an exhausted stream it yields nothing, and '
           'Decoder.__call__ falls off its loop and returns None instead of raising' if not ok else 'every path runs the item decoder first',
           node=heads[0].ast)
    d = ctx.func('codec.ber.decoder.Decoder.__call__')
    dcfg = ctx.cfg(d)
    loops = [n for n in dcfg.stmt_nodes() if n.kind == 'for']
    rets = [n for n in dcfg.stmt_nodes() if n.kind == 'return']
    ok = len(loops) == 1 and bool(rets) and all(r.loop is loops[0] for r in rets)
    ctx.ob('A2.iter', d, 'the wrapper returns from inside its loop over the streaming decoder', ok, '', nontrivial=False)
