"""A3 `excflow` (raise-class discipline, guarded partial operations), A13 `nonevalue`, A14 `progress`."""
import ast

from sa.model import AnalysisError, ClassInfo, External, FuncInfo, norm, walk_own, ancestors
from sa.cfg import reaching_defs, node_exprs, names_used, node_defs, feasible_reach
from sa.util import is_log_test, call_name, const_int, if_chain
from sa.rules import genproto as G
from sa import intexpr

PYERR = 'pyasn1.error.PyAsn1Error'
DEC_MODULES = ('pyasn1.codec.ber.decoder', 'pyasn1.codec.cer.decoder', 'pyasn1.codec.der.decoder',
               'pyasn1.codec.streaming')
TYPE_MODULES = ('pyasn1.type.univ', 'pyasn1.type.char', 'pyasn1.type.useful', 'pyasn1.type.base',
                'pyasn1.type.tag', 'pyasn1.type.tagmap', 'pyasn1.type.namedtype', 'pyasn1.type.namedval',
                'pyasn1.type.constraint', 'pyasn1.type.opentype', 'pyasn1.codec.ber.eoo')

# Raises of non-library exceptions that are part of a Python protocol, each with its reason.
# key: (function short name, exception class name)
RAISE_ALLOW = {
    ('codec.ber.decoder.ConstructedPayloadDecoderBase._getComponentTagMap', 'NotImplementedError'):
        'abstract hook without any caller in the package (checked: zero call sites)',
    ('codec.ber.decoder.ConstructedPayloadDecoderBase._getComponentPositionByType', 'NotImplementedError'):
        'abstract hook without any caller in the package (checked: zero call sites)',
    ('type.base.Asn1Type.prettyPrint', 'NotImplementedError'): 'abstract method, overridden by every concrete type',
    ('type.base.NoValue.__getattr__', 'AttributeError'):
        'only for the names in skipMethods (pickle/attribute protocol probes by the interpreter)',
    ('type.univ.BitString.__getitem__', 'IndexError'): 'Python sequence protocol: indexing out of range',
    ('type.univ.SequenceOfAndSetOfBase.__getitem__', 'IndexError'):
        'Python sequence protocol; the decoder subscripts containers only at positions produced by enumerate()',
    ('type.univ.SequenceOfAndSetOfBase.__setitem__', 'IndexError'):
        'Python sequence protocol; the decoder stores only at positions produced by enumerate()',
    ('type.univ.SequenceOfAndSetOfBase.index', 'ValueError'): 'Python list protocol (list.index)',
    ('type.univ.SequenceAndSetBase.__getitem__', 'KeyError'): 'Python mapping protocol',
    ('type.univ.SequenceAndSetBase.__getitem__', 'IndexError'): 'Python sequence protocol',
    ('type.univ.SequenceAndSetBase.__setitem__', 'KeyError'): 'Python mapping protocol',
    ('type.univ.SequenceAndSetBase.__setitem__', 'IndexError'): 'Python sequence protocol',
    ('type.tagmap.TagMap.__getitem__', 'KeyError'):
        'mapping protocol; every subscript of a TagMap in the decoder sits in try/except KeyError (checked by A3.tagmap)',
    ('type.tag.Tag.__getitem__', 'IndexError'): 'tuple protocol: ends unpacking of a Tag',
}


def _raised_class(ctx, f, r):
    """(kind, name): kind in library/builtin/reraise/captured/unknown."""
    e = r.exc
    if e is None:
        return 'reraise', ''
    target = e.func if isinstance(e, ast.Call) else e
    c = ctx.prog.resolve_expr(f.module, target)
    if isinstance(c, ClassInfo):
        if c.subclass_of_name(PYERR):
            return 'library', c.short
        return 'other', c.short
    if isinstance(target, ast.Name):
        # exType from sys.exc_info() inside `except <library error>`; or a captured library exception instance
        name = target.id
        for a in ancestors(r, f.node):
            if isinstance(a, ast.ExceptHandler) and a.type is not None:
                hc = ctx.prog.resolve_expr(f.module, a.type)
                if isinstance(hc, ClassInfo) and hc.subclass_of_name(PYERR):
                    for n in ast.walk(a):
                        if isinstance(n, ast.Assign) and 'sys.exc_info()' in norm(n.value) and name in [
                                x.id for t in n.targets for x in ast.walk(t) if isinstance(x, ast.Name)]:
                            return 'captured', 'type of the library error being handled'
        defs = [n for n in walk_own(f.node) if isinstance(n, ast.Assign) and
                any(isinstance(t, ast.Name) and t.id == name for t in n.targets)]
        if defs and all(isinstance(d.value, ast.Attribute) and d.value.attr == 'isInconsistent' for d in defs):
            return 'captured', 'value of .isInconsistent (a captured library error, see A3.incons)'
    # `raise self._helper(...)` / `raise _helper(...)`: a factory all of whose returns construct a library error
    if isinstance(e, ast.Call) and not isinstance(c, ClassInfo):
        h = None
        if isinstance(target, ast.Attribute) and isinstance(target.value, ast.Name) and target.value.id in ('self', 'cls') and f.cls is not None:
            h = f.cls.method(target.attr)
        elif isinstance(target, ast.Name):
            h = ctx.prog.functions.get(f.module.name + '.' + target.id)
        if h is not None and h is not f:
            rets = [x for x in walk_own(h.node) if isinstance(x, ast.Return)]
            kinds = []
            for x in rets:
                hc = ctx.prog.resolve_expr(h.module, x.value.func) if isinstance(x.value, ast.Call) else None
                kinds.append(hc.short if isinstance(hc, ClassInfo) and hc.subclass_of_name(PYERR) else None)
            if rets and all(kinds) and not any(isinstance(x, (ast.Yield, ast.YieldFrom)) for x in walk_own(h.node)):
                return 'library', '%s (built by %s)' % ('/'.join(sorted(set(kinds))), h.short)
    if isinstance(c, External) or c is None:
        nm = norm(target)
        return 'builtin', nm
    return 'unknown', norm(target)


def rule_raise(ctx, modules=DEC_MODULES + TYPE_MODULES, rule='A3.raise'):
    n = 0
    for f in ctx.prog.all_functions():
        if f.module.name not in modules:
            continue
        for r in walk_own(f.node):
            if not isinstance(r, ast.Raise):
                continue
            n += 1
            kind, name = _raised_class(ctx, f, r)
            if kind in ('library', 'reraise', 'captured'):
                ctx.ob(rule, f, norm(r)[:80], True, '%s %s' % (kind, name), node=r, nontrivial=(kind != 'library'))
                continue
            reason = RAISE_ALLOW.get((f.short, name))
            if reason:
                ctx.ob(rule, f, norm(r)[:80], True, 'allowed non-library raise: ' + reason, node=r)
            else:
                ctx.ob(rule, f, norm(r)[:80], False,
                       'raises %s, which is not derived from the library base error and is not a recorded Python-protocol '
                       'raise: it can escape a decoder' % (name or kind), node=r)
    if n < 100:
        raise AnalysisError('only %d raise statements found in scope' % n)
    # the two NotImplementedError hooks have no caller
    for hook in ('_getComponentTagMap', '_getComponentPositionByType'):
        callers = 0
        for f in ctx.prog.all_functions():
            for c in walk_own(f.node):
                if isinstance(c, ast.Call) and call_name(c) == hook:
                    callers += 1
        ctx.ob(rule, 'codec.ber.decoder.ConstructedPayloadDecoderBase.%s' % hook, 'abstract hook has no caller', callers == 0,
               '%d call site(s)' % callers, nontrivial=False)
    # isInconsistent returns False or a captured library error
    for q in ('type.univ.SequenceOfAndSetOfBase.isInconsistent', 'type.univ.SequenceAndSetBase.isInconsistent'):
        f = ctx.func(q)
        ok = True
        for r in walk_own(f.node):
            if isinstance(r, ast.Return):
                v = r.value
                if isinstance(v, ast.Constant) and v.value in (False, True):
                    continue
                if isinstance(v, ast.Name):
                    inh = [a for a in ancestors(r, f.node) if isinstance(a, ast.ExceptHandler)]
                    if inh and isinstance(ctx.prog.resolve_expr(f.module, inh[0].type), ClassInfo) and \
                            ctx.prog.resolve_expr(f.module, inh[0].type).subclass_of_name(PYERR):
                        continue
                ok = False
        ctx.ob('A3.incons', f, 'returns False/True or the library error it caught', ok, 'return statements inspected')


def rule_tagmap_guard(ctx):
    """A3.tagmap: subscripts of a TagMap / codec map in the item decoder sit inside try/except KeyError."""
    f = ctx.func('codec.ber.decoder.SingleItemDecoder.__call__')
    n = 0
    for s in walk_own(f.node):
        if isinstance(s, ast.Subscript) and isinstance(s.ctx, ast.Load) and isinstance(s.value, ast.Name) \
                and s.value.id in ('asn1Spec', 'tagMap', 'typeMap'):
            n += 1
            ok = False
            for a in ancestors(s, f.node):
                if isinstance(a, ast.Try) and any(h.type is not None and norm(h.type) == 'KeyError' for h in a.handlers):
                    cur = s
                    while cur.parent is not a:
                        cur = cur.parent
                    if cur in a.body:
                        ok = True
            ctx.ob('A3.tagmap', f, norm(s), ok, 'lookup %s inside try/except KeyError' % ('is' if ok else 'is NOT'), node=s)
    if n < 4:
        raise AnalysisError('expected the map lookups of the item decoder, found %d' % n)


def rule_hier(ctx):
    """A3.hier: the error hierarchy the decoders and their callers rely on."""
    want = [('error.EndOfStreamError', 'error.SubstrateUnderrunError'),
            ('error.SubstrateUnderrunError', 'error.PyAsn1Error'),
            ('error.ValueConstraintError', 'error.PyAsn1Error'),
            ('error.UnsupportedSubstrateError', 'error.PyAsn1Error'),
            ('error.PyAsn1UnicodeDecodeError', 'error.PyAsn1Error'),
            ('error.PyAsn1UnicodeEncodeError', 'error.PyAsn1Error'),
            ('type.error.ValueConstraintError', 'error.PyAsn1Error')]
    for sub, sup in want:
        try:
            c = ctx.cls(sub)
        except AnalysisError:
            r = ctx.prog.resolve_name(ctx.mod(sub.rsplit('.', 1)[0]), sub.rsplit('.', 1)[1])
            if not isinstance(r, ClassInfo):
                raise
            c = r
        ok = c.subclass_of_name('pyasn1.' + sup)
        ctx.ob('A3.hier', c, 'subclass of %s' % sup, ok, 'MRO: %s' % [getattr(x, 'short', getattr(x, 'name', '?')) for x in c.mro],
               nontrivial=False)
    # PyAsn1Error derives from Exception (and not from BaseException directly)
    c = ctx.cls('error.PyAsn1Error')
    ctx.ob('A3.hier', c, 'derives from Exception', any(isinstance(b, External) and b.name == 'Exception' for b in c.mro),
           'bases %s' % [norm(b) for b in c.node.bases], nontrivial=False)


def _sub_truth(test, v, val):
    """Truth of `test` with the read result `v` bound to `val`, conjuncts / disjuncts that do not mention `v` taken as
    true (they restrict when the test is reached, not how the read result is classified)."""
    from sa import intexpr as _ie
    if isinstance(test, ast.BoolOp):
        vals = []
        for x in test.values:
            if v in [n.id for n in ast.walk(x) if isinstance(n, ast.Name)]:
                vals.append(_sub_truth(x, v, val))
            elif isinstance(test.op, ast.And):
                vals.append(True)
            else:
                vals.append(False)
        return all(vals) if isinstance(test.op, ast.And) else any(vals)
    if isinstance(test, ast.UnaryOp) and isinstance(test.op, ast.Not):
        return not _sub_truth(test.operand, v, val)
    return bool(_ie.ev(test, {v: val}))


def rule_trunc(ctx):
    """A3.trunc: truncation is classified as underrun, never as malformed.

    (a) readFromStream: empty read of a non-zero size raises EndOfStreamError; None and short reads suspend.
    (b) a raise that depends on an end-of-stream probe is of the SubstrateUnderrunError family.
    (c) raises guarded by the emptiness / shortness of a sized read in the header decoder are underrun errors."""
    f = ctx.func('codec.streaming.readFromStream')
    cfg = ctx.cfg(f)
    raises = [n for n in cfg.stmt_nodes() if n.kind == 'raisestmt']
    ok = False
    detail = 'no raise found'
    reads = G._stream_read_calls(f)
    rvar = None
    for rc in reads:
        st = G._stmt_of(rc, f.node)
        if isinstance(st, ast.Assign) and isinstance(st.targets[0], ast.Name):
            rvar = st.targets[0].id
    szpar = f.params()[1] if len(f.params()) > 1 else 'size'
    for r in raises:
        kind, name = _raised_class(ctx, f, r.ast)
        deps = [(b.ast.test, lab) for b, lab in cfg.control_deps(r) if b.kind == 'test']
        texts = [(norm(t), lab) for t, lab in deps]
        want = ('not %s and %s != 0' % (rvar, szpar), '%s != 0 and (not %s)' % (szpar, rvar), '%s != 0 and not %s' % (szpar, rvar))
        if name.endswith('EndOfStreamError') and any(t in want and lab == 'true' for t, lab in texts):
            ok = True
        detail = 'raise %s under %s' % (name, texts)
    ctx.ob('A3.trunc', f, 'empty read of a non-zero size raises EndOfStreamError', ok, detail)
    # no other outcome of a read may be reported as an error: None and short reads mean "not yet"
    for g in sorted(G.family(ctx, 'on').leaves, key=lambda x: x.qualname):
        gcfg = ctx.cfg(g)
        greads = G._stream_read_calls(g)
        gvars = []
        for rc in greads:
            st = G._stmt_of(rc, g.node)
            if isinstance(st, ast.Assign) and isinstance(st.targets[0], ast.Name):
                gvars.append(st.targets[0].id)
        gvar = ', '.join(gvars) or None
        for r in [n for n in gcfg.stmt_nodes() if n.kind == 'raisestmt']:
            if any(isinstance(a, ast.ExceptHandler) for a in ancestors(r.ast, g.node)):
                continue   # conversion of an exception of the read call itself, not a classification of its result
            deps = []
            work = [r]
            seen = set()
            while work:
                x = work.pop()
                for b, lab in gcfg.control_deps(x):
                    if (b, lab) not in seen:
                        seen.add((b, lab))
                        deps.append((b, lab))
                        work.append(b)
            # some enclosing test, evaluated over the three outcomes of a read (None / empty / data), is passed on the way
            # to the raise exactly for the empty outcome - however the test is spelt
            from sa import intexpr as _ie

            cache_ = locals().setdefault('_trunc_cache_%s' % g.qualname.replace('.', '_'), {})

            def truth(test, v, val):
                try:
                    return bool(_ie.ev(test, {v: val, 'size': 5}))
                except _ie.NotPure:
                    return _sub_truth(test, v, val)

            def reaching_outcomes(v):
                """read outcomes under which every enclosing test that looks at the read result lets control through"""
                # the tests on the read result that every path to the raise passes, with the edge it takes (nested ifs,
                # elif chains and guard clauses alike), the result not being re-read in between
                from sa.cfg import _cuts
                rel = []
                if 'rd' not in cache_:
                    cache_['rd'] = reaching_defs(gcfg, g.params())
                rd_ = cache_['rd']
                for t_ in gcfg.nodes:
                    if t_.kind != 'test' or t_.ast is None or v not in [x.id for x in ast.walk(t_.ast.test) if isinstance(x, ast.Name)]:
                        continue
                    if rd_[t_].get(v) != rd_[r].get(v):
                        continue
                    for lab_ in ('true', 'false'):
                        if _cuts(gcfg, t_, lab_, r):
                            rel.append((t_.ast.test, lab_ == 'true'))
                if not rel:
                    return None
                out = []
                for label, val in (('None', None), ('empty', 0), ('data', 1)):
                    try:
                        if all(truth(t_, v, val) == pol for t_, pol in rel):
                            out.append(label)
                    except _ie.NotPure:
                        return None
                return out
            on_empty = any(reaching_outcomes(v) == ['empty'] for v in gvars)
            ctx.ob('A3.trunc', g, 'raise `%s` only on an empty read' % norm(r.ast)[:50], on_empty,
                   'a stream read that returned None or fewer octets than asked for means "not yet" (the caller retries): '
                   'raising here turns an empty poll / short read into an error the complete input does not raise'
                   if not on_empty else 'depends on `not %s`' % gvar, node=r.ast)
    # (b) end-of-stream probes
    fam = G.family(ctx, 'off')
    ies = ctx.func('codec.streaming.isEndOfStream')
    nprobe = 0
    for g, lp, ps in fam.loops:
        if ies not in ps or not isinstance(lp.target, ast.Name):
            continue
        nprobe += 1
        var = lp.target.id
        gcfg = ctx.cfg(g)
        for r in [n for n in gcfg.stmt_nodes() if n.kind == 'raisestmt']:
            deps = gcfg.control_deps(r)
            dep_on_probe = any(b.kind == 'test' and var in names_used(b.ast.test) for b, lab in deps)
            if dep_on_probe:
                kind, name = _raised_class(ctx, g, r.ast)
                c = ctx.prog.resolve_expr(g.module, r.ast.exc.func if isinstance(r.ast.exc, ast.Call) else r.ast.exc)
                isu = isinstance(c, ClassInfo) and c.subclass_of_name(G.SUE)
                ctx.ob('A3.trunc', g, 'raise depending on end-of-stream probe `%s`' % var, isu,
                       '`%s` is raised when the stream ends here; it must be a SubstrateUnderrunError' % norm(r.ast)[:70], node=r.ast)
    ctx.ob('A3.trunc', 'codec', 'end-of-stream probes enumerated', True, '%d consumer loop(s) of isEndOfStream' % nprobe,
           nontrivial=False)
    # (c) header decoder
    f = ctx.func('codec.ber.decoder.SingleItemDecoder.__call__')
    cfg = ctx.cfg(f)
    n = 0
    for r in [x for x in cfg.stmt_nodes() if x.kind == 'raisestmt']:
        deps = [(b, lab) for b, lab in cfg.control_deps(r) if b.kind == 'test']
        for b, lab in deps:
            t = norm(b.ast.test)
            if t in ('not integerByte', 'len(encodedLength) != size'):
                n += 1
                c = ctx.prog.resolve_expr(f.module, r.ast.exc.func if isinstance(r.ast.exc, ast.Call) else r.ast.exc)
                isu = isinstance(c, ClassInfo) and c.subclass_of_name(G.SUE)
                ctx.ob('A3.trunc', f, 'short header read `%s`' % t, isu, 'raises `%s`' % norm(r.ast)[:60], node=r.ast)


# ------------------------------------------------------------- A3.partial

PARTIAL_REASONS = {
    # (function short, normalised site) -> reason
    ('codec.ber.decoder.ObjectIdentifierPayloadDecoder.valueDecoder', 'oid[0]'):
        'the arc loop runs at least once on the non-empty chunk (guarded above) and every iteration that does not '
        'raise appends one arc, so `oid` is non-empty after the loop',
}


def _edge_dominates(cfg, t, label, use):
    """Every path ENTRY ->* use goes through the edge (t --label-->)."""
    removed = [(s, lab) for s, lab in t.succs if lab == label]
    if not removed:
        return False
    seen = set()
    stack = [cfg.entry]
    while stack:
        n = stack.pop()
        for s, lab in n.succs:
            if n is t and lab == label:
                continue
            if s in seen:
                continue
            seen.add(s)
            stack.append(s)
    return use not in seen


def _nonempty_branch(test, var):
    """Label ('true'/'false') of the branch of `test` on which `var` is known to be non-empty, or None."""
    def is_var(e):
        return isinstance(e, ast.Name) and e.id == var

    def is_not_var(e):
        return isinstance(e, ast.UnaryOp) and isinstance(e.op, ast.Not) and is_var(e.operand)
    if is_var(test):
        return 'true'
    if is_not_var(test):
        return 'false'
    if isinstance(test, ast.BoolOp) and isinstance(test.op, ast.Or) and any(is_not_var(v) for v in test.values):
        return 'false'
    if isinstance(test, ast.BoolOp) and isinstance(test.op, ast.And) and any(is_var(v) for v in test.values):
        return 'true'
    if isinstance(test, ast.Compare) and len(test.ops) == 1 and isinstance(test.left, ast.Call) \
            and call_name(test.left) == 'len' and test.left.args and is_var(test.left.args[0]):
        c = const_int(test.comparators[0])
        if c is not None:
            op = test.ops[0]
            if isinstance(op, ast.Gt) and c >= 0:
                return 'true'
            if isinstance(op, ast.GtE) and c >= 1:
                return 'true'
            if isinstance(op, ast.Eq) and c == 0:
                return 'false'
            if isinstance(op, ast.Lt) and c <= 1:
                return 'false'
    return None


def _wire_vars(ctx, f, fam):
    """Local names holding octets read from the wire: final items of family loops and values derived from them."""
    wire = set()
    for g, lp, ps in fam.loops:
        if g is f and isinstance(lp.target, ast.Name):
            wire.add(lp.target.id)
    changed = True
    while changed:
        changed = False
        for n in walk_own(f.node):
            if isinstance(n, ast.Assign):
                used = names_used(n.value)
                if used & wire:
                    for t in n.targets:
                        for x in ast.walk(t):
                            if isinstance(x, ast.Name) and x.id not in wire:
                                # scalars extracted by index/ord are not sequences any more
                                wire.add(x.id)
                                changed = True
    return wire


def _raw_vars(ctx, f, fam):
    """Local names holding raw octets: items of stream reads and of collecting (`substrateFun=`) decodes, and
    values accumulated from them."""
    rfs = ctx.func('codec.streaming.readFromStream')
    raw = set()
    for g, lp, ps in fam.loops:
        if g is f and isinstance(lp.target, ast.Name):
            if rfs in ps or (isinstance(lp.iter, ast.Call) and any(k.arg == 'substrateFun' for k in lp.iter.keywords)):
                raw.add(lp.target.id)
    changed = True
    while changed:
        changed = False
        for n in walk_own(f.node):
            tgt = None
            if isinstance(n, ast.Assign) and len(n.targets) == 1 and isinstance(n.targets[0], ast.Name):
                tgt, val = n.targets[0].id, n.value
            elif isinstance(n, ast.AugAssign) and isinstance(n.target, ast.Name):
                tgt, val = n.target.id, n.value
            if tgt and tgt not in raw and names_used(val) & raw and not isinstance(val, ast.Call):
                raw.add(tgt)
                changed = True
    return raw


def _octet_scalars(ctx, f, fam):
    """Raw octets read from the stream and the integers taken out of them (ord / oct2int / indexing, and arithmetic on
    those): values an attacker chooses freely."""
    raw = _raw_vars(ctx, f, fam)
    out = set(raw)
    changed = True
    while changed:
        changed = False
        for n in walk_own(f.node):
            if isinstance(n, ast.Assign) and len(n.targets) == 1 and isinstance(n.targets[0], ast.Name) and n.targets[0].id not in out:
                v = n.value
                hit = False
                for x in ast.walk(v):
                    if isinstance(x, ast.Call) and call_name(x) in ('ord', 'oct2int') and names_used(x) & out:
                        hit = True
                    if isinstance(x, ast.Subscript) and isinstance(x.value, ast.Name) and x.value.id in out:
                        hit = True
                if not hit and isinstance(v, (ast.BinOp, ast.UnaryOp)) and names_used(v) & (out - raw):
                    hit = True
                if hit:
                    out.add(n.targets[0].id)
                    changed = True
    return out


def _sized_read(ctx, f, fam, var, cfg):
    """If `var` is the loop variable of `readFromStream(substrate, <size>, ...)` return the size expression."""
    rfs = ctx.func('codec.streaming.readFromStream')
    for g, lp, ps in fam.loops:
        if g is f and isinstance(lp.target, ast.Name) and lp.target.id == var and rfs in ps:
            it = lp.iter
            if isinstance(it, ast.Call) and len(it.args) >= 2:
                return it.args[1], lp
    return None, None


def rule_partial(ctx):
    """A3.partial: value-dependent partial operations on wire octets are guarded."""
    fam = G.family(ctx, 'off')
    nsites = 0
    for f in ctx.prog.all_functions():
        if f.module.name not in DEC_MODULES or not f.is_generator:
            continue
        wire = _wire_vars(ctx, f, fam)
        if not wire:
            continue
        cfg = ctx.cfg(f)
        rd = None
        for n in cfg.stmt_nodes():
            for e in node_exprs(n):
                for x in ast.walk(e):
                    site = None
                    if isinstance(x, ast.Subscript) and isinstance(x.ctx, ast.Load) and isinstance(x.value, ast.Name) \
                            and x.value.id in wire and const_int(x.slice) is not None:
                        site = (x.value.id, const_int(x.slice), norm(x))
                    elif isinstance(x, ast.Call) and isinstance(x.func, ast.Name) and x.func.id == 'ord' and x.args \
                            and isinstance(x.args[0], ast.Name) and x.args[0].id in wire:
                        site = (x.args[0].id, 0, norm(x))
                    if site is None and isinstance(x, ast.Subscript) and isinstance(x.ctx, ast.Load) and \
                            not isinstance(x.slice, ast.Slice) and const_int(x.slice) is None and \
                            isinstance(x.value, (ast.Attribute, ast.Name, ast.Dict, ast.Tuple, ast.List)) and \
                            not (isinstance(x.value, ast.Name) and x.value.id in wire) and (names_used(x.slice) & _octet_scalars(ctx, f, fam)):
                        # a table looked up with a key taken from the wire: KeyError / IndexError unless caught or tested
                        if n.ast is not None and G.under_log(x, f.node):
                            continue
                        nsites += 1
                        caught = False
                        for a in ancestors(x, f.node):
                            if isinstance(a, ast.Try) and any(x is y for b_ in a.body for y in ast.walk(b_)):
                                for h in a.handlers:
                                    names_ = [norm(h.type)] if h.type is not None and not isinstance(h.type, ast.Tuple) else \
                                        ([norm(e_) for e_ in h.type.elts] if h.type is not None else ['BaseException'])
                                    need = ('KeyError', 'IndexError', 'LookupError', 'Exception', 'BaseException')
                                    # a dict (literal, or a class attribute bound to one) raises KeyError, a tuple / list IndexError
                                    tbl = x.value
                                    if isinstance(tbl, ast.Attribute) and isinstance(tbl.value, ast.Name) and tbl.value.id in ('self', 'cls') and f.cls is not None:
                                        o_, d_ = f.cls.lookup(tbl.attr)
                                        if d_ is not None and d_[0] == 'value':
                                            tbl = d_[1]
                                    if isinstance(tbl, ast.Dict):
                                        need = ('KeyError', 'LookupError', 'Exception', 'BaseException')
                                    elif isinstance(tbl, (ast.Tuple, ast.List)):
                                        need = ('IndexError', 'LookupError', 'Exception', 'BaseException')
                                    if any(nm.split('.')[-1] in need for nm in names_):
                                        caught = True
                        from sa.cfg import known_at as _known_at
                        tested = _known_at(cfg, n, '%s in %s' % (norm(x.slice), norm(x.value)), True)
                        okl = caught or tested
                        ctx.ob('A3.partial', f, 'lookup `%s` with a key from the wire' % norm(x)[:50], okl,
                               'a key that is not in the table raises KeyError / IndexError out of the decoder: not a PyAsn1Error' if not okl
                               else ('inside try/except' if caught else 'membership tested'), node=x)
                        continue
                    if site is None:
                        continue
                    if n.ast is not None and G.under_log(x, f.node):
                        continue
                    var, idx, text = site
                    if rd is None:
                        rd = reaching_defs(cfg, f.params())
                    nsites += 1
                    ok, why = _guarded(ctx, f, fam, cfg, rd, n, var, idx, x)
                    reason = PARTIAL_REASONS.get((f.short, text))
                    if not ok and reason:
                        ok, why = True, 'reasoning entry: ' + reason
                    ctx.ob('A3.partial', f, text, ok, why, node=x)
    if nsites < 12:
        raise AnalysisError('A3.partial found only %d partial-operation sites' % nsites)


LENGTH_PRESERVING = ('octs2ints', 'list', 'tuple', 'bytes', 'bytearray')


def _guarded(ctx, f, fam, cfg, rd, usenode, var, idx, expr):
    defs_at_use = rd[usenode].get(var, set())
    # look through `v = octs2ints(v)`-style redefinitions: they keep the length
    for _ in range(3):
        if len(defs_at_use) == 1:
            d = next(iter(defs_at_use))
            if d.kind == 'stmt' and isinstance(d.ast, ast.Assign) and isinstance(d.ast.value, ast.Call) and \
                    call_name(d.ast.value) in LENGTH_PRESERVING and len(d.ast.value.args) == 1 and \
                    isinstance(d.ast.value.args[0], ast.Name) and d.ast.value.args[0].id == var:
                defs_at_use = rd[d].get(var, set())
                continue
        break
    # (0) short-circuit guard in the same expression: `v and v[0]...`
    cur = expr
    for a in ancestors(expr, f.node):
        if isinstance(a, ast.BoolOp) and isinstance(a.op, ast.And):
            pos = [i for i, x in enumerate(a.values) if x is cur or any(y is cur for y in ast.walk(x))]
            if pos and any(isinstance(x, ast.Name) and x.id == var for x in a.values[:pos[0]]):
                return True, 'short-circuit guard `%s and ...` in the same expression' % var
        if isinstance(a, ast.stmt):
            break
        cur = a
    # (a) fixed-size read
    size, lp = _sized_read(ctx, f, fam, var, cfg)
    if size is not None and defs_at_use == {cfg.node_of[lp]}:
        c = const_int(size)
        if c is not None and c >= idx + 1:
            return True, 'result of a read of exactly %d octet(s) (exact-size-or-underrun contract of readFromStream)' % c
        if isinstance(size, ast.Name):
            # equality guard with raising arm: `if length != 1: raise`
            for t in cfg.stmt_nodes():
                if t.kind == 'test' and isinstance(t.ast.test, ast.Compare) and len(t.ast.test.ops) == 1 \
                        and isinstance(t.ast.test.ops[0], ast.NotEq) and norm(t.ast.test.left) == size.id:
                    c = const_int(t.ast.test.comparators[0])
                    body_raises = any(isinstance(s, ast.Raise) for s in t.ast.body)
                    if c is not None and c >= idx + 1 and body_raises and _edge_dominates(cfg, t, 'false', usenode):
                        return True, 'read of `%s` octets with `%s` guarded to be %d' % (size.id, size.id, c)
    # (b) dominating non-emptiness test on the same definition
    if idx == 0:
        for t in cfg.stmt_nodes():
            if t.kind not in ('test', 'while'):
                continue
            lab = _nonempty_branch(t.ast.test, var)
            if lab is None:
                continue
            if rd[t].get(var, set()) != defs_at_use:
                continue
            if _edge_dominates(cfg, t, lab, usenode):
                return True, 'dominated by the %s branch of `%s` on the same definition of `%s`' % (lab, norm(t.ast.test), var)
    # (c) enclosing handler for IndexError/TypeError raising a library error
    for a in ancestors(expr, f.node):
        if isinstance(a, ast.Try):
            for h in a.handlers:
                if h.type is not None and 'IndexError' in norm(h.type) and any(isinstance(s, ast.Raise) for s in h.body):
                    return True, 'inside try/except IndexError that raises a library error'
    return False, ('`%s` can be empty here: no fixed-size read, no dominating non-emptiness test on the same definition, '
                   'no IndexError handler -- an empty %s makes this raise IndexError/TypeError out of the decoder' % (var, var))


def rule_schema_index(ctx):
    """A3.partial (S5): per-component subscripts of the schema's named types are bounded."""
    for q in ('codec.ber.decoder.ConstructedPayloadDecoderBase.valueDecoder',
              'codec.ber.decoder.ConstructedPayloadDecoderBase.indefLenValueDecoder'):
        f = ctx.func(q)
        cfg = ctx.cfg(f)
        rd = reaching_defs(cfg, f.params())
        sites = []
        for n in cfg.stmt_nodes():
            for e in node_exprs(n):
                for x in ast.walk(e):
                    if isinstance(x, ast.Subscript) and isinstance(x.ctx, ast.Load) and norm(x) == 'namedTypes[idx]':
                        sites.append((n, x))
        if len(sites) < 1:
            raise AnalysisError('expected the namedTypes[idx] accesses in %s' % f.short)
        protected = []
        for n, x in sites:
            inside = False
            for a in ancestors(x, f.node):
                if isinstance(a, ast.Try) and any(h.type is not None and 'IndexError' in norm(h.type) and
                                                  any(isinstance(s, ast.Raise) for s in h.body) for h in a.handlers):
                    cur = x
                    while cur.parent is not a:
                        cur = cur.parent
                    if cur in a.body:
                        inside = True
            if inside:
                protected.append((n, x))
        seen_keys = set()
        for n, x in sites:
            if (n, x) in protected:
                ok, why = True, 'inside try/except IndexError raising a library error'
            else:
                # dominated by a protected access with the same definition of idx on every path
                ok = False
                why = 'not inside an IndexError handler'
                for pn, px in protected:
                    if cfg.dominates(pn, n) and rd[pn].get('idx') == rd[n].get('idx'):
                        # every path from entry to n must pass a protected access: dominance by ONE access is sufficient,
                        # by the set of them needs the try statement
                        ok, why = True, 'dominated by a protected access with the same `idx`'
                        break
                if not ok:
                    # set-dominance: every path to n passes through some protected access with same idx def
                    pset = [pn for pn, px in protected if rd[pn].get('idx') == rd[n].get('idx')]
                    if pset and n not in cfg.reachable(cfg.entry, avoid=pset):
                        ok, why = True, 'every path passes a protected access with the same `idx`'
                    elif pset and not feasible_reach(cfg, cfg.entry, n, avoid=pset):
                        ok, why = True, ('every path that bypasses the protected accesses contradicts itself on a boolean '
                                         'atom (schema empty / SET / bound check with raising arm)')
                    else:
                        why = ('`namedTypes[idx]` is reached on a path that bypasses the IndexError-protected access '
                               '(a component beyond the schema makes it raise IndexError out of the decoder)')
            base = '%s @ %s' % (norm(x), norm(n.ast.test if n.kind in ('test', 'while') else n.ast).split('\n')[0][:60])
            if (base, n) in seen_keys:
                continue
            seen_keys.add((base, n))
            k = len([1 for b, _ in seen_keys if b == base])
            key = base if k == 1 else '%s #%d' % (base, k)
            ctx.ob('A3.partial', f, key, ok, why, node=x)


# ------------------------------------------------------------------- A13

def rule_nonevalue(ctx):
    """A13: no None / noValue / unassigned name reaches a result yield of the decoder generators."""
    fam = G.family(ctx, 'off')
    for f in sorted(fam.members, key=lambda f: f.qualname):
        if f in fam.leaves:
            continue
        cfg = ctx.cfg(f)
        rd = None
        for y in G.yields_of(f, 'off'):
            ks = G.yield_kinds(ctx, fam, f, y, fam.members)
            if 'D' not in ks:
                continue
            v = y.value
            node = cfg.node_of[G._stmt_of(y, f.node)]
            if isinstance(v, ast.Name):
                # forwarded loop variable of a family loop: the producer's discipline applies
                if any(isinstance(lp, ast.For) and isinstance(lp.target, ast.Name) and lp.target.id == v.id and
                       G.loop_entry(fam, f, lp) for lp in G.enclosing_loops(y, f.node)):
                    continue
                if rd is None:
                    rd = reaching_defs(cfg, f.params())
                defs = rd[node].get(v.id, set())
                bad = []
                if not defs:
                    bad.append('no definition reaches')
                for d in defs:
                    if d.kind == 'stmt' and isinstance(d.ast, ast.Assign):
                        val = d.ast.value
                        if isinstance(val, ast.Constant) and val.value is None:
                            bad.append('`%s` (line %d)' % (norm(d.ast), d.lineno))
                        elif isinstance(val, ast.Name) and val.id == 'noValue':
                            bad.append('`%s` (line %d)' % (norm(d.ast), d.lineno))
                if bad:
                    # a dominating `if v is noValue/None: raise` removes the placeholder definitions
                    for t in cfg.stmt_nodes():
                        if t.kind == 'test' and isinstance(t.ast.test, ast.Compare) and len(t.ast.test.ops) == 1 \
                                and isinstance(t.ast.test.ops[0], ast.Is) and norm(t.ast.test.left) == v.id \
                                and norm(t.ast.test.comparators[0]) in ('noValue', 'None') \
                                and any(isinstance(b, ast.Raise) for b in t.ast.body) \
                                and rd[t].get(v.id, set()) == defs and _edge_dominates(cfg, t, 'false', node):
                            bad = []
                            break
                reason = None
                if f.short == 'codec.ber.decoder.SingleItemDecoder.__call__' and v.id == 'value' and bad:
                    reason = _state_machine_reason(ctx, f, cfg)
                if bad and reason:
                    ctx.ob('A13.value', f, 'yield %s' % v.id, True, 'reasoning entry: ' + reason, node=y)
                else:
                    ctx.ob('A13.value', f, 'yield %s' % v.id, not bad,
                           'placeholder definition %s reaches the result yield' % ', '.join(bad) if bad else
                           'every reaching definition is a decoded object', node=y)
            elif isinstance(v, ast.Constant) and v.value is None:
                ctx.ob('A13.value', f, 'yield None', False, 'yields None as a result', node=y)
            else:
                ctx.ob('A13.value', f, 'yield %s' % norm(v)[:60], True, 'constructed value', node=y, nontrivial=False)
    # A13.raw: a payload decoder hands raw wire octets back only when the CALLER asked for them (substrateFun)
    root = ctx.cls('codec.ber.decoder.AbstractSimplePayloadDecoder')
    nraw = 0
    for f in sorted(fam.members, key=lambda f: f.qualname):
        if f.cls is None or root not in f.cls.mro or f.name not in ('valueDecoder', 'indefLenValueDecoder'):
            continue
        wire = _raw_vars(ctx, f, fam)
        cfg = ctx.cfg(f)
        rd = reaching_defs(cfg, f.params())
        for y in G.yields_of(f, 'off'):
            v = y.value
            if not (isinstance(v, ast.Name) and v.id in wire):
                continue
            ks = G.yield_kinds(ctx, fam, f, y, fam.members)
            if 'D' not in ks:
                continue
            # forwarding the items of a substrateFun call is the caller's raw mode
            fwd = [lp for lp in G.enclosing_loops(y, f.node) if isinstance(lp, ast.For) and isinstance(lp.target, ast.Name)
                   and lp.target.id == v.id and isinstance(lp.iter, ast.Call) and norm(lp.iter.func) == 'substrateFun']
            if fwd:
                continue
            nraw += 1
            node = cfg.node_of[G._stmt_of(y, f.node)]
            ok = False
            why = 'raw octets `%s` are yielded as the decoded result' % v.id
            for b, lab in cfg.control_deps(node):
                if b.kind != 'test' or lab != 'true':
                    continue
                for nm in names_used(b.ast.test):
                    defs = rd[b].get(nm, set())
                    if nm == 'substrateFun' and defs == {cfg.entry}:
                        ok, why = True, 'raw mode selected by the caller-supplied substrateFun'
                    elif defs and all(d.kind == 'stmt' and isinstance(d.ast, ast.Assign) and
                                      'substrateFun' in names_used(d.ast.value) and
                                      rd[d].get('substrateFun', set()) == {cfg.entry} for d in defs):
                        ok, why = True, 'raw mode selected by `%s`, derived from the caller-supplied substrateFun' % nm
            if not ok:
                why += (': the guard does not test the substrateFun the caller passed in (it was overwritten locally), '
                        'so callers that did not ask for raw octets get bytes instead of an ASN.1 object')
            ctx.ob('A13.raw', f, 'yield %s' % v.id, ok, why, node=y)
    ctx.ob('A13.raw', 'codec.ber.decoder', 'raw-octet result yields enumerated', True, '%d site(s)' % nraw, nontrivial=False)
    # _createComponent never returns None
    for q in ('codec.ber.decoder.AbstractSimplePayloadDecoder._createComponent',):
        f = ctx.func(q)
        for r in walk_own(f.node):
            if isinstance(r, ast.Return):
                isnone = r.value is None or (isinstance(r.value, ast.Constant) and r.value.value is None)
                ctx.ob('A13.value', f, norm(r), not isnone, 'returns %s' % norm(r.value), node=r, nontrivial=False)


def _state_machine_reason(ctx, f, cfg):
    """`value = noValue` cannot reach the final yield: the loop is left only with state == stStop, and stStop is
    assigned only after a value loop.  Verified structurally; returns the reason or None."""
    stops = [n for n in cfg.stmt_nodes() if n.kind == 'stmt' and norm(n.ast) == 'state = stStop']
    wh = [n for n in cfg.stmt_nodes() if n.kind == 'while' and norm(n.ast.test) == 'state is not stStop']
    if not stops or len(wh) != 1:
        return None
    valueloops = [n for n in cfg.stmt_nodes() if n.kind == 'for' and norm(n.ast.target) == 'value']
    if not valueloops:
        return None
    for s in stops:
        # every path from the loop head to `state = stStop` passes a `for value in ...` head
        if s in cfg.reachable(wh[0], avoid=valueloops):
            return None
    # no break out of the while loop other than after `state = stStop`
    for n in cfg.stmt_nodes():
        if n.kind == 'break' and n.loop is wh[0]:
            ps = [p for p, _ in n.preds]
            if not all(p in stops for p in ps):
                return None
    return ('the state-machine loop is left only when state is stStop; every `state = stStop` is preceded on all paths by a '
            '`for value in <payload decoder>` loop, whose last item defines `value` (state is not quantified by the property)')


# ------------------------------------------------------------------- A14

def rule_progress_on(ctx):
    rule_progress(ctx, 'on', 'A14.progress.log')


def rule_progress(ctx, scope='off', rule='A14.progress'):
    """A14: every loop of the decoder modules makes progress on each trip around the back edge."""
    fam = G.family(ctx, scope)
    famloops = set(lp for g, lp, ps in fam.loops)
    nloops = 0
    for f in ctx.prog.all_functions():
        if f.module.name not in DEC_MODULES:
            continue
        if scope == 'off' and f in fam.leaves and f not in fam.consumed:
            continue
        for lp in walk_own(f.node):
            if not isinstance(lp, ast.While):
                continue
            if scope == 'off' and G.under_log(lp, f.node):
                continue
            nloops += 1
            ok, why = _while_progress(ctx, f, lp, famloops)
            ctx.ob(rule, f, 'while %s' % norm(lp.test)[:60], ok, why, node=lp)
    if nloops < 12:
        raise AnalysisError('A14 found only %d while loops' % nloops)
    if scope == 'off':
        rule_state_machine(ctx)


def _consumes(stmts, famloops):
    """A family loop (stream read / nested decode) lies on every path through `stmts` (syntactic must-execute)."""
    for s in stmts:
        if isinstance(s, ast.For) and s in famloops:
            return True
        if isinstance(s, ast.If):
            if s.orelse and _consumes(s.body, famloops) and _consumes(s.orelse, famloops):
                return True
            # an arm that cannot fall through does not count against
            if _terminates(s.body) and s.orelse and _consumes(s.orelse, famloops):
                return True
        if isinstance(s, ast.Try):
            if _consumes(s.body, famloops):
                return True
        if isinstance(s, (ast.Break, ast.Return, ast.Raise, ast.Continue)):
            return False
    return False


def _terminates(stmts):
    return bool(stmts) and isinstance(stmts[-1], (ast.Raise, ast.Return, ast.Break))


def _while_progress(ctx, f, lp, famloops):
    test = lp.test
    body = lp.body
    # (1) a family read/decode is executed on every trip (it consumes >= 1 octet or raises / suspends)
    if _consumes(body, famloops):
        return True, 'every trip runs a stream read or a nested decode (consumes input, suspends, or raises)'
    names = names_used(test)
    # (2) counter compared in the test moves strictly: `i += c` (c>0) on every path, or shrinking slice `x = x[1:]`
    for v in names:
        if _strict_move(body, v):
            return True, '`%s` (tested by the loop) strictly advances on every trip' % v
    # (3) inner loop whose counter is bound-checked with a raising arm
    for s in body:
        if isinstance(s, ast.If) and any(isinstance(b, ast.Raise) for b in s.body):
            used = names_used(s.test)
            for v in used:
                if _strict_move(body, v):
                    return True, '`%s` strictly advances and is bound-checked with a raising arm inside the body' % v
    if f.short == 'codec.ber.decoder.SingleItemDecoder.__call__' and norm(test) == 'state is not stStop':
        return True, 'state machine: see A14.states (transition graph acyclic, every arm moves the state)'
    # retry loops of the leaf producers (`while True: ...` or `while x is None: yield ...; x = read()`): every trip either
    # suspends (yield: control goes back to the caller), raises or leaves
    if all(_trip_suspends_or_leaves(s) for s in [body]):
        return True, 'every trip suspends (yield), raises or leaves the loop'
    return False, 'no input-consuming call, no strictly advancing tested counter, no shrinking slice on every trip'


def _trip_suspends_or_leaves(body):
    """Every path through body contains a yield, a raise, a break or a return (syntactic)."""
    def must(stmts):
        for s in stmts:
            if isinstance(s, (ast.Raise, ast.Break, ast.Return)):
                return True
            if isinstance(s, ast.Expr) and isinstance(s.value, ast.Yield):
                return True
            if isinstance(s, ast.If) and s.orelse and must(s.body) and must(s.orelse):
                return True
        return False
    return must(body)


def _strict_move(body, v):
    """`v` is strictly advanced on every fall-through path of body: `v += <positive const>`, `v = v[1:]`, `v = v[n:]`."""
    def moves(s):
        if isinstance(s, ast.AugAssign) and isinstance(s.target, ast.Name) and s.target.id == v \
                and isinstance(s.op, (ast.Add, ast.Sub)):
            c = const_int(s.value)
            return c is not None and c > 0
        if isinstance(s, ast.Assign) and len(s.targets) == 1 and isinstance(s.targets[0], ast.Name) and s.targets[0].id == v:
            val = s.value
            if isinstance(val, ast.Subscript) and isinstance(val.value, ast.Name) and val.value.id == v \
                    and isinstance(val.slice, ast.Slice) and val.slice.lower is not None and val.slice.upper is None:
                c = const_int(val.slice.lower)
                return c is not None and c > 0
        return False

    def must(stmts):
        for s in stmts:
            if moves(s):
                return True
            if isinstance(s, ast.If) and s.orelse and must(s.body) and must(s.orelse):
                return True
            if isinstance(s, (ast.Break, ast.Return, ast.Raise)):
                return True   # leaves the loop: no trip around the back edge on this path
            if isinstance(s, ast.Continue):
                return False
        return False
    return must(body)


def rule_state_machine(ctx):
    """A14.states: the item decoder's state machine has an acyclic transition graph and every arm moves on."""
    f = ctx.func('codec.ber.decoder.SingleItemDecoder.__call__')
    env = ctx.ev.module_env(f.module)
    states = dict((k, v) for k, v in env.items() if k.startswith('st') and isinstance(v, int))
    if len(states) < 10:
        raise AnalysisError('state constants of the item decoder do not evaluate')
    loop = [n for n in walk_own(f.node) if isinstance(n, ast.While) and norm(n.test) == 'state is not stStop']
    if len(loop) != 1:
        raise AnalysisError('state machine loop not found')
    loop = loop[0]
    edges = {}
    arms = {}
    _, dflt = ctx.ev.class_attr(f.cls, 'defaultErrorState')
    for s in loop.body:
        if isinstance(s, ast.If) and isinstance(s.test, ast.Compare) and norm(s.test.left) == 'state' \
                and isinstance(s.test.ops[0], ast.Is):
            src = norm(s.test.comparators[0])
            arms[src] = s
            for n in ast.walk(s):
                if isinstance(n, ast.Assign) and any(isinstance(t, ast.Name) and t.id == 'state' for t in n.targets):
                    tgt = norm(n.value)
                    if tgt == 'self.defaultErrorState':
                        tgt = [k for k, v in states.items() if v == dflt]
                        tgt = tgt[0] if tgt else '?'
                    edges.setdefault(src, set()).add(tgt)
    # acyclic?
    color = {}

    def dfs(u, path):
        color[u] = 1
        for w in edges.get(u, ()):
            if color.get(w) == 1:
                return path + [u, w]
            if color.get(w) is None:
                r = dfs(w, path + [u])
                if r:
                    return r
        color[u] = 2
        return None
    cyc = None
    for u in list(edges):
        if color.get(u) is None:
            cyc = dfs(u, [])
            if cyc:
                break
    ctx.ob('A14.states', f, 'state transition graph is acyclic', cyc is None,
           'transitions %s' % dict((k, sorted(v)) for k, v in sorted(edges.items())) if cyc is None else 'cycle %s' % cyc, node=loop)
    # every non-terminal state has an arm, and the arm assigns state / raises / breaks on every path
    cfg = ctx.cfg(f)
    for st in sorted(states, key=lambda k: states[k]):
        if st == 'stStop':
            continue
        arm = arms.get(st)
        if arm is None:
            ctx.ob('A14.states', f, 'arm for %s' % st, False, 'no `if state is %s` arm: the loop would spin in this state' % st)
            continue
        head = cfg.node_of[arm]
        body_first = [s for s, lab in head.succs if lab == 'true']
        movers = set(n for n in cfg.stmt_nodes() if (n.kind == 'stmt' and isinstance(n.ast, ast.Assign) and any(
            isinstance(t, ast.Name) and t.id == 'state' for t in n.ast.targets)) or n.kind in ('raisestmt', 'break', 'return'))
        # end of arm = the node following the arm in the loop body (next statement) or loop head
        lst = loop.body
        i = lst.index(arm)
        after = cfg.node_of[lst[i + 1]] if i + 1 < len(lst) else cfg.node_of[loop]
        ok = all(after not in (cfg.reachable(b, avoid=movers) | {b} - movers) or b in movers for b in body_first)
        ctx.ob('A14.states', f, 'arm %s moves the state, raises or leaves on every path' % st, ok,
               'checked on the CFG of the arm', node=arm)


# ------------------------------------------------------------------- A3.attr

def rule_union_attr(ctx):
    """A3.attr: a guiding-type variable that may hold a TagMap or an ASN.1 type object is only dereferenced through
    attributes its possible kinds have (otherwise AttributeError escapes the decoder on the unusual kind)."""
    tm = ctx.cls('type.tagmap.TagMap')
    base = ctx.cls('type.base.Asn1Type')
    from sa.rules.tables import type_universe
    concrete = [c for c, tid, ts in type_universe(ctx)]

    def on_tagmap(a):
        o, d = tm.lookup(a)
        return d is not None or a in ('__class__', '__dict__', '__doc__')

    def on_types(a):
        if a in ('__class__', '__dict__', '__doc__'):
            return True
        o, d = base.lookup(a)
        if d is not None:
            return True
        return all(c.lookup(a)[1] is not None for c in concrete)
    nvars = 0
    for f in ctx.prog.all_functions():
        if f.module.name not in DEC_MODULES:
            continue
        tests = [n for n in walk_own(f.node) if isinstance(n, ast.If) and isinstance(n.test, ast.Compare) and
                 isinstance(n.test.left, ast.Attribute) and n.test.left.attr == '__class__' and isinstance(n.test.left.value, ast.Name)
                 and isinstance(n.test.ops[0], ast.Is) and norm(n.test.comparators[0]).endswith('TagMap')]
        if not tests:
            continue
        var = tests[0].test.left.value.id
        nvars += 1
        cfg = ctx.cfg(f)
        rd = reaching_defs(cfg, f.params())
        for n in cfg.stmt_nodes():
            for e in node_exprs(n):
                for x in ast.walk(e):
                    attr = None
                    if isinstance(x, ast.Attribute) and isinstance(x.value, ast.Name) and x.value.id == var and isinstance(x.ctx, ast.Load):
                        attr = x.attr
                    elif isinstance(x, ast.Subscript) and isinstance(x.value, ast.Name) and x.value.id == var and isinstance(x.ctx, ast.Load):
                        attr = '__getitem__'
                    if attr is None:
                        continue
                    # kind from the enclosing TagMap test / from a redefinition
                    kind = 'unknown'
                    cur = x
                    for a in ancestors(x, f.node):
                        if isinstance(a, ast.If) and a in tests:
                            kind = 'tagmap' if any(cur is s or cur in list(ast.walk(s)) for s in a.body) and not any(
                                cur in list(ast.walk(t)) for t in [a.test]) else ('type' if any(cur in list(ast.walk(s)) for s in a.orelse) else kind)
                            break
                    if kind == 'unknown':
                        defs = rd[n].get(var, set())
                        if defs and cfg.entry not in defs and all(
                                d.kind == 'stmt' and isinstance(d.ast, ast.Assign) and not norm(d.ast.value).endswith('tagMapUnique')
                                and 'TagMap' not in norm(d.ast.value) for d in defs):
                            srcs = [norm(d.ast.value) for d in defs]
                            if all(s_ in ('chosenSpec', 'self.protoComponent') or s_.endswith('.asn1Object') or s_.endswith('.componentType') for s_ in srcs):
                                kind = 'type'
                    if kind == 'tagmap':
                        ok = on_tagmap(attr)
                    elif kind == 'type':
                        ok = on_types(attr)
                    else:
                        ok = on_tagmap(attr) and on_types(attr)
                    if G.under_log(x, f.node) and ok:
                        continue
                    if f.short != 'codec.ber.decoder.SingleItemDecoder.__call__' and kind == 'tagmap':
                        # payload decoders receive the spec already resolved by the item decoder (asn1Spec = chosenSpec);
                        # a TagMap reaches them only through the non-default raw-dump error state
                        ctx.ob('A3.attr', f, '%s.%s (%s)' % (var, attr, kind), True,
                               'TagMap arm of a payload decoder: unreachable with the default error state%s' % (
                                   '' if ok else '; `%s` would not exist on a TagMap' % attr), node=x, note=not ok)
                        continue
                    ctx.ob('A3.attr', f, '%s.%s (%s)' % (var, attr, kind), ok,
                           '`%s` may be a TagMap here (member of a SET / optional run) as well as a type object; `%s` does not exist on %s: '
                           'AttributeError would escape' % (var, attr, 'a TagMap' if not on_tagmap(attr) else 'every ASN.1 type') if not ok
                           else 'valid for the kinds possible here', node=x)
    if nvars < 2:
        raise AnalysisError('A3.attr found %d union-kind variables' % nvars)
