"""Rules added after the first round of seeded changes (see DESIGN.md, section 9)."""
import ast

from sa.model import AnalysisError, ClassInfo, FuncInfo, norm, walk_own, ancestors
from sa.cfg import reaching_defs, node_exprs, names_used
from sa.util import call_name, const_int, if_chain, stmts_of, raises_in
from sa import intexpr
from sa.rules import genproto as G
from sa.rules.guards import _feasible_with


def _tdeps(cfg, node):
    """Transitive control dependences of a node."""
    out = []
    seen = set()
    work = [node]
    while work:
        n = work.pop()
        for b, lab in cfg.control_deps(n):
            if (b, lab) not in seen:
                seen.add((b, lab))
                out.append((b, lab))
                work.append(b)
    return out


# --------------------------------------------------------------------- A2.next

def rule_no_next(ctx):
    """A2.next: inside the generator family a producer is only ever consumed by a forwarding `for` loop
    (`next(producer(...))` would take an underrun object for the data)."""
    fam = G.family(ctx, 'off')
    n = 0
    # every function of the codec modules, not only today's family members: a function whose only producer call is
    # wrapped in next() is no longer a member by the fixpoint, and is exactly what this rule is about
    scope = set(fam.members) | set(f for f in ctx.prog.all_functions() if '.codec.' in f.module.name and '.native.' not in f.module.name and f.is_generator)
    for f in sorted(scope, key=lambda f: f.qualname):
        for c in walk_own(f.node):
            if not isinstance(c, ast.Call):
                continue
            if G.under_log(c, f.node):
                continue
            callees = set(x for x in G.callee_set(ctx, f, c) if x in fam.members)
            if not callees:
                continue
            n += 1
            p = c.parent
            ok = isinstance(p, ast.For) and p.iter is c
            if not ok and isinstance(p, ast.Assign) and len(p.targets) == 1 and isinstance(p.targets[0], ast.Name):
                nm = p.targets[0].id
                ok = any(isinstance(l, ast.For) and isinstance(l.iter, ast.Name) and l.iter.id == nm for l in walk_own(f.node))
            ctx.ob('A2.next', f, 'call %s' % norm(c.func), ok,
                   'the generator returned by `%s` is not iterated by a `for` loop: its underrun objects cannot be forwarded and '
                   'would be used as if they were the data' % norm(c)[:60] if not ok else 'iterated by a for loop', node=c)
    if n < 50:
        raise AnalysisError('A2.next saw only %d producer calls' % n)


# ----------------------------------------------------------------- A5.cachekey

def rule_cache_key(ctx):
    """A5.cachekey: the per-decoder tag caches are keyed by the first identifier octet, which determines the tag only
    in the low-tag-number form: every store into them must be guarded by `isShortTag`."""
    f = ctx.func('codec.ber.decoder.SingleItemDecoder.__call__')
    cfg = ctx.cfg(f)
    caches = {}
    for n in walk_own(f.node):
        if isinstance(n, ast.Assign) and len(n.targets) == 1 and isinstance(n.targets[0], ast.Name) and \
                norm(n.value) in ('self._tagCache', 'self._tagSetCache'):
            caches[n.targets[0].id] = norm(n.value)
    if len(caches) != 2:
        raise AnalysisError('tag cache aliases not found in %s' % f.short)
    nst = 0
    for node in cfg.stmt_nodes():
        if node.kind != 'stmt' or not isinstance(node.ast, ast.Assign):
            continue
        for t in node.ast.targets:
            if isinstance(t, ast.Subscript) and isinstance(t.value, ast.Name) and t.value.id in caches:
                nst += 1
                from sa.cfg import known_at, reaching_defs
                if 'rd' not in locals():
                    rd = reaching_defs(cfg, f.params())
                ok = known_at(cfg, node, 'isShortTag', True, rd)
                ctx.ob('A5.cachekey', f, 'store %s' % norm(node.ast), ok,
                       'entries are keyed by the first identifier octet only; long-form tags (number >= 31) of one class share '
                       'that octet, so caching one makes every later long tag decode as the first one seen' if not ok
                       else 'only short tags are cached', node=node.ast)
    if nst < 2:
        raise AnalysisError('tag cache stores not found')
    # the short-tag flag is cleared exactly for tag number bits 11111
    sets = [n for n in walk_own(f.node) if isinstance(n, ast.Assign) and norm(n.targets[0]) == 'isShortTag']
    vals = sorted(norm(s.value) for s in sets)
    ctx.ob('A5.cachekey', f, 'isShortTag is cleared only in the high-tag-number arm', vals == ['False', 'True'] and all(
        norm(s.value) == 'True' or any(isinstance(a, ast.If) and '31' in norm(a.test).replace('0x1F', '31').replace('0x1f', '31')
                                       for a in ancestors(s, f.node)) for s in sets), str(vals))


# ------------------------------------------------------------------- W.enc arms

def _ref_identifier(cls_form, num):
    if num < 31:
        return (cls_form | num,)
    out = [num & 0x7f]
    num >>= 7
    while num:
        out.insert(0, 0x80 | (num & 0x7f))
        num >>= 7
    return tuple([cls_form | 0x1f] + out)


def rule_encode_tag_arms(ctx):
    """W.enc: every loop-free arm of encodeTag returns, for each tag number it is taken for, the identifier octets
    X.690 8.1.2 prescribes (evaluated as a table over the arm's guard set)."""
    f = ctx.func('codec.ber.encoder.AbstractItemEncoder.encodeTag')
    ifs = [n for n in walk_own(f.node) if isinstance(n, ast.If) and 'tagId' in norm(n.test) and isinstance(n.test, ast.Compare)
           and not (isinstance(n.parent, ast.If) and n in n.parent.orelse)]
    if len(ifs) != 1:
        raise AnalysisError('tag number chain not found in %s' % f.short)
    arms, orelse = if_chain(ifs[0])
    remaining = set(range(0, ctx.scale(20000, 300000)))
    narm = 0
    general = 0
    for test, body in arms + [(None, orelse)]:
        if test is not None:
            acc = intexpr.accept_set(test, 'tagId', remaining)
            remaining -= acc
        else:
            acc = set(remaining)
        has_loop = any(isinstance(x, (ast.While, ast.For)) for s in body for x in ast.walk(s))
        if has_loop:
            general += 1
            continue
        rets = [s for s in body if isinstance(s, ast.Return)]
        if len(rets) != 1 or len(body) != 1:
            raise AnalysisError('loop-free arm of encodeTag is not a single return')
        narm += 1
        bad = None
        for num in sorted(acc):
            try:
                got = intexpr_tuple(rets[0].value, {'tagId': num, 'encodedTag': 0x80})
            except intexpr.NotPure as x:
                raise AnalysisError('arm `%s` is not a pure expression: %s' % (norm(rets[0].value), x))
            if got != _ref_identifier(0x80, num):
                bad = (num, got, _ref_identifier(0x80, num))
                break
        ctx.ob('W.enc', f, 'arm `%s` emits the X.690 identifier octets for every tag number it is taken for' % norm(rets[0].value)[:50],
               bad is None, 'taken for {%s}%s' % (intexpr.fmt_set(acc), '' if bad is None else
                                                 '; tag number %d -> %r, X.690 8.1.2.4 says %r' % bad), node=rets[0])
    ctx.ob('W.enc', f, 'exactly one general (looping) arm for large tag numbers', general == 1, '%d looping arm(s), %d direct' % (general, narm))


def intexpr_tuple(e, env):
    if isinstance(e, ast.Tuple):
        return tuple(intexpr.ev(x, env) for x in e.elts)
    raise intexpr.NotPure('not a tuple')


# ------------------------------------------------------------------- W.bits

def rule_bits_prepend(ctx):
    """W.bits: segment accumulation in BitString.from*String treats an all-zero accumulator as present
    (`is not None`, not truthiness: a SizedInteger of value 0 and length n is falsy)."""
    c = ctx.cls('type.univ.BitString')
    n = 0
    for nm in ('fromOctetString', 'fromBinaryString', 'fromHexString'):
        f = c.method(nm)
        if f is None or 'prepend' not in f.params():
            raise AnalysisError('BitString.%s(prepend=...) not found' % nm)
        tests = [x for x in walk_own(f.node) if isinstance(x, ast.If) and 'prepend' in names_used(x.test)]
        if not tests:
            raise AnalysisError('no test of `prepend` in %s' % f.short)
        for t in tests:
            n += 1
            ok = norm(t.test) in ('prepend is not None', 'not prepend is None', 'prepend is None')
            ctx.ob('W.bits', f, 'accumulator tested by identity', ok,
                   '`if %s:` drops an accumulator whose bits are all zero (a zero-valued SizedInteger is falsy): leading zero '
                   'segments of a constructed BIT STRING vanish' % norm(t.test) if not ok else norm(t.test), node=t)
    # length bookkeeping: the joined length is the sum of the lengths
    for nm in ('fromOctetString', 'fromBinaryString', 'fromHexString'):
        f = c.method(nm)
        src = norm(f.node)
        ctx.ob('W.bits', f, 'joined bit length = len(prepend) + len(value)', 'setBitLength(len(prepend) + len(value))' in src, '')
    # every way through the accumulator branch joins the bits of both operands
    for nm in ('fromOctetString', 'fromBinaryString', 'fromHexString'):
        f = c.method(nm)
        res = f.params()[1]
        for t in [x for x in walk_own(f.node) if isinstance(x, ast.If) and norm(x.test) in ('prepend is not None', 'not prepend is None')]:
            for a in [x for b in t.body for x in ast.walk(b) if isinstance(x, ast.Assign) and norm(x.targets[0]) == res]:
                txt = norm(a.value)
                ok = ('<< len(%s) | %s' % (res, res)) in txt and ('setBitLength(len(prepend) + len(%s))' % res) in txt
                ctx.ob('W.bits', f, 'accumulator branch: result = (prepend << len(segment)) | segment, length = sum', ok,
                       '`%s = %s` on a path of the accumulator branch does not join both operands: the bits of a segment (e.g. '
                       'one whose bits are all zero, which is falsy) are lost' % (res, txt[:80]) if not ok else 'joined', node=a)
    f = c.method('fromOctetString')
    ctx.ob('W.bits', f, 'unused bits are shifted out and subtracted from the length',
           'integer.from_bytes(value) >> padding' in norm(f.node) and 'len(value) * 8 - padding' in norm(f.node), '')


# ------------------------------------------------------------------- W.real

def rule_real_normalisation(ctx):
    """W.real: for each binary base the encoder strips trailing zero digits of the mantissa into the exponent
    (so equal REAL values get equal canonical encodings, X.690 11.3.1)."""
    f = ctx.func('codec.ber.encoder.RealEncoder.encodeValue')
    chains = [n for n in walk_own(f.node) if isinstance(n, ast.If) and norm(n.test) == 'encbase == 2']
    if len(chains) != 1:
        ctx.ob('W.real', f, 'base-2 mantissa normalisation present', False,
               'no `encbase == 2` arm: a base-2 mantissa with trailing zero bits is not normalised into the exponent, so equal '
               'values (4*2^0, 1*2^2) encode differently')
        return
    arms, orelse = if_chain(chains[0])
    want = {2: (1, 1), 8: (7, 3), 16: (15, 4)}
    seen = {}
    for test, body in arms + [(None, orelse)]:
        base = None
        if test is not None and isinstance(test, ast.Compare) and norm(test.left) == 'encbase':
            base = const_int(test.comparators[0])
        elif test is None:
            base = 16
        loops = [s for s in body if isinstance(s, ast.While)]
        if base is None or not loops:
            continue
        lp = loops[0]
        mask = None
        if isinstance(lp.test, ast.Compare) and isinstance(lp.test.left, ast.BinOp) and isinstance(lp.test.left.op, ast.BitAnd) \
                and norm(lp.test.left.left) == 'm' and const_int(lp.test.comparators[0]) == 0:
            mask = const_int(lp.test.left.right)
        shift = [const_int(s.value) for s in lp.body if isinstance(s, ast.AugAssign) and norm(s.target) == 'm' and isinstance(s.op, ast.RShift)]
        einc = [const_int(s.value) for s in lp.body if isinstance(s, ast.AugAssign) and norm(s.target) == 'e' and isinstance(s.op, ast.Add)]
        seen[base] = (mask, shift[0] if shift else None, einc[0] if einc else None)
    for base, (mask, sh) in want.items():
        got = seen.get(base)
        ok = got is not None and got[0] == mask and got[1] == sh and got[2] == 1
        ctx.ob('W.real', f, 'base %d: while m & %d == 0: m >>= %d; e += 1' % (base, mask, sh), ok, 'found %r' % (got,))
    # scale factor bounded
    from sa import condeq
    g = condeq.raising_guards(f.node, 'sf > 3', raises_in, walk_own)
    ctx.ob('W.real', f, 'scale factor limited to 2 bits', len(g) == 1, '')


# ------------------------------------------------------------------- A12.tail

def rule_cache_reset(ctx):
    """A12.tail: when the wrapper drops consumed octets it keeps the octets that were read ahead and pushed back."""
    w = ctx.cls('codec.streaming.CachingStreamWrapper')
    found = 0
    for name, defs in sorted(w.attrs.items()):
        for d in defs:
            if d[0] != 'func' or d[1].name in ('__init__',):
                continue
            m = d[1]
            rebinds = [n for n in walk_own(m.node) if isinstance(n, ast.Assign) and any(norm(t) == 'self._cache' for t in n.targets)]
            trunc = [n for n in walk_own(m.node) if isinstance(n, ast.Call) and isinstance(n.func, ast.Attribute) and
                     n.func.attr in ('truncate',) and norm(n.func.value) == 'self._cache']
            for r in rebinds:
                found += 1
                val = r.value
                if isinstance(val, ast.Call) and len(val.args) == 1 and isinstance(val.args[0], ast.Name):
                    # io.BytesIO(tail) with `tail = self._cache.read()` bound once before
                    ds = [a for a in walk_own(m.node) if isinstance(a, ast.Assign) and any(isinstance(t, ast.Name) and t.id == val.args[0].id for t in a.targets)]
                    if len(ds) == 1 and ds[0].lineno < r.lineno:
                        val = ast.parse('%s(%s)' % (norm(val.func), norm(ds[0].value)), mode='eval').body
                ok = norm(val) == 'io.BytesIO(self._cache.read())'
                ctx.ob('A12.tail', m, 'cache reset keeps the unread tail', ok,
                       'the new cache `%s` is not built from the unread rest of the old one: octets the decoder read ahead and '
                       'pushed back (end-of-stream probe, end-of-octets probe) are lost' % norm(r.value) if not ok else norm(r.value), node=r)
            for t in trunc:
                found += 1
                ctx.ob('A12.tail', m, 'cache reset keeps the unread tail', False,
                       '`%s` empties the cache in place: octets the decoder read ahead and pushed back (end-of-stream probe, '
                       'end-of-octets probe) are lost' % norm(t), node=t)
    if not found:
        raise AnalysisError('no cache reset found in CachingStreamWrapper')
    # the mark is set exactly at the element start, before the first octet of the element is read
    f = ctx.func('codec.ber.decoder.SingleItemDecoder.__call__')
    cfg = ctx.cfg(f)
    marks = [n for n in cfg.stmt_nodes() if n.kind == 'stmt' and isinstance(n.ast, ast.Assign) and
             norm(n.ast.targets[0]) == 'substrate.markedPosition']
    ok = len(marks) == 1 and norm(marks[0].ast.value) == 'substrate.tell()'
    tagloops = [n for n in cfg.stmt_nodes() if n.kind == 'for' and norm(n.ast.target) == 'firstByte']
    ok = ok and bool(tagloops) and all(cfg.dominates(marks[0], t) for t in tagloops)
    ctx.ob('A12.tail', f, 'element mark = current position, set before the first identifier octet is read', ok,
           'marks: %s' % [m.text() for m in marks], node=marks[0].ast if marks else None)


# ------------------------------------------------------------------- C16.tags

def rule_schemaless_tags(ctx):
    """C16.tags: schemaless results carry every tag recovered from the wire."""
    f = ctx.func('codec.ber.decoder.ConstructedPayloadDecoderBase._decodeComponentsSchemaless')
    clones = [c for c in walk_own(f.node) if isinstance(c, ast.Call) and call_name(c) == 'clone' and any(k.arg == 'tagSet' for k in c.keywords)]
    if len(clones) != 1:
        raise AnalysisError('container clone not found in %s' % f.short)
    v = [k.value for k in clones[0].keywords if k.arg == 'tagSet'][0]
    exprs = [v]
    if isinstance(v, ast.Name):
        exprs = [n.value for n in walk_own(f.node) if isinstance(n, ast.Assign) and norm(n.targets[0]) == v.id]
    ok = bool(exprs)
    for e in exprs:
        good = (isinstance(e, ast.Call) and norm(e.func) == 'tag.TagSet' and len(e.args) == 2 and isinstance(e.args[1], ast.Starred)
                and norm(e.args[1].value) == 'tagSet.superTags' and norm(e.args[0]).endswith('.tagSet.baseTag')) or norm(e) == 'tagSet'
        ok = ok and good
    ctx.ob('C16.tags', f, 'container tag set = prototype base tag + ALL tags recovered from the wire', ok,
           'built as %s' % [norm(e)[:80] for e in exprs], node=clones[0])
    g = ctx.func('codec.ber.decoder.AbstractSimplePayloadDecoder._createComponent')
    src = norm(g.node)
    ctx.ob('C16.tags', g, 'schemaless scalar keeps the recovered tag set', 'self.protoComponent.clone(value, tagSet=tagSet)' in src, '')
    for q in ('codec.ber.decoder.ConstructedPayloadDecoderBase.valueDecoder', 'codec.ber.decoder.ConstructedPayloadDecoderBase.indefLenValueDecoder'):
        h = ctx.func(q)
        calls = [c for c in walk_own(h.node) if isinstance(c, ast.Call) and call_name(c) == '_decodeComponentsSchemaless']
        ok = len(calls) == 1 and any(k.arg == 'tagSet' and norm(k.value) == 'tagSet' for k in calls[0].keywords)
        ctx.ob('C16.tags', h, 'recovered tag set handed to the schemaless component decoder', ok, '')


# ------------------------------------------------------------------- C17.native

def rule_native_record(ctx):
    """C17.native: the native record decoder stores every member present in the mapping (None is NULL, not absence)."""
    f = ctx.func('codec.native.decoder.SequenceOrSetPayloadDecoder.__call__')
    cfg = ctx.cfg(f)
    loops = [n for n in cfg.stmt_nodes() if n.kind == 'for']
    if len(loops) != 1:
        raise AnalysisError('member loop not found in %s' % f.short)
    stores = [n for n in cfg.stmt_nodes() if n.kind == 'stmt' and isinstance(n.ast, ast.Assign) and
              isinstance(n.ast.targets[0], ast.Subscript) and norm(n.ast.targets[0].value) == 'asn1Value']
    if len(stores) != 1:
        raise AnalysisError('member store not found in %s' % f.short)
    deps = [(b, lab) for b, lab in _tdeps(cfg, stores[0]) if b.kind == 'test']
    import re
    member = [(b, lab) for b, lab in deps if re.fullmatch(r'\w+ (not )?in pyObject', norm(b.ast.test))]
    other = [(b, lab) for b, lab in deps if (b, lab) not in member]
    ctx.ob('C17.native', f, 'a member present in the mapping is always decoded and stored', bool(member) and not other,
           'the store also depends on %s: members present in the Python mapping can be dropped' % [norm(b.ast.test) for b, l in other]
           if other else 'depends only on membership', node=stores[0].ast)
    g = ctx.func('codec.native.encoder.NullEncoder.encode')
    ctx.ob('C17.native', g, 'NULL is represented by None', any(isinstance(r, ast.Return) and norm(r.value) == 'None' for r in walk_own(g.node)), '',
           nontrivial=False)


# ------------------------------------------------------------------- A5.optleak

def rule_option_scope(ctx):
    """A5.optleak: an option added by a caller for one callee (`dict(options, K=...)`) is popped by that callee, so
    that it is not handed on to the encoders of nested values."""
    producers = {}
    for f in ctx.prog.all_functions():
        if not f.module.name.startswith('pyasn1.codec.') or 'encoder' not in f.module.name:
            continue
        for c in walk_own(f.node):
            if isinstance(c, ast.Call) and isinstance(c.func, ast.Name) and c.func.id == 'dict' and c.args and norm(c.args[0]) == 'options':
                for k in c.keywords:
                    if k.arg:
                        producers.setdefault(k.arg, []).append((f, c))
    if 'wrapType' not in producers:
        raise AnalysisError('scoped encoder option wrapType not found')
    for key, sites in sorted(producers.items()):
        consumers = []
        for f in ctx.prog.all_functions():
            if not f.module.name.startswith('pyasn1.codec.') or 'encoder' not in f.module.name:
                continue
            for c in walk_own(f.node):
                if isinstance(c, ast.Call) and isinstance(c.func, ast.Attribute) and norm(c.func.value) == 'options' and \
                        c.func.attr in ('get', 'pop', '__getitem__') and c.args and isinstance(c.args[0], ast.Constant) and c.args[0].value == key:
                    consumers.append((f, c))
                if isinstance(c, ast.Subscript) and norm(c.value) == 'options' and isinstance(c.slice, ast.Constant) and c.slice.value == key \
                        and isinstance(c.ctx, ast.Load):
                    consumers.append((f, c))
        for f, c in consumers:
            popped = isinstance(c, ast.Call) and c.func.attr == 'pop'
            recurses = any(isinstance(x, ast.Call) and isinstance(x.func, ast.Name) and x.func.id == 'encodeFun' and
                           any(k.arg is None and norm(k.value) == 'options' for k in x.keywords) for x in walk_own(f.node))
            ctx.ob('A5.optleak', f, 'scoped option %r consumed by pop' % key, popped or not recurses,
                   'the option set by %s for this encoder is read with `%s` and stays in `options`, which is passed on to the '
                   'encoders of nested values' % (sites[0][0].short, norm(c)[:40]) if not (popped or not recurses) else 'removed before recursing',
                   node=c)


# ------------------------------------------------------------------- A8.dec yields / constructed yields

def rule_any_capture_yields(ctx):
    """A8.dec (2): in the raw capture of an indefinite-length TLV the end-of-octets append precedes EVERY result yield."""
    f = ctx.func('codec.ber.decoder.AnyPayloadDecoder.indefLenValueDecoder')
    cfg = ctx.cfg(f)
    apps = [n for n in cfg.stmt_nodes() if n.kind == 'stmt' and isinstance(n.ast, ast.AugAssign) and
            ('EOO' in norm(n.ast.value).upper())]
    loops = [n for n in cfg.stmt_nodes() if n.kind == 'while']
    if not loops:
        raise AnalysisError('fragment loop not found in %s' % f.short)
    fam = G.family(ctx, 'off')
    ys = []
    for y in G.yields_of(f, 'off'):
        ks = G.yield_kinds(ctx, fam, f, y, fam.members)
        node = cfg.node_of[G._stmt_of(y, f.node)]
        if 'D' in ks and node in cfg.reachable(loops[-1]):
            ys.append((y, node))
    if not ys:
        raise AnalysisError('result yields after the fragment loop not found')
    for y, node in ys:
        bad = not apps or _feasible_with(cfg, loops[-1], node, apps, {'isTagged': False})
        ctx.ob('A8.dec', f, 'end-of-octets appended before `%s` when the header was put in' % norm(y)[:40], not bad,
               'this result can be yielded for an untagged (header re-read) value without the end-of-octets octets: the captured '
               'TLV handed to the caller / the enclosing ANY is incomplete' if bad else 'append lies on every such path', node=y)


def rule_constructed_yields(ctx):
    """W.content (2): in the string decoders every result that is not the primitive form or the caller's raw mode is
    dominated by the constructed-form refusal (DER switches it on)."""
    from sa.rules.excflow import _edge_dominates
    fam = G.family(ctx, 'off')
    for q in ('codec.ber.decoder.BitStringPayloadDecoder.valueDecoder', 'codec.ber.decoder.OctetStringPayloadDecoder.valueDecoder'):
        f = ctx.func(q)
        cfg = ctx.cfg(f)
        from sa import condeq
        refusal = [t for t in cfg.stmt_nodes() if t.kind == 'test' and (
            (condeq.same(t.ast.test, 'not self.supportConstructedForm') == 1 and raises_in(t.ast.body)) or
            (condeq.same(t.ast.test, 'not self.supportConstructedForm') == -1 and raises_in(t.ast.orelse)))]
        if len(refusal) != 1:
            raise AnalysisError('constructed-form refusal not found in %s' % f.short)
        R = refusal[0]
        prim = [t for t in cfg.stmt_nodes() if t.kind == 'test' and 'tagFormatSimple' in norm(t.ast.test) and '==' in norm(t.ast.test)]
        raw = [t for t in cfg.stmt_nodes() if t.kind == 'test' and norm(t.ast.test).startswith('substrateFun')]
        for y in G.yields_of(f, 'off'):
            ks = G.yield_kinds(ctx, fam, f, y, fam.members)
            if 'D' not in ks:
                continue
            node = cfg.node_of[G._stmt_of(y, f.node)]
            deps = _tdeps(cfg, node)
            in_prim = any(b in prim and lab == 'true' for b, lab in deps)
            in_raw = any(b in raw and lab == 'true' for b, lab in deps)
            ok = in_prim or in_raw or _edge_dominates(cfg, R, 'false', node)
            ctx.ob('W.content', f, 'result `%s` is primitive form, raw mode, or behind the constructed-form refusal' % norm(y)[:40], ok,
                   'this result can be produced for a constructed encoding without passing `if not self.supportConstructedForm: raise`: '
                   'the DER decoder would accept a constructed string here' if not ok else 'ok', node=y)


# ------------------------------------------------------------------- A11.trim start

def rule_trim_start(ctx):
    """A11.trim (2): the canonical fraction trim scans from the end of the fraction, whatever its length."""
    f = ctx.func('codec.cer.encoder.TimeEncoderMixIn.encodeValue')
    starts = [n for n in walk_own(f.node) if isinstance(n, ast.Assign) and norm(n.targets[0]) == 'searchIndex']
    if not starts:
        raise AnalysisError('trim start not found')
    v = norm(starts[0].value)
    ok = v in ('len(numbers) - 1', 'len(numbers) - 2')
    ctx.ob('A11.trim', f, 'trim scan starts at the end of the fraction', ok,
           'the scan starts at `%s`: zeros beyond that position are never visited, so longer fractions keep trailing zeros '
           '(non-canonical output instead of a canonical one or a refusal)' % v if not ok else v, node=starts[0])


# ------------------------------------------------------------------- A13.choice

def rule_choice_result(ctx):
    """A13.choice: a CHOICE decoder yields its object only after an alternative was stored (or emptiness was refused)."""
    for q in ('codec.ber.decoder.ChoicePayloadDecoder.valueDecoder', 'codec.ber.decoder.ChoicePayloadDecoder.indefLenValueDecoder'):
        f = ctx.func(q)
        cfg = ctx.cfg(f)
        ys = [n for n in cfg.stmt_nodes() if n.kind == 'stmt' and norm(n.ast) == 'yield asn1Object']
        setters = [n for n in cfg.stmt_nodes() if n.kind == 'stmt' and 'asn1Object.setComponentByType(' in n.text()]
        guards = [n for n in cfg.stmt_nodes() if n.kind == 'test' and raises_in(n.ast.body) and
                  norm(n.ast.test) in ('not len(asn1Object)', 'not asn1Object.isValue', 'len(asn1Object) == 0')]
        if not ys or not setters:
            raise AnalysisError('result yield / component store not found in %s' % f.short)
        for y in ys:
            bad = y in cfg.reachable(cfg.entry, avoid=setters + guards)
            ctx.ob('A13.choice', f, 'an alternative is stored (or emptiness refused) before the CHOICE is yielded', not bad,
                   'the CHOICE object can be yielded with no alternative chosen (a valueless placeholder as the decoded value)'
                   if bad else 'every path stores an alternative or raises', node=y.ast)


# ------------------------------------------------------------------- A3.size

def rule_read_size(ctx):
    """A3.size: a wire-derived size handed to stream.read() cannot let OverflowError escape."""
    fam = G.family(ctx, 'on')
    n = 0
    for f in sorted(fam.leaves, key=lambda x: x.qualname):
        for c in G._stream_read_calls(f):
            if not c.args or isinstance(c.args[0], ast.Constant):
                continue
            if not (isinstance(c.args[0], ast.Name) and c.args[0].id in f.params()):
                continue
            n += 1
            ok = False
            for a in ancestors(c, f.node):
                if isinstance(a, ast.Try) and any(h.type is not None and 'OverflowError' in norm(h.type) and raises_in(h.body) for h in a.handlers):
                    ok = True
            ctx.ob('A3.size', f, norm(c), ok,
                   'the size comes from the length octets of the input (up to 2**1008); a size of 2**63 or more makes read() raise '
                   'OverflowError, which is not a library error' if not ok else 'OverflowError converted into a library error', node=c)
    if n < 1:
        raise AnalysisError('no sized stream read found')


# ------------------------------------------------------------------- W.bits padding / S4 nan

def rule_bits_padding(ctx):
    """W.bits (2): fromOctetString refuses more unused bits than there are bits."""
    f = ctx.cls('type.univ.BitString').method('fromOctetString')
    guards = [n for n in walk_own(f.node) if isinstance(n, ast.If) and raises_in(n.body) and 'padding' in names_used(n.test)]
    ok = False
    det = 'no raising guard on `padding`'
    for g in guards:
        from sa.rules.wire import _subst
        t = _subst(g.test, {'len(value)': '__L'})
        try:
            good = all(bool(intexpr.ev(t, {'padding': p, '__L': L})) == (p > 8 * L) for L in range(0, 4) for p in range(0, 40))
        except intexpr.NotPure:
            continue
        det = 'guard `%s` refuses exactly padding > 8 * len(value): %s' % (norm(g.test), good)
        ok = ok or good
    ctx.ob('W.bits', f, 'unused-bits count bounded by the number of bits present', ok, det, node=guards[0] if guards else None)


def rule_real_nan(ctx):
    """A3.partial (S4): int() of a float parsed from text is guarded against infinities and NaN."""
    f = ctx.func('type.univ.Real.prettyIn')
    cfg = ctx.cfg(f)
    from sa.rules.excflow import _edge_dominates
    sites = []
    for n in cfg.stmt_nodes():
        for e in node_exprs(n):
            for x in ast.walk(e):
                if isinstance(x, ast.Call) and isinstance(x.func, ast.Name) and x.func.id == 'int' and x.args and isinstance(x.args[0], ast.Name):
                    # only the float arm: dominated by an isinstance(..., float) test
                    if any(b.kind == 'test' and 'float' in norm(b.ast.test) and lab == 'true' for b, lab in _tdeps(cfg, n)):
                        sites.append((n, x))
    if not sites:
        raise AnalysisError('int(<float>) not found in %s' % f.short)
    var = sites[0][1].args[0].id
    inf = [t for t in cfg.stmt_nodes() if t.kind == 'test' and ('%s in self._inf' % var) in norm(t.ast.test)]
    nan = [t for t in cfg.stmt_nodes() if t.kind == 'test' and norm(t.ast.test) in ('%s != %s' % (var, var), 'math.isnan(%s)' % var)]
    seen = set()
    for n, x in sites:
        if n in seen:
            continue
        seen.add(n)
        ok_inf = any(_edge_dominates(cfg, t, 'false', n) for t in inf)
        ok_nan = any(_edge_dominates(cfg, t, 'false', n) for t in nan)
        # the same test spelt `x == x` (true only for non-NaN) guards on its true edge
        nan_eq = [t for t in cfg.stmt_nodes() if t.kind == 'test' and norm(t.ast.test) == '%s == %s' % (var, var)]
        ok_nan = ok_nan or any(_edge_dominates(cfg, t, 'true', n) for t in nan_eq)
        ctx.ob('A3.partial', f, 'int(%s) on a float' % var, ok_inf and ok_nan,
               'infinities excluded: %s; NaN excluded: %s (int(nan) raises ValueError out of the decoder for a REAL in decimal '
               'form spelling "nan")' % (ok_inf, ok_nan), node=x)


# ------------------------------------------------------------------- C04.readers

def rule_readers_pure(ctx):
    """C04.readers: positional read accessors do not store into the container."""
    for q in ('type.univ.SequenceAndSetBase.getComponentByPosition', 'type.univ.SequenceOfAndSetOfBase.getComponentByPosition'):
        f = ctx.func(q)
        stores = [c for c in walk_own(f.node) if isinstance(c, ast.Call) and norm(c.func) == 'self.setComponentByPosition']
        ctx.ob('C04.readers', f, 'read accessor does not store into the container', not stores,
               'with the default instantiate=True a read of an absent member stores a placeholder (`%s`); read through a DEFAULT '
               'constructed member this changes what the canonical encoders emit' % norm(stores[0]) if stores else 'pure', node=stores[0] if stores else None)


# ------------------------------------------------------------------- W.int

def _eval_size_function(f, env):
    """Evaluate the straight-line octet-count computation of compat.integer.to_bytes for one input:
    assignments / augmented assignments of pure integer expressions, `if` with a pure test, and the final
    `value.to_bytes(<count>, ...)`.  Returns the count expression's value."""
    env = dict(env)

    def run(stmts):
        for s in stmts:
            if isinstance(s, ast.Expr) and isinstance(s.value, ast.Constant):
                continue
            if isinstance(s, ast.Assign) and len(s.targets) == 1 and isinstance(s.targets[0], ast.Name):
                env[s.targets[0].id] = intexpr.ev(s.value, env)
            elif isinstance(s, ast.Assign) and len(s.targets) == 1 and isinstance(s.targets[0], ast.Tuple) and \
                    all(isinstance(t, ast.Name) for t in s.targets[0].elts):
                v = intexpr.ev(s.value, env)         # q, r = divmod(a, b)
                if not isinstance(v, tuple) or len(v) != len(s.targets[0].elts):
                    raise intexpr.NotPure('tuple assignment')
                for t, x in zip(s.targets[0].elts, v):
                    env[t.id] = x
            elif isinstance(s, ast.AugAssign) and isinstance(s.target, ast.Name):
                cur = env[s.target.id]
                v = intexpr.ev(s.value, env)
                if isinstance(s.op, ast.Add):
                    env[s.target.id] = cur + v
                elif isinstance(s.op, ast.Sub):
                    env[s.target.id] = cur - v
                else:
                    raise intexpr.NotPure('augmented operator')
            elif isinstance(s, ast.If):
                r = run(s.body if intexpr.ev(s.test, env) else s.orelse)
                if r is not None:
                    return r
            elif isinstance(s, ast.Return):
                c = s.value
                if isinstance(c, ast.Call) and isinstance(c.func, ast.Attribute) and c.func.attr == 'to_bytes' and c.args:
                    return intexpr.ev(c.args[0], env)
                raise intexpr.NotPure('return shape')
            else:
                raise intexpr.NotPure('statement %s' % type(s).__name__)
        return None
    return run(f.node.body)


def rule_integer_octets(ctx):
    """W.int: the number of content octets chosen for an INTEGER is the minimal two's complement size
    (X.690 8.3.2: the first nine bits are not all ones / all zeros), for every value in [-2**17, 2**17]."""
    f = ctx.func('compat.integer.to_bytes')

    def ref(v):
        return (v if v >= 0 else ~v).bit_length() // 8 + 1
    bad = None
    try:
        for v in list(range(-ctx.scale(33100, 600000), ctx.scale(33100, 600000) + 1)) + [s * 2 ** k + d for k in (23, 24, 31, 32, 63, 64) for s in (1, -1) for d in (-1, 0, 1)]:
            got = _eval_size_function(f, {'value': v, 'signed': True, 'length': 0})
            if got != ref(v):
                bad = (v, got, ref(v))
                break
    except intexpr.NotPure as x:
        raise AnalysisError('octet-count computation of %s is not a pure integer computation: %s' % (f.short, x))
    ctx.ob('W.int', f, 'signed values get the minimal number of two\'s complement octets', bad is None,
           'value %d is given %d content octets, the minimal two\'s complement form has %d (X.690 8.3.2): DER output is not '
           'the distinguished encoding' % bad if bad else 'checked for -33100..33100 and around +-2**23, 2**24, 2**31, 2**32, 2**63, 2**64', node=f.node)
    # unsigned use by BIT STRING: ceil(max(bit_length, length) / 8)
    bad = None
    for L in range(0, 41):
        for v in (0, 1, 2, 127, 128, 255, 256, 65535):
            got = _eval_size_function(f, {'value': v, 'signed': False, 'length': L})
            want = (max(v.bit_length(), L) + 7) // 8
            if got != want:
                bad = (v, L, got, want)
                break
    ctx.ob('W.int', f, 'unsigned values padded to the requested bit length', bad is None,
           'value %d with length %d bits -> %d octets, expected %d' % bad if bad else 'checked for lengths 0..40', node=f.node)
    # the reader is the exact inverse: big-endian two's complement
    g = ctx.func('compat.integer.from_bytes')
    ok = any(isinstance(r, ast.Return) and norm(r.value) == "int.from_bytes(bytes(octets), 'big', signed=signed)" for r in walk_own(g.node))
    ctx.ob('W.int', g, 'reader is big-endian two\'s complement with the caller\'s signedness', ok, '')
    enc = ctx.func('codec.ber.encoder.IntegerEncoder.encodeValue')
    ok = any(isinstance(r, ast.Return) and 'to_bytes(int(value), signed=True)' in norm(r.value) for r in walk_own(enc.node))
    ctx.ob('W.int', enc, 'INTEGER contents written signed', ok, '')
    dec = ctx.func('codec.ber.decoder.IntegerPayloadDecoder.valueDecoder')
    ok = any(isinstance(n, ast.Call) and norm(n) .endswith('signed=True)') and call_name(n) == 'from_bytes' for n in walk_own(dec.node))
    ctx.ob('W.int', dec, 'INTEGER contents read signed', ok, '')


# ------------------------------------------------------------------- C14.denote

def rule_constraint_denotation(ctx):
    """C14.denote: the refusal guards of the range/size constraints are the complement of the closed interval
    [start, stop]; set constraints combine their members as intersection / union / exclusion."""
    from sa.rules.wire import _subst
    C = 'type.constraint.'
    for cname, var_expr in (('ValueRangeConstraint', None), ('ValueSizeConstraint', 'len')):
        f = ctx.func(C + cname + '._testValue')
        ifs = [n for n in walk_own(f.node) if isinstance(n, ast.If) and raises_in(n.body)]
        if len(ifs) != 1:
            raise AnalysisError('refusal guard of %s not found' % cname)
        t = ifs[0].test
        par = f.params()[1]
        var = par
        if var_expr == 'len':
            # valueSize = len(value)
            defs = [n for n in walk_own(f.node) if isinstance(n, ast.Assign) and isinstance(n.value, ast.Call) and
                    call_name(n.value) == 'len' and norm(n.value.args[0]) == par]
            if len(defs) != 1:
                raise AnalysisError('size variable of %s not found' % cname)
            var = defs[0].targets[0].id
        tt = _subst(t, {'self.start': '__a', 'self.stop': '__b'})
        bad = None
        try:
            for a, b in ((2, 5), (0, 0), (-3, 3), (1, 1)):
                refused = set(v for v in range(a - 3, b + 4) if intexpr.ev(tt, {var: v, '__a': a, '__b': b}))
                want = set(v for v in range(a - 3, b + 4) if v < a or v > b)
                if refused != want:
                    bad = (a, b, sorted(refused), sorted(want))
                    break
        except intexpr.NotPure as x:
            raise AnalysisError('refusal guard `%s` of %s is not a pure comparison: %s' % (norm(t), cname, x))
        ctx.ob('C14.denote', f, 'refuses exactly the values outside [start, stop]', bad is None,
               'for [%d, %d] the guard refuses %s, the denotation refuses %s' % bad if bad else 'guard `%s`' % norm(t), node=ifs[0])
    # start <= stop enforced
    f = ctx.func(C + 'ValueRangeConstraint._setValues')
    from sa import condeq
    ok = bool(condeq.raising_guards(f.node, 'self.start > self.stop', raises_in, walk_own))
    ctx.ob('C14.denote', f, 'empty ranges (start > stop) refused at construction', ok, '')
    # single value / permitted alphabet
    f = ctx.func(C + 'SingleValueConstraint._testValue')
    ok = bool(condeq.raising_guards(f.node, '%s not in self._set' % f.params()[1], raises_in, walk_own))
    ctx.ob('C14.denote', f, 'refuses exactly the values not in the set', ok, '')
    f = ctx.func(C + 'PermittedAlphabetConstraint._testValue')
    ok = bool(condeq.raising_guards(f.node, 'not self._set.issuperset(%s)' % f.params()[1], raises_in, walk_own))
    ctx.ob('C14.denote', f, 'refuses exactly the values with a character outside the alphabet', ok, '')
    for cname in ('SingleValueConstraint', 'PermittedAlphabetConstraint'):
        g = ctx.func(C + cname + '._setValues')
        ok = 'self._set = set(values)' in norm(g.node) and 'self._values = values' in norm(g.node)
        ctx.ob('C14.denote', g, 'member set built from all the given values', ok, '')
    # intersection: every member must accept (no handler around the member call)
    f = ctx.func(C + 'ConstraintsIntersection._testValue')
    loops = [n for n in walk_own(f.node) if isinstance(n, ast.For) and norm(n.iter) == 'self._values']
    ok = len(loops) == 1 and len(loops[0].body) == 1 and isinstance(loops[0].body[0], ast.Expr) and \
        isinstance(loops[0].body[0].value, ast.Call) and norm(loops[0].body[0].value.func) == norm(loops[0].target) and \
        not any(isinstance(n, (ast.Try, ast.Break, ast.Return, ast.Continue)) for n in walk_own(f.node))
    ctx.ob('C14.denote', f, 'intersection: every member constraint is applied, failures propagate', ok, '')
    # union: the first accepting member accepts; if none accepts, refuse
    f = ctx.func(C + 'ConstraintsUnion._testValue')
    cfg = ctx.cfg(f)
    trys = [n for n in walk_own(f.node) if isinstance(n, ast.Try)]
    ok = len(trys) == 1 and any(isinstance(s, ast.Return) for s in trys[0].orelse) and \
        all(h.type is not None and norm(h.type).endswith('ValueConstraintError') and all(isinstance(b, (ast.Pass, ast.Continue)) for b in h.body)
            for h in trys[0].handlers) and \
        any(isinstance(s, ast.Raise) for s in f.node.body) and isinstance(trys[0].parent, ast.For) and norm(trys[0].parent.iter) == 'self._values'
    ctx.ob('C14.denote', f, 'union: accepted iff some member accepts', ok, '')
    # exclusion: refuse iff some member accepts
    f = ctx.func(C + 'ConstraintsExclusion._testValue')
    trys = [n for n in walk_own(f.node) if isinstance(n, ast.Try)]
    ok = False
    if len(trys) == 1 and isinstance(trys[0].parent, ast.For):
        lp = trys[0].parent
        after = lp.body[lp.body.index(trys[0]) + 1:]
        ok = all(h.type is not None and norm(h.type).endswith('ValueConstraintError') and any(isinstance(b, ast.Continue) for b in h.body)
                 for h in trys[0].handlers) and any(isinstance(s, ast.Raise) for s in after) and not trys[0].orelse
    ctx.ob('C14.denote', f, 'exclusion: refused iff some member accepts', ok, '')
    # the evaluation entry point: an empty constraint accepts everything, failures are re-raised as constraint errors
    f = ctx.func(C + 'AbstractConstraint.__call__')
    src = norm(f.node)
    ok = 'if not self._values: return' in src.replace('\n', ' ') and 'self._testValue(value, idx)' in src
    ctx.ob('C14.denote', f, 'empty constraint accepts; otherwise _testValue decides', ok, '')


# ------------------------------------------------------------------- A2.pos

def rule_position_loops(ctx):
    """A2.pos: definite-length component loops measure consumption from a position taken once, before the loop."""
    n = 0
    for f in ctx.prog.all_functions():
        if f.module.name != 'pyasn1.codec.ber.decoder' or not f.is_generator:
            continue
        cfg = None
        for lp in [x for x in walk_own(f.node) if isinstance(x, ast.While) and 'substrate.tell()' in norm(x.test)]:
            n += 1
            t = lp.test
            base = None
            bound = None
            txt = norm(t)
            import re
            m1 = re.fullmatch(r'substrate\.tell\(\) - (\w+) < (\w+)', txt)
            m2 = re.fullmatch(r'(?:length == -1 or )?substrate\.tell\(\) < (\w+) \+ (\w+)', txt)
            if m1:
                base, bound = m1.group(1), m1.group(2)
            elif m2:
                base, bound = m2.group(1), m2.group(2)
            if cfg is None:
                cfg = ctx.cfg(f)
                rd = reaching_defs(cfg, f.params())
            head = cfg.node_of[lp]
            extra_names = ()
            m3 = re.fullmatch(r'(?:length == -1 or )?substrate\.tell\(\) < (\w+)', txt)
            if base is None and m3:
                # the end position computed once before the loop: `end = start + length`
                endv = m3.group(1)
                eds = rd[head].get(endv, set())
                vals = [d.ast.value for d in eds if d.kind == 'stmt' and isinstance(d.ast, ast.Assign) and d.loop is not head]
                if eds and len(vals) == len(eds) and all(isinstance(v, ast.BinOp) and isinstance(v.op, ast.Add) and
                                                        sorted([norm(v.left), norm(v.right)]) == ['length', 'substrate.tell()'] for v in vals):
                    # `end = substrate.tell() + length`: the start position is taken in the same expression
                    inside_ = [x for x in ast.walk(lp) if isinstance(x, (ast.Assign, ast.AugAssign)) and any(
                        isinstance(y, ast.Name) and y.id in (endv, 'length') for y in ast.walk(x.targets[0] if isinstance(x, ast.Assign) else x.target))]
                    ctx.ob('A2.pos', f, 'while %s' % txt, not inside_,
                           'end position `%s` = position before the loop + announced length; re-assignments inside the loop: %d' % (endv, len(inside_)), node=lp)
                    continue
                if eds and len(vals) == len(eds) and all(isinstance(v, ast.BinOp) and isinstance(v.op, ast.Add) and
                                                        isinstance(v.left, ast.Name) and isinstance(v.right, ast.Name) for v in vals):
                    pairs = set((v.left.id, v.right.id) for v in vals)
                    if len(pairs) == 1:
                        a_, b_ = pairs.pop()
                        base, bound = (b_, a_) if a_ == 'length' else (a_, b_)
                        extra_names = (endv,)
            if base is None:
                raise AnalysisError('position loop test `%s` in %s not recognised' % (txt, f.short))
            defs = rd[head].get(base, set())
            ok = bool(defs) and all(d.kind == 'stmt' and isinstance(d.ast, ast.Assign) and norm(d.ast.value) == 'substrate.tell()' and
                                    d.loop is not head for d in defs)
            inside = [x for x in ast.walk(lp) if isinstance(x, (ast.Assign, ast.AugAssign)) and any(
                isinstance(y, ast.Name) and y.id in (base, bound) + tuple(extra_names) for y in ast.walk(x.targets[0] if isinstance(x, ast.Assign) else x.target))]
            ok = ok and not inside and bound == 'length'
            ctx.ob('A2.pos', f, 'while %s' % txt, ok,
                   'the loop bound must be the announced `length` measured from `%s = substrate.tell()` taken before the loop and '
                   'left alone inside it; found definitions %s, re-assignments inside the loop: %d' % (
                       base, [d.text()[:40] for d in defs], len(inside)), node=lp)
    if n < 4:
        raise AnalysisError('A2.pos found only %d position loops' % n)


# ------------------------------------------------------------------- W.oid / W.bits encoder side

def rule_encode_contents(ctx):
    """W.oidenc / W.bitenc: first-arcs packing of the OID encoder and bit alignment of the BIT STRING encoder
    as tables over small domains, against X.690 8.19.4 and 8.6.2."""
    f = ctx.func('codec.ber.encoder.ObjectIdentifierEncoder.encodeValue')
    # region: from the statement after the one that reads the two leading arcs to the start of the sub-identifier loop
    from sa import region
    from sa.rules.wire import _resolver
    top = f.node.body
    start = [i for i, s_ in enumerate(top) if isinstance(s_, ast.Try) and any(isinstance(x, ast.Subscript) for y in s_.body for x in ast.walk(y))]
    loops = [i for i, s_ in enumerate(top) if isinstance(s_, (ast.For, ast.While))]
    if not start or not loops or loops[0] <= start[0]:
        raise AnalysisError('first-arcs region not found in %s' % f.short)
    reg = top[start[0] + 1:loops[0]]
    arcs = [a_.targets[0].id for y in top[start[0]].body for a_ in [y] if isinstance(a_, ast.Assign) and isinstance(a_.targets[0], ast.Name)
            and isinstance(a_.value, ast.Subscript)]
    if len(arcs) != 2:
        raise AnalysisError('the two leading arcs are not read in %s' % f.short)
    src = norm(top[start[0]].body[0].value.value)      # the tuple the arcs are read from
    res_ = _resolver(ctx, f, rich=True)
    bad = None
    chains = reg
    try:
        for first in range(0, 4):
            for second in range(0, ctx.scale(130, 1300)):
                env = {arcs[0]: first, arcs[1]: second, src: (first, second, 'a3', 'a4')}
                lab, env = region.walk(reg, env, None, res_)
                got = 'raise' if lab and lab.startswith('raise') else (env.get(src) if lab is None else lab)
                want = ((40 * first + second), 'a3', 'a4') if (first in (0, 1) and second <= 39) or first == 2 else 'raise'
                if got != want:
                    bad = (first, second, got, want)
                    break
            if bad:
                break
    except (intexpr.NotPure, region.Undecided) as x:
        raise AnalysisError('first-arcs region of the OID encoder is not a pure table: %s' % x)
    ctx.ob('W.oidenc', f, 'first sub-identifier = 40 * arc1 + arc2 (arc2 <= 39 unless arc1 == 2), anything else refused', bad is None,
           'arcs (%d, %d) -> %r, X.690 8.19.4 says %r' % bad if bad else 'checked for arc1 0..3, arc2 0..129', node=chains[0] if chains else f.node)
    sub = [n for n in walk_own(f.node) if isinstance(n, ast.If) and 'subOid' in names_used(n.test) and not (isinstance(n.parent, ast.If) and n in n.parent.orelse)]
    if len(sub) == 1:
        arms, orelse = if_chain(sub[0])
        parts = []
        remaining = set(range(-5, 400))
        for test, body in arms:
            acc = intexpr.accept_set(test, 'subOid', remaining)
            parts.append(acc)
            remaining -= acc
        ok = parts[0] == set(range(0, 128)) and parts[1] == set(range(128, 400)) and remaining == set(range(-5, 0)) and raises_in(orelse)
        ctx.ob('W.oidenc', f, 'sub-identifiers 0..127 in one octet, larger ones in base 128, negative arcs refused', ok,
               [intexpr.fmt_set(p) for p in parts], node=sub[0])
    # BIT STRING alignment
    g = ctx.func('codec.ber.encoder.BitStringEncoder.encodeValue')
    al = [n for n in walk_own(g.node) if isinstance(n, ast.If) and norm(n.test) == 'valueLength % 8']
    if len(al) != 1:
        raise AnalysisError('alignment test not found in %s' % g.short)
    shift = None
    for s in al[0].body:
        if isinstance(s, ast.Assign) and isinstance(s.value, ast.BinOp) and isinstance(s.value.op, ast.LShift):
            shift = s.value.right
    bad = None
    if shift is None:
        bad = ('?', '?', '?')
    else:
        for L in range(0, 70):
            got = intexpr.ev(shift, {'valueLength': L}) if L % 8 else 0
            if got != (-L) % 8:
                bad = (L, got, (-L) % 8)
                break
    ctx.ob('W.bitenc', g, 'value padded on the right to a multiple of 8 bits', bad is None,
           'a %s-bit value is shifted by %s, needs %s' % bad if bad else 'shift = (8 - len %% 8) for unaligned lengths', node=al[0])
    rets = [r for r in walk_own(g.node) if isinstance(r, ast.Return) and isinstance(r.value, ast.Tuple) and 'int2oct' in norm(r.value)]
    ok = len(rets) == 1 and norm(rets[0].value.elts[0]) == 'int2oct(len(substrate) * 8 - valueLength) + substrate'
    ctx.ob('W.bitenc', g, 'initial octet = number of unused bits = 8 * octets - bit length', ok, norm(rets[0].value.elts[0]) if rets else '')


# ------------------------------------------------------------------- W.realfmt

def _blocks_with(fnode):
    out = []

    def rec(stmts):
        out.append(stmts)
        for s_ in stmts:
            if isinstance(s_, (ast.FunctionDef, ast.ClassDef)):
                continue
            for f_ in ('body', 'orelse', 'finalbody'):
                b_ = getattr(s_, f_, None)
                if isinstance(b_, list) and b_ and isinstance(b_[0], ast.stmt):
                    rec(b_)
            for h_ in getattr(s_, 'handlers', []) or []:
                rec(h_.body)
    rec(fnode.body)
    return out


def rule_real_format(ctx):
    """W.realfmt: bit fields of the binary REAL first octet agree between encoder, decoder and X.690 8.5.7."""
    d = ctx.func('codec.ber.decoder.RealPayloadDecoder.valueDecoder')
    assigns = {}
    for n in walk_own(d.node):
        if isinstance(n, ast.Assign) and len(n.targets) == 1 and isinstance(n.targets[0], ast.Name):
            assigns.setdefault(n.targets[0].id, []).append(n.value)

    def table(expr):
        return [intexpr.ev(expr, {'fo': b}) for b in range(256)]
    want = {'n': [(b & 3) + 1 for b in range(256)], 'b': [(b >> 4) & 3 for b in range(256)], 'sf': [(b >> 2) & 3 for b in range(256)]}
    for var, ref in want.items():
        exprs = [e for e in assigns.get(var, []) if 'fo' in names_used(e)]
        if not exprs:
            raise AnalysisError('REAL field `%s` not extracted from the first octet in %s' % (var, d.short))
        try:
            ok = table(exprs[0]) == ref
        except intexpr.NotPure as x:
            raise AnalysisError('REAL field `%s`: %s' % (var, x))
        ctx.ob('W.realfmt', d, 'decoder field %s = %s' % (var, {'n': 'exponent length bits + 1', 'b': 'base bits (6-5)', 'sf': 'scale factor bits (4-3)'}[var]),
               ok, '`%s`' % norm(exprs[0]), node=exprs[0])
    src = [norm(s) for s in walk_own(d.node) if isinstance(s, ast.stmt)]
    import re
    ok = any(isinstance(n, ast.If) and norm(n.test) == 'n == 4' and any(re.fullmatch(r'n = oct2int\(\w+\[0\]\)', norm(s)) for s in n.body)
             for n in walk_own(d.node))
    ctx.ob('W.realfmt', d, 'exponent length 4 means "next octet holds the length"', ok, '')
    scal = {}
    for n in walk_own(d.node):
        if isinstance(n, ast.If) and isinstance(n.test, ast.Compare) and norm(n.test.left) == 'b' and isinstance(n.test.ops[0], ast.Eq):
            arms, orelse = if_chain(n)
            for test, body in arms:
                k = const_int(test.comparators[0])
                for s_ in body:
                    if isinstance(s_, ast.AugAssign) and norm(s_.target) == 'e' and isinstance(s_.op, ast.Mult):
                        scal[k] = const_int(s_.value)
    ctx.ob('W.realfmt', d, 'exponent scaled by 3 for base 8 and by 4 for base 16', scal == {1: 3, 2: 4}, 'found %r' % scal)
    sign = [n for n in walk_own(d.node) if isinstance(n, ast.If) and any(norm(s_) == 'p = -p' for s_ in n.body)]
    ok = len(sign) == 1 and intexpr.accept_set(sign[0].test, 'fo', range(256)) == set(b for b in range(256) if b & 0x40)
    ctx.ob('W.realfmt', d, 'bit 7 is the sign of the mantissa', ok, '')
    ok = False
    for n in walk_own(d.node):
        if isinstance(n, ast.AugAssign) and norm(n.target) == 'p' and isinstance(n.op, ast.Mult) and 'sf' in names_used(n.value):
            try:
                ok = [intexpr.ev(n.value, {'sf': k}) for k in range(4)] == [1, 2, 4, 8]
            except intexpr.NotPure:
                ok = False
    ctx.ob('W.realfmt', d, 'mantissa multiplied by 2**scale', ok, '')
    from sa.rules.wire import _subst
    ext = [e for e in assigns.get('e', []) if 'eo' in names_used(e)]
    ok = False
    for e_ in ext:
        try:
            t = _subst(e_, {'eo[0]': '__x'})
            ok = ok or [intexpr.ev(t, {'__x': b}) for b in range(256)] == [(-1 if b & 0x80 else 0) for b in range(256)]
        except intexpr.NotPure:
            pass
    ctx.ob('W.realfmt', d, 'exponent is sign-extended from its first octet', ok, [norm(e_) for e_ in ext])
    # ---- encoder
    e = ctx.func('codec.ber.encoder.RealEncoder.encodeValue')
    ors = {}
    for n in walk_own(e.node):
        if isinstance(n, ast.AugAssign) and norm(n.target) == 'fo' and isinstance(n.op, ast.BitOr):
            conds = [norm(a.test) for a in ancestors(n, e.node) if isinstance(a, ast.If)]
            ors[norm(n.value)] = conds
    base8 = [k for k, c in ors.items() if const_int(ast.parse(k, mode='eval').body) == 0x10]
    base16 = [k for k, c in ors.items() if const_int(ast.parse(k, mode='eval').body) == 0x20]
    signb = [k for k, c in ors.items() if const_int(ast.parse(k, mode='eval').body) == 0x40 and any('ms < 0' in x for x in c)]
    ctx.ob('W.realfmt', e, 'encoder sets base bits 01 for base 8, 10 for base 16, bit 7 for a negative mantissa',
           bool(base8) and bool(base16) and bool(signb), 'ORed constants: %s' % sorted(ors))
    ctx.ob('W.realfmt', e, 'encoder puts the scale factor into bits 4-3', 'sf << 2' in ors, '')
    # table over the exponent length: the statements between `n = len(eo)` and the next loop decide the two low bits
    from sa import region
    okn = False
    detail = ''
    blocks = [blk for blk in _blocks_with(e.node) for st_ in blk
              if isinstance(st_, ast.Assign) and isinstance(st_.value, ast.Call) and call_name(st_.value) == 'len' and isinstance(st_.targets[0], ast.Name)]
    for blk in blocks:
        idx = [i for i, st_ in enumerate(blk) if isinstance(st_, ast.Assign) and isinstance(st_.value, ast.Call) and call_name(st_.value) == 'len'
               and isinstance(st_.targets[0], ast.Name)]
        for i in idx:
            nvar = blk[i].targets[0].id
            src = norm(blk[i].value.args[0])
            after = []
            for st_ in blk[i + 1:]:
                if isinstance(st_, (ast.While, ast.For)):
                    break
                after.append(st_)
            prefixed = {}

            def mark(st_, env, src=src):
                if isinstance(st_, ast.Assign) and norm(st_.targets[0]) == src and nvar in [x.id for x in ast.walk(st_.value) if isinstance(x, ast.Name)]:
                    prefixed[env.get(nvar)] = True
                return None
            try:
                tab = {}
                for nv in range(1, 256):
                    lab, env = region.walk(after, {nvar: nv, 'fo': 0}, mark)
                    tab[nv] = (lab, env.get('fo'))
            except region.Undecided as x:
                detail = str(x)
                continue
            want = dict((nv, (None, {1: 0, 2: 1, 3: 2}.get(nv, 3))) for nv in range(1, 256))
            if tab == want and set(prefixed) == set(range(4, 256)):
                okn = True
            else:
                badv = [nv for nv in tab if tab[nv] != want[nv]]
                detail = 'length %s -> %s' % (badv[0], tab[badv[0]]) if badv else 'length octet prepended for %s' % intexpr.fmt_set(set(k for k in prefixed if k is not None))
    ctx.ob('W.realfmt', e, 'exponent length 1/2/3 -> bits 00/01/10, longer -> 11 + length octet', okn, detail)
    ok = any(isinstance(n, ast.Assign) and norm(n.targets[0]) == 'fo' and const_int(n.value) == 0x80 for n in walk_own(e.node))
    ctx.ob('W.realfmt', e, 'binary encoding announced by bit 8', ok, '')
    # special values
    rets = [norm(r.value) for r in walk_own(e.node) if isinstance(r, ast.Return)]
    ctx.ob('W.realfmt', e, 'PLUS-INFINITY = 40, MINUS-INFINITY = 41', '((64,), False, False)' in rets and '((65,), False, False)' in rets, '')
