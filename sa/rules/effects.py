"""A5 `effects`: purity of codec calls and shared mutable state (C12)."""
import ast

from sa.model import AnalysisError, ClassInfo, FuncInfo, Module, norm, walk_own, ancestors
from sa.cfg import reaching_defs, node_exprs, names_used
from sa.util import call_name, is_log_test, stmts_of
from sa.consteval import VInstance, VDict
from sa.rules import genproto as G
from sa.rules.tables import enc_chain, dec_chain, type_universe, by_type

MUTATORS = ('append', 'extend', 'pop', 'clear', 'update', 'add', 'remove', 'insert', 'sort', 'reverse', 'setdefault',
            'popitem', 'discard', 'addField')
CODEC_MODULES = tuple('pyasn1.codec.%s.%s' % (c, k) for c in ('ber', 'cer', 'der', 'native') for k in ('encoder', 'decoder')) + \
    ('pyasn1.codec.streaming',)

# memo writes that do not change what any caller can observe, with the reason
MEMO_ALLOW = {
    ('type.univ.Any.tagMap', '_tagMap'): 'memo of a pure function of immutable fields (tagSet, self)',
    ('type.univ.SizedInteger.__len__', 'bitLength'): 'idempotent memo of the bit length of an immutable int',
    ('type.univ.SizedInteger.setBitLength', 'bitLength'): 'called on freshly built values and by the memo above',
    ('type.univ.SizedInteger.setBitLength', 'leadingZeroBits'): 'called on freshly built values and by the memo above',
}


def _self_aliases(f):
    """Local names bound to `self.<attr>` (aliases of instance state)."""
    al = {}
    for n in walk_own(f.node):
        if isinstance(n, ast.Assign) and len(n.targets) == 1 and isinstance(n.targets[0], ast.Name) and \
                isinstance(n.value, ast.Attribute) and norm(n.value.value) == 'self':
            al[n.targets[0].id] = n.value.attr
    return al


def direct_self_writes(f):
    """[(attr, node)] heap writes to the receiver's own state in function f."""
    out = []
    if f.cls is None or not f.params() or f.params()[0] != 'self':
        return out
    if f.name in ('__init__', '__new__'):
        return out
    al = _self_aliases(f)

    def root_attr(e):
        # self.attr[...]..., alias[...]
        while isinstance(e, ast.Subscript):
            e = e.value
        if isinstance(e, ast.Attribute) and norm(e.value) == 'self':
            return e.attr
        if isinstance(e, ast.Name) and e.id in al:
            return al[e.id]
        return None
    for n in walk_own(f.node):
        tg = []
        if isinstance(n, ast.Assign):
            tg = n.targets
        elif isinstance(n, (ast.AugAssign, ast.AnnAssign)):
            tg = [n.target]
        elif isinstance(n, ast.Delete):
            tg = n.targets
        for t in tg:
            for x in ([t] if not isinstance(t, (ast.Tuple, ast.List)) else t.elts):
                if isinstance(x, ast.Attribute) and norm(x.value) == 'self':
                    out.append((x.attr, n))
                elif isinstance(x, ast.Subscript):
                    a = root_attr(x)
                    if a:
                        out.append((a, n))
        if isinstance(n, ast.Call) and isinstance(n.func, ast.Attribute) and n.func.attr in MUTATORS:
            a = root_attr(n.func.value)
            if a:
                out.append((a, n))
        if isinstance(n, ast.Call) and isinstance(n.func, ast.Name) and n.func.id == 'setattr' and n.args and norm(n.args[0]) == 'self':
            out.append(('<setattr>', n))
    return [(a, n) for a, n in out if (f.short, a) not in MEMO_ALLOW]


def impure_methods(ctx):
    """FuncInfo -> witness text, for methods of the type modules that (transitively through self) write to self."""
    if 'impure' in ctx.cache:
        return ctx.cache['impure']
    funcs = [f for f in ctx.prog.all_functions() if f.module.name.startswith('pyasn1.type') and f.cls is not None]
    imp = {}
    for f in funcs:
        w = direct_self_writes(f)
        if w:
            imp[f] = 'writes self.%s (%s)' % (w[0][0], norm(w[0][1])[:50])
    changed = True
    while changed:
        changed = False
        for f in funcs:
            if f in imp:
                continue
            for n in walk_own(f.node):
                callee = None
                if isinstance(n, ast.Call) and isinstance(n.func, ast.Attribute) and norm(n.func.value) == 'self':
                    callee = n.func.attr
                elif isinstance(n, ast.Subscript) and norm(n.value) == 'self':
                    callee = '__getitem__' if isinstance(n.ctx, ast.Load) else '__setitem__'
                elif isinstance(n, ast.Call) and isinstance(n.func, ast.Name) and n.func.id in ('len', 'iter', 'enumerate', 'list', 'tuple') \
                        and n.args and norm(n.args[0]) == 'self':
                    callee = '__len__' if n.func.id == 'len' else '__iter__'
                elif isinstance(n, (ast.For,)) and norm(n.iter) == 'self':
                    callee = '__iter__'
                elif isinstance(n, ast.Attribute) and norm(n.value) == 'self' and isinstance(n.ctx, ast.Load):
                    callee = n.attr  # property?
                if callee is None:
                    continue
                # explicit base-class call: Set.method(self, ...)
                targets = set()
                for c in [f.cls] + [k for k in ctx.prog.subclasses(f.cls) if k is not f.cls]:
                    owner, d = c.lookup(callee)
                    if d is not None and d[0] == 'func':
                        if isinstance(n, ast.Attribute) and not isinstance(getattr(n, 'parent', None), ast.Call) and \
                                'property' not in d[1].decorators:
                            continue
                        targets.add(d[1])
                hit = [t for t in targets if t in imp and t.name not in ('__init__',)]
                if hit:
                    imp[f] = 'calls self.%s -> %s' % (callee, hit[0].short)
                    changed = True
                    break
            if f in imp:
                continue
            # Base.method(self, ...) explicit calls
            for n in walk_own(f.node):
                if isinstance(n, ast.Call) and isinstance(n.func, ast.Attribute) and n.args and norm(n.args[0]) == 'self':
                    r = ctx.prog.resolve_expr(f.module, n.func)
                    if isinstance(r, FuncInfo) and r in imp and r.name != '__init__':
                        imp[f] = 'calls %s(self)' % r.short
                        changed = True
                        break
    ctx.cache['impure'] = imp
    return imp


def served_types(ctx):
    """encoder method FuncInfo -> set of type ClassInfos whose values reach it as `value`."""
    out = {}
    for codec in ('ber', 'cer', 'der', 'native'):
        ch = enc_chain(ctx, codec)
        for c, tid, ts in type_universe(ctx):
            inst, how = by_type(ch, tid, ts)
            if not isinstance(inst, VInstance):
                continue
            for mname in ('encodeValue', 'encode', '_encodeComponents'):
                m = inst.ci.method(mname)
                if m is not None:
                    out.setdefault(m, set()).add(c)
    return out


def rule_value_pure(ctx):
    """A5.value: encoders read the value only through accessors that do not write to it."""
    imp = impure_methods(ctx)
    served = served_types(ctx)
    nsites = 0
    for m, types in sorted(served.items(), key=lambda t: t[0].qualname):
        if not m.module.name.startswith('pyasn1.codec'):
            continue
        params = m.params()
        if len(params) < 2 or params[1] != 'value':
            continue
        cands = set()
        for t in types:
            cands |= set(ctx.prog.subclasses(t)) | {t}
        seen_keys = set()
        for n in walk_own(m.node):
            acc = None
            if isinstance(n, ast.Call) and isinstance(n.func, ast.Attribute) and norm(n.func.value) == 'value':
                acc = (n.func.attr, 'value.%s()' % n.func.attr)
            elif isinstance(n, ast.Call) and isinstance(n.func, ast.Name) and n.func.id in ('enumerate', 'iter', 'list', 'tuple', 'sorted') \
                    and n.args and norm(n.args[0]) == 'value':
                acc = ('__iter__', 'for ... in value')      # one key for every spelling of an iteration over the value
            elif isinstance(n, (ast.For, ast.comprehension)) and norm(n.iter) == 'value':
                acc = ('__iter__', 'for ... in value')
            elif isinstance(n, ast.Subscript) and norm(n.value) == 'value' and isinstance(n.ctx, ast.Load):
                acc = ('__getitem__', 'value[...]')
            elif isinstance(n, ast.Call) and isinstance(n.func, ast.Name) and n.func.id == 'len' and n.args and norm(n.args[0]) == 'value':
                acc = ('__len__', 'len(value)')
            elif isinstance(n, ast.Attribute) and norm(n.value) == 'value' and isinstance(n.ctx, ast.Load) and \
                    not (isinstance(n.parent, ast.Call) and n.parent.func is n):
                acc = (n.attr, 'value.%s' % n.attr)
            if acc is None:
                continue
            # only accesses in the value arm (asn1Spec is None) matter: in the python arm `value` is a builtin
            inpy = False
            for a in ancestors(n, m.node):
                if isinstance(a, ast.If) and norm(a.test) == 'asn1Spec is None':
                    cur = n
                    while cur.parent is not a:
                        cur = cur.parent
                    if cur in a.orelse:
                        inpy = True
                if isinstance(a, ast.If) and norm(a.test) == 'asn1Spec is not None':
                    cur = n
                    while cur.parent is not a:
                        cur = cur.parent
                    if cur in a.body:
                        inpy = True
            if not inpy:
                # the same through guard clauses: `if asn1Spec is None: ...return` puts what follows in the python arm
                try:
                    from sa.cfg import known_at
                    cfg_ = ctx.cfg(m)
                    st_ = n
                    while not (isinstance(st_, ast.stmt) and st_ in cfg_.node_of):
                        st_ = st_.parent
                    inpy = known_at(cfg_, cfg_.node_of[st_], 'asn1Spec is None', False)
                except Exception:
                    inpy = False
            if inpy:
                continue
            name, text = acc
            if text in seen_keys:
                continue
            seen_keys.add(text)
            hits = []
            for c in cands:
                owner, d = c.lookup(name)
                if d is not None and d[0] == 'func' and d[1] in imp:
                    if isinstance(n, ast.Attribute) and 'property' not in d[1].decorators:
                        continue
                    hits.append((c, d[1]))
            nsites += 1
            ctx.ob('A5.value', m, text, not hits,
                   'for %s the accessor resolves to %s, which %s: encoding changes the value object (placeholders are '
                   'instantiated by the read)' % (hits[0][0].name, hits[0][1].short, imp[hits[0][1]]) if hits else
                   'resolves to pure accessors on %s' % sorted(t.name for t in types)[:4], node=n)
    if nsites < 15:
        raise AnalysisError('A5.value found only %d accesses of `value` in the encoders' % nsites)


def rule_spec_pure(ctx):
    """A5.spec: decoders mutate only objects they created (clones), never the guiding type or a codec prototype."""
    fam = G.family(ctx, 'off')
    setters = ('setComponentByPosition', 'setComponentByType', 'setComponentByName', 'clear', 'reset', 'append', 'extend',
               'setComponents', 'update')
    n = 0
    for f in sorted(fam.members, key=lambda f: f.qualname):
        if not f.module.name.startswith('pyasn1.codec.'):
            continue
        cfg = ctx.cfg(f)
        rd = None
        for node in cfg.stmt_nodes():
            for e in node_exprs(node):
                for x in ast.walk(e):
                    recv = None
                    if isinstance(x, ast.Call) and isinstance(x.func, ast.Attribute) and x.func.attr in setters:
                        recv = x.func.value
                    elif isinstance(x, ast.Subscript) and isinstance(x.ctx, ast.Store):
                        recv = x.value
                    if recv is None:
                        continue
                    if isinstance(recv, ast.Name) and recv.id in ('seenIndices', 'components', 'componentTypes', 'options', 'tagCache', 'tagSetCache'):
                        continue   # local bookkeeping containers / per-decoder caches (A5.census)
                    if norm(recv).startswith('debug.') or norm(recv) in ('substrate',):
                        continue
                    n += 1
                    if rd is None:
                        rd = reaching_defs(cfg, f.params())
                    ok, why = _fresh(ctx, f, cfg, rd, node, recv, 0)
                    ctx.ob('A5.spec', f, '%s mutated via %s' % (norm(recv), norm(x)[:50]), ok, why, node=x)
    if n < 12:
        raise AnalysisError('A5.spec found only %d mutation sites in the decoders' % n)
    # the guiding type is cloned before it is filled
    for q in ('codec.ber.decoder.ConstructedPayloadDecoderBase.valueDecoder', 'codec.ber.decoder.ConstructedPayloadDecoderBase.indefLenValueDecoder',
              'codec.ber.decoder.ChoicePayloadDecoder.valueDecoder', 'codec.ber.decoder.ChoicePayloadDecoder.indefLenValueDecoder'):
        f = ctx.func(q)
        src = [norm(s) for s in stmts_of(f.node)]
        ctx.ob('A5.spec', f, 'asn1Object = asn1Spec.clone()', 'asn1Object = asn1Spec.clone()' in src, '', nontrivial=False)


def _fresh(ctx, f, cfg, rd, node, recv, depth):
    """Is the receiver expression an object created inside this call (clone / constructor / component of one)?"""
    if depth > 4:
        return False, 'alias chain too deep'
    if isinstance(recv, ast.Name):
        if recv.id in ('asn1Spec', 'componentType', 'namedTypes') and rd[node].get(recv.id) == {cfg.entry}:
            return False, '`%s` is the caller\'s guiding type: decoding must not modify it' % recv.id
        defs = rd[node].get(recv.id, set())
        if not defs:
            return False, 'no definition of `%s`' % recv.id
        for d in defs:
            if d is cfg.entry:
                return False, '`%s` is a parameter (caller-owned object)' % recv.id
            if d.kind == 'for':
                return False, '`%s` is a loop variable' % recv.id
            val = d.ast.value if isinstance(d.ast, ast.Assign) else None
            if val is None:
                return False, 'definition `%s` not understood' % d.text()[:40]
            ok, why = _fresh_value(ctx, f, cfg, rd, d, val, depth)
            if not ok:
                return False, why
        return True, 'every definition of `%s` is an object created by this call' % recv.id
    if isinstance(recv, ast.Attribute):
        return False, '`%s` is shared state (attribute of a longer-lived object)' % norm(recv)
    return False, 'receiver `%s` not understood' % norm(recv)


def _fresh_value(ctx, f, cfg, rd, dnode, val, depth):
    if isinstance(val, ast.Call) and isinstance(val.func, ast.Attribute):
        if val.func.attr in ('clone', 'subtype'):
            return True, 'clone'
        if val.func.attr in ('getComponentByPosition', 'getComponentByName', 'getComponent'):
            return _fresh(ctx, f, cfg, rd, dnode, val.func.value, depth + 1)
    if isinstance(val, ast.Call) and isinstance(val.func, ast.Name):
        r = ctx.prog.resolve_name(f.module, val.func.id)
        if isinstance(r, ClassInfo) or val.func.id in ('dict', 'list', 'set'):
            return True, 'constructor'
    if isinstance(val, (ast.Dict, ast.List, ast.Set)):
        return True, 'literal'
    if isinstance(val, ast.Subscript):
        return _fresh(ctx, f, cfg, rd, dnode, val.value, depth + 1)
    return False, 'defined as `%s`, which is not an object created by this call' % norm(val)[:60]


# census of writes to shared state at call time: (function short, target text) -> class/reason
CENSUS_ALLOW = {
    ('type.base.Asn1Item.getTypeId', 'Asn1Item._typeCounter'):
        'import time only: getTypeId() is called from class bodies only (checked below)',
    ('type.base.NoValue.__new__', 'cls._instance'): 'singleton creation, once, at import of type.base',
    ('type.base.NoValue.__new__', 'setattr(cls, ...)'): 'singleton creation, once, at import of type.base',
    ('codec.ber.eoo.EndOfOctets.__new__', 'cls._instance'): 'singleton creation, once, at import of codec.ber.eoo',
    ('debug.setLogger', 'global _LOG'): 'logging configuration (explicit user call)',
    ('debug.setLogger', 'setattr(module, ...)'): 'logging configuration: rebinding the LOG flag of the codec modules',
    ('debug.registerLoggee', 'LOGGEE_MAP[...]'): 'import time only: called from module bodies (checked below)',
}


def rule_census(ctx):
    """A5.census: every call-time write to module-level, class-level or singleton state is enumerated and classified."""
    nfound = 0
    for f in ctx.prog.all_functions():
        mod = f.module
        for n in walk_own(f.node):
            key = None
            if isinstance(n, ast.Global):
                key = 'global %s' % ', '.join(n.names)
            elif isinstance(n, (ast.Assign, ast.AugAssign)):
                tg = n.targets if isinstance(n, ast.Assign) else [n.target]
                for t in tg:
                    if isinstance(t, ast.Attribute):
                        base = t.value
                        r = ctx.prog.resolve_expr(mod, base) if isinstance(base, (ast.Name, ast.Attribute)) else None
                        if isinstance(base, ast.Name) and base.id == 'cls':
                            key = 'cls.%s' % t.attr
                        elif isinstance(r, (ClassInfo, Module)) and not (isinstance(base, ast.Name) and base.id in f.params()):
                            key = '%s.%s' % (norm(base), t.attr)
                    elif isinstance(t, ast.Subscript) and isinstance(t.value, ast.Name) and t.value.id not in _locals(f):
                        b = mod.bindings.get(t.value.id)
                        if b and b[-1][0] == 'value':
                            key = '%s[...]' % t.value.id
            elif isinstance(n, ast.Call) and isinstance(n.func, ast.Name) and n.func.id == 'setattr' and n.args:
                a0 = norm(n.args[0])
                if a0 != 'self':
                    key = 'setattr(%s, ...)' % a0
            elif isinstance(n, ast.Call) and isinstance(n.func, ast.Attribute) and n.func.attr in MUTATORS and \
                    isinstance(n.func.value, ast.Name) and n.func.value.id not in _locals(f) and n.func.value.id not in f.params():
                b = mod.bindings.get(n.func.value.id)
                if b and b[-1][0] == 'value':
                    key = '%s.%s()' % (n.func.value.id, n.func.attr)
            if key is None:
                continue
            nfound += 1
            reason = CENSUS_ALLOW.get((f.short, key))
            ctx.ob('A5.census', f, key, reason is not None,
                   reason or 'call-time write to shared state `%s`: the outcome of a codec call would depend on the history of '
                   'other calls / on other threads (the package takes no locks)' % key, node=n)
    if nfound < 5:
        raise AnalysisError('A5.census found only %d shared-state writes' % nfound)
    # getTypeId / registerLoggee are called at import time only
    for fn in ('getTypeId', 'registerLoggee'):
        bad = []
        for f in ctx.prog.all_functions():
            for c in walk_own(f.node):
                if isinstance(c, ast.Call) and call_name(c) == fn:
                    bad.append(f)
        ctx.ob('A5.census', fn, 'called from module/class bodies only', not bad,
               'called at run time from %s' % [b.short for b in bad] if bad else 'no call inside any function')
    # debug.scope is touched only under `if LOG:`
    for f in ctx.prog.all_functions():
        if f.module.name not in CODEC_MODULES:
            continue
        for c in walk_own(f.node):
            if isinstance(c, ast.Call) and norm(c.func) in ('debug.scope.push', 'debug.scope.pop'):
                ctx.ob('A5.census', f, norm(c.func), G.under_log(c, f.node),
                       'global scope stack touched only with logging on' if G.under_log(c, f.node) else
                       'global debug scope stack modified with logging off', node=c, nontrivial=False)


def _locals(f):
    out = set()
    for n in walk_own(f.node):
        if isinstance(n, ast.Name) and isinstance(n.ctx, ast.Store):
            out.add(n.id)
    return out


def rule_stateless(ctx):
    """A5.stateless: codec singletons registered in the tables have no method that stores to self;
    per-decoder caches are instance attributes created per decode call."""
    seen = set()
    for codec in ('ber', 'cer', 'der', 'native'):
        for ch in (enc_chain(ctx, codec), dec_chain(ctx, codec)):
            for nm in ('TAG_MAP', 'TYPE_MAP'):
                for v in ch[nm].d.values():
                    if isinstance(v, VInstance):
                        seen.add(v.ci)
    extra = [ctx.cls('codec.ber.decoder.RawPayloadDecoder'), ctx.cls('codec.ber.encoder.SingleItemEncoder'),
             ctx.cls('codec.native.encoder.SingleItemEncoder'), ctx.cls('codec.native.decoder.SingleItemDecoder'),
             ctx.cls('codec.ber.encoder.Encoder'), ctx.cls('codec.ber.decoder.Decoder')]
    for c in extra:
        seen |= set(ctx.prog.subclasses(c))
    if len(seen) < 40:
        raise AnalysisError('only %d codec classes found' % len(seen))
    for c in sorted(seen, key=lambda c: c.qualname):
        bad = []
        for k in c.mro:
            if not isinstance(k, ClassInfo):
                continue
            for name, defs in k.attrs.items():
                for d in defs:
                    if d[0] == 'func':
                        w = direct_self_writes(d[1])
                        if w:
                            bad.append((d[1], w[0]))
            # class-level mutable containers other than the codec tables
        ctx.ob('A5.stateless', c, 'no method stores to self', not bad,
               '%s writes self.%s: a codec singleton shared by all calls keeps state' % (bad[0][0].short, bad[0][1][0]) if bad else 'stateless',
               node=(c.module.relpath, c.node.lineno), nontrivial=bool(bad))
    # item decoder: caches are per instance, instance is per StreamingDecoder, which is per decode() call
    f = ctx.func('codec.ber.decoder.SingleItemDecoder.__init__')
    src = [norm(s) for s in f.node.body]
    ctx.ob('A5.stateless', f, 'tag caches are fresh per item decoder instance',
           'self._tagCache = {}' in src and 'self._tagSetCache = {}' in src, str([s for s in src if 'Cache' in s]))
    for cname in ('codec.ber.decoder.SingleItemDecoder', 'codec.cer.decoder.SingleItemDecoder', 'codec.der.decoder.SingleItemDecoder'):
        c = ctx.cls(cname)
        for a in ('_tagCache', '_tagSetCache'):
            o, d = c.lookup(a)
            ctx.ob('A5.stateless', c, 'no class-level %s' % a, d is None, 'class attribute %s would be shared by all decoders' % a if d else 'instance attribute only',
                   nontrivial=False)
    f = ctx.func('codec.ber.decoder.StreamingDecoder.__init__')
    ctx.ob('A5.stateless', f, 'item decoder created per streaming decoder',
           any(norm(s) == 'self._singleItemDecoder = self.SINGLE_ITEM_DECODER(**options)' for s in f.node.body), '')
    f = ctx.func('codec.ber.decoder.Decoder.__call__')
    ctx.ob('A5.stateless', f, 'streaming decoder created per decode() call',
           any('cls.STREAMING_DECODER(' in norm(s) for s in stmts_of(f.node)), '')
    ctx.ob('A5.stateless', f, 'decode() is a classmethod: no instance state', 'classmethod' in f.decorators, str(f.decorators), nontrivial=False)


def rule_log_blocks(ctx):
    """A5.log: statements that run only with logging on are effect-free for the codec."""
    nblocks = 0
    for f in ctx.prog.all_functions():
        if f.module.name not in CODEC_MODULES:
            continue
        blocks = [n for n in walk_own(f.node) if isinstance(n, ast.If) and is_log_test(n.test) and not n.orelse]
        if not blocks:
            continue
        cfg = ctx.cfg(f)
        rd = reaching_defs(cfg, f.params())
        for b in blocks:
            nblocks += 1
            inside = set()
            for s in b.body:
                for x in ast.walk(s):
                    inside.add(x)
            # (1) definitions made in the block must not reach uses outside it
            leaks = []
            defnodes = [n for n in cfg.stmt_nodes() if n.ast is not None and n.ast in inside and
                        (n.kind in ('for',) or (n.kind == 'stmt' and isinstance(n.ast, (ast.Assign, ast.AugAssign))))]
            if defnodes:
                for n in cfg.stmt_nodes():
                    if n.ast is None or n.ast in inside:
                        continue
                    for e in node_exprs(n):
                        for v in names_used(e):
                            for d in rd[n].get(v, ()):
                                if d in defnodes:
                                    leaks.append((v, n))
            # (2) stream-advancing calls
            adv = []
            for x in inside:
                if isinstance(x, ast.Call):
                    cn = call_name(x)
                    if cn in ('readFromStream', 'read', 'seek', 'decodeFun', 'substrateFun', 'readline') or cn == 'next':
                        adv.append(x)
            # (3) no control flow out of a LOG block: it would make the codec behave differently with logging on
            jumps = [x for x in inside if isinstance(x, (ast.Continue, ast.Break, ast.Return, ast.Raise))]
            key = 'if LOG: %s' % norm(b.body[0]).split('\n')[0][:50]
            reason = None
            if adv and f.short == 'codec.ber.decoder.ConstructedPayloadDecoderBase.valueDecoder' and \
                    all(call_name(a) == 'readFromStream' for a in adv):
                # frozen exception: the enclosing guard repeats the negation of the exit condition of the loop just left
                enc = [a for a in ancestors(b, f.node) if isinstance(a, ast.If)]
                if enc and norm(enc[0].test) == 'substrate.tell() < original_position + length':
                    reason = ('guard `substrate.tell() < original_position + length` is false after the schemaless component loop, '
                              'whose exit condition is its negation (length != -1 in the definite-length decoder)')
            ok = not leaks and (not adv or reason is not None) and not jumps
            why = []
            if jumps:
                why.append('`%s` inside a LOG block: control flow of the codec depends on the debug flag' % norm(jumps[0]))
            if leaks:
                why.append('`%s` defined under LOG is used at `%s`: the result differs with logging on' % (leaks[0][0], leaks[0][1].text()[:40]))
            if adv and not reason:
                why.append('stream-advancing call `%s` runs only with logging on' % norm(adv[0])[:50])
            if reason:
                why.append('frozen exception: ' + reason)
            ctx.ob('A5.log', f, key, ok, '; '.join(why) or 'no live definition, no stream access', node=b, nontrivial=bool(defnodes or adv))
    if nblocks < 40:
        raise AnalysisError('only %d LOG blocks found' % nblocks)


def rule_defaults(ctx):
    """A5.default: no mutable default argument values."""
    n = 0
    for f in ctx.prog.all_functions():
        a = f.node.args
        for d in list(a.defaults) + [k for k in a.kw_defaults if k is not None]:
            n += 1
            mutable = isinstance(d, (ast.List, ast.Dict, ast.Set, ast.ListComp, ast.DictComp)) or \
                (isinstance(d, ast.Call) and isinstance(d.func, ast.Name) and d.func.id in ('list', 'dict', 'set'))
            if mutable:
                ctx.ob('A5.default', f, 'default %s' % norm(d), False, 'mutable default value shared by all calls', node=d)
    ctx.ob('A5.default', 'pyasn1', 'no mutable default argument values', True, '%d default values inspected' % n, nontrivial=False)


def rule_option_latch(ctx):
    """A5.latch: per-component encoder options kept in the shared `options` dict are recomputed on every iteration.

    `options` is one dict for all iterations of a component loop; an option that is only ever switched on
    (`options.update(k=True)` under a condition) stays on for the members encoded afterwards."""
    n = 0
    for f in ctx.prog.all_functions():
        if not f.module.name.startswith('pyasn1.codec.') or 'encoder' not in f.module.name:
            continue
        for lp in [x for x in walk_own(f.node) if isinstance(x, (ast.For, ast.While))]:
            for c in ast.walk(lp):
                stores = []
                if isinstance(c, ast.Call) and norm(c.func) == 'options.update':
                    stores = [(k.arg, k.value) for k in c.keywords if k.arg]
                elif isinstance(c, ast.Assign) and any(isinstance(t, ast.Subscript) and norm(t.value) == 'options' for t in c.targets):
                    stores = [(norm(c.targets[0].slice), c.value)]
                for key, val in stores:
                    n += 1
                    latch = isinstance(val, ast.Constant) and bool(val.value)
                    ctx.ob('A5.latch', f, 'options[%s] = %s inside a component loop' % (key, norm(val)), not latch,
                           'the option is set to a constant inside the loop and never reset: once switched on it also applies to '
                           'the components encoded later (the options dict is shared by all iterations)' if latch else
                           'recomputed from the current component', node=c)
    if n < 3:
        raise AnalysisError('A5.latch found only %d option stores in encoder loops' % n)
