"""Rules added after the third round of seeded changes (DESIGN.md, section 11.2)."""
import ast

from sa.model import AnalysisError, ClassInfo, FuncInfo, norm, walk_own, ancestors
from sa.cfg import reaching_defs, node_exprs, names_used
from sa.util import call_name, const_int, if_chain, stmts_of, raises_in
from sa import intexpr
from sa.rules.round2 import _conjuncts, _tdeps


# ------------------------------------------------------------------- W.sized

def rule_sized_length(ctx):
    """W.sized: `len()` of a SizedInteger is its recorded bit length only after setBitLength(); a freshly built
    SizedInteger(x) answers len() with bit_length(x) (leading zero bits are not counted).  In the BIT STRING
    constructors no `len(v)` is taken of a local whose reaching definition is a bare `SizedInteger(...)`."""
    c = ctx.cls('type.univ.BitString')
    n = 0
    for nm in ('fromOctetString', 'fromBinaryString', 'fromHexString'):
        f = c.method(nm)
        cfg = ctx.cfg(f)
        rd = reaching_defs(cfg, f.params())
        for node in cfg.stmt_nodes():
            for e in node_exprs(node):
                for x in ast.walk(e):
                    if not (isinstance(x, ast.Call) and call_name(x) == 'len' and len(x.args) == 1 and isinstance(x.args[0], ast.Name)):
                        continue
                    v = x.args[0].id
                    defs = rd[node].get(v, set())
                    bare = []
                    for d in defs:
                        if d.kind == 'stmt' and isinstance(d.ast, ast.Assign):
                            rhs = d.ast.value
                            if isinstance(rhs, ast.Call) and call_name(rhs) == 'SizedInteger' and isinstance(rhs.func, ast.Name):
                                bare.append(d)
                    n += 1
                    ctx.ob('W.sized', f, '`len(%s)` in `%s` is taken of a sized value' % (v, node.text()[:40]), not bare,
                           '`%s` may hold `%s` (line %d): a SizedInteger without setBitLength() reports bit_length(), so leading zero '
                           'bits of that operand are not counted and the joined bits end up in the wrong place' % (
                               v, norm(bare[0].ast.value)[:60], bare[0].ast.lineno) if bare else 'sized or raw octets', node=x)
    if n < 6:
        raise AnalysisError('expected the len() uses of the BIT STRING constructors, found %d' % n)


# ------------------------------------------------------------------- W.segtag

def rule_segment_spec(ctx):
    """W.segtag: the chunks of a constructed string are encoded under a spec whose tag set is built from the BASE tag
    alone (`TagSet(baseTag, baseTag)`): an implicit or explicit tag of the string belongs to the outer header only."""
    f = ctx.func('codec.ber.encoder.OctetStringEncoder.encodeValue')
    clones = [c for c in walk_own(f.node) if isinstance(c, ast.Call) and call_name(c) == 'clone' and
              any(k.arg == 'tagSet' for k in c.keywords)]
    if len(clones) < 2:
        raise AnalysisError('segment spec clones not found in %s' % f.short)
    cfg = ctx.cfg(f)
    rd = reaching_defs(cfg, f.params())
    for c in clones:
        kv = [k.value for k in c.keywords if k.arg == 'tagSet'][0]
        node = [n for n in cfg.stmt_nodes() if any(c is x for e in node_exprs(n) for x in ast.walk(e))][0]
        exprs = [kv]
        if isinstance(kv, ast.Name):
            exprs = [d.ast.value for d in rd[node].get(kv.id, set()) if d.kind == 'stmt' and isinstance(d.ast, ast.Assign)]
        ok = bool(exprs)
        why = []
        for e in exprs:
            t = norm(e)
            if t == 'tag.TagSet()':
                continue
            if isinstance(e, ast.Call) and norm(e.func) == 'tag.TagSet' and len(e.args) == 2 and norm(e.args[0]) == norm(e.args[1]) \
                    and isinstance(e.args[0], ast.Name):
                bdefs = [norm(a.value) for a in walk_own(f.node) if isinstance(a, ast.Assign) and norm(a.targets[0]) == e.args[0].id]
                if bdefs and all(b.endswith('.tagSet.baseTag') for b in bdefs):
                    continue
            ok = False
            why.append(t)
        ctx.ob('W.segtag', f, 'segment spec `%s` is tagged with the base tag only' % norm(c)[:50], ok,
               'segment tag set `%s` is not TagSet(baseTag, baseTag): for an IMPLICITly tagged string the segments carry the implicit '
               'tag instead of the universal one and no decoder accepts them' % '; '.join(why) if not ok else 'TagSet(baseTag, baseTag)', node=c)


# ------------------------------------------------------------------- A2.eosloop

def rule_eos_poll(ctx):
    """A2.eosloop: isEndOfStream answers only after a read returned something other than None: every path from a probe
    read to the answer passes the `is None` test of that read (an empty poll is "don't know yet", however often)."""
    f = ctx.func('codec.streaming.isEndOfStream')
    cfg = ctx.cfg(f)
    sub = f.params()[0]
    reads = [n for n in cfg.stmt_nodes() if n.kind == 'stmt' and isinstance(n.ast, ast.Assign) and isinstance(n.ast.value, ast.Call)
             and norm(n.ast.value.func) == '%s.read' % sub]
    if not reads:
        raise AnalysisError('no probe read in %s' % f.short)
    var = norm(reads[0].ast.targets[0])
    tests = [n for n in cfg.stmt_nodes() if n.kind in ('test', 'while') and norm(n.ast.test) in ('%s is None' % var, '%s is not None' % var)]
    answers = [n for n in cfg.stmt_nodes() if n.kind == 'stmt' and isinstance(n.ast, ast.Expr) and isinstance(n.ast.value, ast.Yield)
               and n.ast.value.value is not None and var in names_used(n.ast.value.value)]
    if not answers or not tests:
        raise AnalysisError('answer yield / None test not found in %s' % f.short)
    for r in reads:
        for y in answers:
            leak = y in cfg.reachable(r, avoid=tuple(tests) + tuple(x for x in reads if x is not r))
            ctx.ob('A2.eosloop', f, 'read at line %d is tested for None before `%s`' % (r.ast.lineno, y.text()[:30]), not leak,
                   'the result of `%s` reaches `%s` without an `is None` test: a second empty poll of a non-blocking stream is '
                   'answered "ended" and the remaining items are never decoded' % (r.text(), y.text()) if leak else 'tested', node=r.ast)


# ------------------------------------------------------------------- A2.ended

def rule_ended_exactly(ctx):
    """A2.ended: after the end-of-stream probe, EndOfStreamError is raised exactly when the probe returned an empty string:
    not for None (open stream without data) and not for data."""
    f = ctx.func('codec.streaming.readFromStream')
    sub = f.params()[0]
    probes = [a for a in walk_own(f.node) if isinstance(a, ast.Assign) and isinstance(a.value, ast.Call) and
              norm(a.value.func) == '%s.read' % sub and a.value.args and const_int(a.value.args[0]) == 1]
    if len(probes) != 1:
        raise AnalysisError('one-octet probe not found in %s' % f.short)
    var = norm(probes[0].targets[0])
    guards = [n for n in walk_own(f.node) if isinstance(n, ast.If) and var in names_used(n.test) and
              any(isinstance(s, ast.Raise) and 'EndOfStreamError' in norm(s) for s in n.body)]
    if len(guards) != 1:
        raise AnalysisError('EndOfStreamError guard on the probe result not found')
    t = guards[0].test
    acc = []
    try:
        for label, v in (('None', None), ("b''", 0), ("b'x'", 1)):
            if intexpr.ev(t, {var: v}):
                acc.append(label)
    except intexpr.NotPure as x:
        raise AnalysisError('guard `%s` not evaluable: %s' % (norm(t), x))
    ctx.ob('A2.ended', f, 'EndOfStreamError iff the probe returned an empty string', acc == ["b''"],
           '`if %s:` raises EndOfStreamError when the probe returns %s: an open non-blocking stream that has no data yet '
           '(None) must be reported as an underrun, not as the end' % (norm(t), acc) if acc != ["b''"] else norm(t), node=guards[0])


# ------------------------------------------------------------------- A5.methid

def rule_method_identity(ctx):
    """A5.methid: an identity comparison `x is self.m` / `x is not self.m` only makes sense when `m` is a staticmethod
    (or a plain class attribute): every access to an ordinary method creates a new bound-method object, so the comparison
    is constantly False / True."""
    n = 0
    for f in sorted(ctx.prog.all_functions(), key=lambda f: f.qualname):
        if f.cls is None:
            continue
        for c in walk_own(f.node):
            if not (isinstance(c, ast.Compare) and len(c.ops) == 1 and isinstance(c.ops[0], (ast.Is, ast.IsNot))):
                continue
            for side in (c.left, c.comparators[0]):
                if isinstance(side, ast.Attribute) and isinstance(side.value, ast.Name) and side.value.id == 'self':
                    targets = set()
                    for k in [f.cls] + [x for x in ctx.prog.subclasses(f.cls) if x is not f.cls]:
                        owner, d = k.lookup(side.attr)
                        if d is not None and d[0] == 'func':
                            targets.add(d[1])
                    if not targets:
                        continue
                    n += 1
                    bad = [t for t in targets if 'staticmethod' not in t.decorators]
                    ctx.ob('A5.methid', f, '`%s` compares against a staticmethod' % norm(c), not bad,
                           '`%s` resolves to %s, an ordinary method: `self.%s` is a fresh bound-method object on every access, so this '
                           'identity test never matches - the decoder takes its own collector for a foreign substrateFun and hands it '
                           'the rest of the stream' % (norm(side), bad[0].short, side.attr) if bad else
                           'staticmethod %s' % sorted(t.short for t in targets)[0], node=c)
    if n < 2:
        raise AnalysisError('expected the identity comparisons with self.substrateCollector, found %d' % n)


# ------------------------------------------------------------------- A1.alias

def rule_table_alias(ctx):
    """A1.alias: a codec module that fills its TAG_MAP / TYPE_MAP owns the dict it fills: the table is a dict display or a
    `.copy()` of the parent's, never the parent's object itself (updating an alias rewrites the parent codec's table:
    importing the DER decoder would make the BER decoder strict)."""
    n = 0
    for codec in ('ber', 'cer', 'der', 'native'):
        for kind in ('encoder', 'decoder'):
            m = ctx.mod('codec.%s.%s' % (codec, kind))
            for s in m.tree.body:
                if not (isinstance(s, ast.Assign) and len(s.targets) == 1 and isinstance(s.targets[0], ast.Name) and
                        s.targets[0].id in ('TAG_MAP', 'TYPE_MAP')):
                    continue
                name = s.targets[0].id
                v = s.value
                fresh = isinstance(v, ast.Dict) or (isinstance(v, ast.Call) and (call_name(v) in ('copy', 'dict')))
                mutated = False
                for t in ast.walk(m.tree):
                    if isinstance(t, ast.Call) and isinstance(t.func, ast.Attribute) and t.func.attr in ('update', 'setdefault', 'pop') \
                            and norm(t.func.value) == name:
                        mutated = True
                    if isinstance(t, ast.Subscript) and isinstance(t.ctx, (ast.Store, ast.Del)) and norm(t.value) == name:
                        mutated = True
                n += 1
                ctx.ob('A1.alias', 'codec.%s.%s.%s' % (codec, kind, name), 'table is its own dict', fresh or not mutated,
                       '`%s = %s` binds the parent codec\'s table itself and this module then updates it: the parent codec is changed '
                       'as a side effect of importing this one' % (name, norm(v)) if not (fresh or not mutated) else
                       ('fresh: `%s`' % norm(v)[:40] if fresh else 'alias, never mutated here'), node=s)
    if n < 12:
        raise AnalysisError('expected the codec tables of 8 modules, found %d assignments' % n)


# ------------------------------------------------------------------- A1.enctype

def rule_encoder_by_type(ctx):
    """A1.enctype: every type class is found in the encoder's TYPE_MAP by its typeId.  The by-base-tag fallback works only
    for values that still know their base tag; a value decoded without a schema has the tag set `TagSet((), tag)` (base
    tag not recovered), so a type served by the fallback alone cannot be re-encoded after a schemaless decode."""
    from sa.rules.tables import enc_chain, dec_chain, by_type, type_universe, _site, _cname
    from sa.consteval import VInstance
    for codec in ('ber', 'cer', 'der'):
        n = 0
        # what a schemaless decode can hand back: the prototypes of the by-tag decoder table
        protos = set()
        for k, v in dec_chain(ctx, codec)['TAG_MAP'].d.items():
            pc = ctx.ev.inst_attr(v, 'protoComponent') if isinstance(v, VInstance) else None
            if isinstance(pc, VInstance):
                protos.add(pc.ci.name)
        for c, tid, ts in type_universe(ctx):
            if c.name not in protos:
                continue
            inst, how = by_type(enc_chain(ctx, codec), tid, ts)
            if inst is None:
                continue
            n += 1
            ctx.ob('A1.enctype', 'codec.%s.encoder' % codec, '%s found by typeId' % c.name, how == 'typeMap',
                   '%s is reachable only through %s: encode(decode(octets)) of a schemaless-decoded %s fails (its base tag is not '
                   'recovered)' % (c.name, how, c.name) if how != 'typeMap' else _cname(inst), node=_site(inst))
        if n < 20:
            raise AnalysisError('only %d types resolved for the %s encoder' % (n, codec))


# ------------------------------------------------------------------- A8.eooid

def rule_eoo_identity(ctx):
    """A8.eooid: the end-of-octets sentinel is recognised by identity (`is eoo.endOfOctets`): it is an object with payload 0,
    so `==` also matches INTEGER 0, BOOLEAN FALSE, ENUMERATED 0, REAL 0 decoded as ordinary members."""
    n = 0
    for f in sorted(ctx.prog.all_functions(), key=lambda f: f.qualname):
        if not f.module.name.startswith('pyasn1.codec'):
            continue
        for c in walk_own(f.node):
            if not isinstance(c, ast.Compare):
                continue
            sides = [c.left] + list(c.comparators)
            if not any(norm(s).endswith('endOfOctets') for s in sides):
                continue
            n += 1
            ok = all(isinstance(o, (ast.Is, ast.IsNot)) for o in c.ops)
            ctx.ob('A8.eooid', f, '`%s`' % norm(c), ok,
                   'compares the sentinel by value: a member whose value is 0 (INTEGER 0, FALSE, ...) ends an indefinite-length '
                   'container early' if not ok else 'identity', node=c)
    if n < 8:
        raise AnalysisError('expected the end-of-octets tests of the decoders, found %d' % n)


# ------------------------------------------------------------------- A6.truthy

def rule_opentype_truthy(ctx):
    """A6.truthy: presence of an open type is tested by truthiness (`if namedType.openType`) in the decoders, the encoders
    and NamedTypes; an OpenType object must therefore always be truthy: the class defines neither __len__ nor __bool__
    (an OpenType whose map is still empty is a present open type)."""
    c = ctx.cls('type.opentype.OpenType')
    tests = 0
    for f in ctx.prog.all_functions():
        for t in walk_own(f.node):
            e = None
            if isinstance(t, (ast.If, ast.While, ast.IfExp)):
                e = t.test
            elif isinstance(t, ast.BoolOp):
                e = t
            if e is None:
                continue
            for x in ([e] if not isinstance(e, ast.BoolOp) else e.values):
                y = x.operand if isinstance(x, ast.UnaryOp) and isinstance(x.op, ast.Not) else x
                if isinstance(y, ast.Attribute) and y.attr == 'openType':
                    tests += 1
    if tests < 4:
        raise AnalysisError('expected truthiness tests of .openType, found %d' % tests)
    for nm in ('__len__', '__bool__', '__nonzero__'):
        m = c.method(nm)
        ctx.ob('A6.truthy', c, 'OpenType does not define %s' % nm, m is None,
               '%d places decide "this component is an open type" by the truth value of the OpenType object; with %s an OpenType '
               'whose map is (still) empty counts as absent: hasOpenTypes stays False and the field is never resolved' % (tests, nm)
               if m is not None else '%d truthiness tests rely on it' % tests, node=m.node if m is not None else None)


# ------------------------------------------------------------------- A6.openskip

_OPEN_SKIPS = (frozenset(['not namedType.openType']),
               frozenset(['namedType.isOptional', 'not asn1Object.getComponentByPosition(idx).isValue']))


def rule_open_skips(ctx):
    """A6.openskip: in the open-type pass a component is left unresolved only if it has no open type, if it is an absent
    OPTIONAL, or if the governing value is in neither map (the `except KeyError` arm).  In particular the governing
    component being absent from the encoding is no reason: a DEFAULT governing component still has its value."""
    for q in ('codec.ber.decoder.ConstructedPayloadDecoderBase.valueDecoder',
              'codec.ber.decoder.ConstructedPayloadDecoderBase.indefLenValueDecoder'):
        f = ctx.func(q)
        gates = [n for n in walk_own(f.node) if isinstance(n, ast.If) and norm(n.test) == "openTypes or options.get('decodeOpenTypes', False)"]
        if len(gates) != 1:
            raise AnalysisError('open-type pass not found in %s' % f.short)
        loops = [s for s in gates[0].body if isinstance(s, ast.For)]
        if len(loops) != 1:
            raise AnalysisError('open-type loop not found in %s' % f.short)
        lp = loops[0]
        n = 0
        for c in ast.walk(lp):
            if not isinstance(c, ast.Continue):
                continue
            inner = [a for a in ancestors(c) if isinstance(a, (ast.For, ast.While))]
            if inner and inner[0] is not lp:
                continue
            # a `continue` that ends an arm in which the component HAS been resolved (its block stores the decoded
            # component before it) is not a skip
            blk = getattr(c, 'parent', None)
            sibs = []
            for fld in ('body', 'orelse'):
                b_ = getattr(blk, fld, None)
                if isinstance(b_, list) and any(x is c for x in b_):
                    sibs = b_[:[i for i, x in enumerate(b_) if x is c][0]]
            if any(isinstance(x, ast.Call) and call_name(x) == 'setComponentByPosition' for st_ in sibs for x in ast.walk(st_)) or \
                    any(isinstance(x, ast.For) and isinstance(x.iter, ast.Call) and call_name(x.iter) == 'decodeFun' for st_ in sibs for x in ast.walk(st_)):
                continue
            n += 1
            in_handler = any(isinstance(a, ast.ExceptHandler) and norm(a.type) == 'KeyError' for a in ancestors(c))
            from sa.util import is_log_test
            tests = [a for a in ancestors(c) if isinstance(a, ast.If) and not is_log_test(a.test) and any(a is x for x in ast.walk(lp))]
            ok = in_handler and not tests or (bool(tests) and frozenset(norm(x) for x in _conjuncts(tests[0].test)) in _OPEN_SKIPS)
            ctx.ob('A6.openskip', f, 'component left unresolved under `%s`' % (norm(tests[0].test)[:60] if tests else 'except KeyError'), ok,
                   'this condition leaves an open-type field as raw octets although its governing value may be in the map (a governing '
                   'component that is absent from the encoding but has a DEFAULT still governs)' if not ok else 'allowed reason',
                   node=tests[0] if tests else c)
        if n < 3:
            raise AnalysisError('expected three skip sites in the open-type pass of %s, found %d' % (f.short, n))


# ------------------------------------------------------------------- A11.len

def rule_time_length_last(ctx):
    """A11.len: the CER/DER time encoder applies its length limits to the string it emits: on every path from a deletion
    of characters (`del numbers[...]`) to the return the length test is passed."""
    f = ctx.func('codec.cer.encoder.TimeEncoderMixIn.encodeValue')
    cfg = ctx.cfg(f)
    dels = [n for n in cfg.stmt_nodes() if n.kind == 'stmt' and isinstance(n.ast, ast.Delete)]
    tests = [n for n in cfg.stmt_nodes() if n.kind == 'test' and 'MIN_LENGTH' in norm(n.ast.test) and 'MAX_LENGTH' in norm(n.ast.test)
             and raises_in(n.ast.body)]
    rets = [n for n in cfg.stmt_nodes() if isinstance(n.ast, ast.Return)]
    if not dels or len(tests) != 1 or not rets:
        raise AnalysisError('trim deletions / length test / return not found in %s' % f.short)
    for d in dels:
        leak = [r for r in rets if r in cfg.reachable(d, avoid=tuple(tests))]
        ctx.ob('A11.len', f, 'length limits are applied after `%s`' % d.text()[:40], not leak,
               'the return is reachable from `%s` without passing the length test: the limits are applied to the untrimmed input, so '
               'an hours-only time with an all-zero fraction (2017080112.00Z) is emitted as 2017080112Z, which the same encoder '
               'refuses' % d.text() if leak else 'test follows the trim', node=d.ast)
    t = tests[0].ast.test
    var = [x for x in ast.walk(t) if isinstance(x, ast.Call) and call_name(x) == 'len']
    ok = len(var) == 1 and any(isinstance(x.ast.targets[0], ast.Subscript) and norm(x.ast.targets[0].value) == norm(var[0].args[0]) for x in dels)
    ctx.ob('A11.len', f, 'the measured object is the one the trim edits', ok, norm(t), nontrivial=False)


# ------------------------------------------------------------------- A13.clear

def rule_container_cleared(ctx):
    """A13.clear: a container built by cloning the guiding type / the prototype is a *schema* object until something is
    stored in it or `clear()` is called; the constructed decoders hand it out as the result, so on every path from the
    clone to the result yield `clear()` must have been called - otherwise an empty SEQUENCE / SET / SEQUENCE OF comes back
    as a valueless placeholder (`30 80 00 00` with a guiding SEQUENCE OF: isValue False, the enclosing value unusable)."""
    from sa.cfg import reaching_defs
    n = 0
    for q in ('codec.ber.decoder.ConstructedPayloadDecoderBase.valueDecoder',
              'codec.ber.decoder.ConstructedPayloadDecoderBase.indefLenValueDecoder',
              'codec.ber.decoder.ConstructedPayloadDecoderBase._decodeComponentsSchemaless'):
        f = ctx.func(q)
        cfg = ctx.cfg(f)
        rd = reaching_defs(cfg, f.params())
        results = [y for y in cfg.stmt_nodes() if y.kind == 'stmt' and isinstance(y.ast, ast.Expr) and isinstance(y.ast.value, ast.Yield)
                   and isinstance(y.ast.value.value, ast.Name)]
        for y in results:
            var = y.ast.value.value.id
            clones = [d for d in rd[y].get(var, set()) if getattr(d, 'kind', '') == 'stmt' and isinstance(d.ast, ast.Assign) and
                      isinstance(d.ast.value, ast.Call) and call_name(d.ast.value) == 'clone']
            for c in clones:
                def is_clear(node, var=var):
                    return node.kind == 'stmt' and isinstance(node.ast, ast.Expr) and isinstance(node.ast.value, ast.Call) and \
                        norm(node.ast.value.func) == '%s.clear' % var
                ok = cfg.must_pass(c, y, is_clear)
                n += 1
                ctx.ob('A13.clear', f, 'container `%s = %s` is cleared before it is handed out' % (var, norm(c.ast.value)[:50]), ok,
                       'some path from the clone to `yield %s` never calls %s.clear(): an empty container is returned as a schema '
                       'object (isValue False) instead of an empty value' % (var, var) if not ok else 'clear() on every path', node=c.ast)
    if n < 3:
        raise AnalysisError('A13.clear found only %d cloned result containers' % n)


# ------------------------------------------------------------------- C16.tags (scalar results)

def rule_scalar_result_tags(ctx):
    """C16.tags: a schemaless scalar result is the prototype re-tagged with the tag set recovered from the wire: every
    `protoComponent.clone(...)` in a `_createComponent` of the BER decoder passes `tagSet=<the tagSet parameter>`
    (the prototype of a codec that serves several universal types - INTEGER / ENUMERATED - carries only one of their tags)."""
    n = 0
    for f in sorted(ctx.prog.all_functions(), key=lambda f: f.qualname):
        if f.module.name != 'pyasn1.codec.ber.decoder' or f.name != '_createComponent':
            continue
        params = f.params()
        if 'tagSet' not in params:
            continue
        for c in walk_own(f.node):
            if isinstance(c, ast.Call) and call_name(c) == 'clone' and norm(c.func).endswith('protoComponent.clone'):
                n += 1
                kw = [k for k in c.keywords if k.arg == 'tagSet']
                ok = len(kw) == 1 and norm(kw[0].value) == 'tagSet'
                ctx.ob('C16.tags', f, 'prototype clone `%s` carries the recovered tag set' % norm(c)[:60], ok,
                       'the result is built from the prototype without `tagSet=tagSet`: a value whose codec serves several '
                       'types (ENUMERATED is decoded by the INTEGER codec) comes back with the prototype\'s tag - '
                       '`0a 01 03` decodes as INTEGER and re-encodes as `02 01 03`' if not ok else 'tagSet=tagSet', node=c)
    if n < 1:
        raise AnalysisError('no prototype clone found in the _createComponent methods')


# ------------------------------------------------------------------- C17.native (scalar decoders)

def rule_native_scalar_value(ctx):
    """C17.native: the native scalar decoders build the result by passing a value derived from the Python object as the
    *positional* value of `asn1Spec.clone(...)`; with keyword initialisers only, clone() keeps the value the spec object
    already holds (a DEFAULT member's default, a typed SEQUENCE OF's prototype value) and the input is ignored."""
    m = ctx.mod('codec.native.decoder')
    n = 0
    for f in sorted(ctx.prog.all_functions(), key=lambda f: f.qualname):
        if f.module is not m or f.name != '__call__' or f.cls is None:
            continue
        params = f.params()
        if len(params) < 3:
            continue
        py, spec = params[1], params[2]
        body = [s_ for s_ in f.node.body if not (isinstance(s_, ast.Expr) and isinstance(s_.value, ast.Constant))]
        if not (len(body) == 1 and isinstance(body[0], ast.Return)):
            continue        # the container decoders fill a clone component by component
        for c in walk_own(f.node):
            if isinstance(c, ast.Call) and norm(c.func) == '%s.clone' % spec:
                n += 1
                ok = bool(c.args) and py in names_used(c.args[0])
                ctx.ob('C17.native', f, 'result `%s` takes its value from the Python object' % norm(c)[:60], ok,
                       'no positional value derived from `%s`: clone() with keyword initialisers only re-uses the value the '
                       'guiding object holds, so the decoded value is the spec\'s, not the input\'s' % py if not ok else 'positional value', node=c)
    if n < 2:
        raise AnalysisError('native scalar decoders not found (%d)' % n)


# ------------------------------------------------------------------- A6.openflag

def rule_open_types_flag(ctx):
    """A6.openflag: `NamedTypes.hasOpenTypes` is true as soon as some member has an open type - whether that member is
    OPTIONAL / DEFAULT or not: the flag gates the whole open-type pass of both record decoders."""
    f = ctx.func('type.namedtype.NamedTypes.__init__')
    cfg = ctx.cfg(f)
    sets = [n for n in cfg.stmt_nodes() if n.kind == 'stmt' and isinstance(n.ast, ast.Assign) and
            any(isinstance(t, ast.Attribute) and t.attr.endswith('hasOpenTypes') for t in n.ast.targets)]
    if not sets:
        raise AnalysisError('hasOpenTypes is not set in %s' % f.short)
    saw = False
    for s_ in sets:
        v = s_.ast.value
        txt = norm(v)
        if isinstance(v, ast.Constant) and v.value is False:
            continue
        saw = True
        deps = []       # every enclosing test with the arm the statement sits in (transitively)
        cur = s_.ast
        for a in ancestors(s_.ast, f.node):
            if isinstance(a, ast.If):
                deps.append((norm(a.test), 'true' if any(cur is x for x in a.body) else 'false'))
            cur = a
        other = [t for t, lab in deps if 'isOptional' in t or 'isDefaulted' in t]
        inside = ('isOptional' in txt or 'isDefaulted' in txt)
        ok = 'openType' in txt + ' '.join(t for t, lab in deps) and not other and not inside
        ctx.ob('A6.openflag', f, 'hasOpenTypes depends on the members\' open types only', ok,
               'the flag is set under a condition on isOptional / isDefaulted (%s): an OPTIONAL or DEFAULT open-type field '
               '(AlgorithmIdentifier.parameters) never switches the open-type pass on and stays raw' % (other or txt[:60]) if not ok else txt[:60],
               node=s_.ast)
    if not saw:
        raise AnalysisError('no truthy definition of hasOpenTypes in %s' % f.short)
