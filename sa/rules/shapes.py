"""A10 `shapes`: container state machines (C19)."""
import ast

from sa.model import AnalysisError, ClassInfo, FuncInfo, norm, walk_own, ancestors
from sa.cfg import reaching_defs, node_exprs, names_used
from sa.util import call_name, const_int, stmts_of

FIELD = '_componentValues'


def _shape_of(expr):
    """Abstract shape of an expression stored into a container field."""
    if isinstance(expr, ast.Dict):
        return 'dict'
    if isinstance(expr, ast.List):
        return 'list'
    if isinstance(expr, ast.Name) and expr.id == 'noValue':
        return 'noValue'
    if isinstance(expr, ast.Call) and isinstance(expr.func, ast.Name) and expr.func.id in ('dict', 'list'):
        return expr.func.id
    if isinstance(expr, ast.BinOp) and isinstance(expr.op, ast.Mult) and isinstance(expr.left, ast.List):
        return 'list'
    if isinstance(expr, ast.ListComp):
        return 'list'
    if isinstance(expr, ast.DictComp):
        return 'dict'
    return None


def _shapes_of(expr):
    """Set of shapes an expression can have; 'field' = the store's current value; None = not understood."""
    if isinstance(expr, ast.IfExp):
        a, b = _shapes_of(expr.body), _shapes_of(expr.orelse)
        return None if a is None or b is None else a | b
    if isinstance(expr, ast.BoolOp) and isinstance(expr.op, ast.Or):
        out = set()
        for v in expr.values:
            x = _shapes_of(v)
            if x is None:
                return None
            out |= x
        return out
    if norm(expr) == 'self.' + FIELD:
        return {'field'}
    sh = _shape_of(expr)
    return {sh} if sh else None


def _field_shapes(ctx, cls):
    """Shapes stored into self._componentValues by the methods defined in `cls` (own body)."""
    shapes = {}
    for name, defs in cls.attrs.items():
        for d in defs:
            if d[0] != 'func':
                continue
            f = d[1]
            local = {}
            for n in walk_own(f.node):
                if isinstance(n, ast.Assign) and len(n.targets) == 1 and isinstance(n.targets[0], ast.Name):
                    shs = _shapes_of(n.value)
                    if shs:
                        local.setdefault(n.targets[0].id, set()).update(shs)
            for n in walk_own(f.node):
                if isinstance(n, ast.Assign) and any(norm(t) == 'self.' + FIELD for t in n.targets):
                    shs = _shapes_of(n.value)
                    if shs:
                        for sh in shs:
                            if sh != 'field':
                                shapes.setdefault(sh, []).append((f, n))
                    elif isinstance(n.value, ast.Name) and n.value.id in local:
                        for s in local[n.value.id]:
                            if s != 'field':
                                shapes.setdefault(s, []).append((f, n))
                    else:
                        shapes.setdefault('?', []).append((f, n))
    return shapes


def rule_field(ctx):
    """A10.field: every method invoked on the component store exists on every non-sentinel shape it can have."""
    for q, want in (('type.univ.SequenceOfAndSetOfBase', 'dict'), ('type.univ.SequenceAndSetBase', 'list')):
        c = ctx.cls(q)
        shapes = _field_shapes(ctx, c)
        real = set(shapes) - {'noValue'}
        ok = real == {want}
        ctx.ob('A10.field', c, 'component store holds a %s (or the noValue sentinel)' % want, ok,
               'shapes stored: %s' % dict((k, len(v)) for k, v in shapes.items()),
               node=(c.module.relpath, c.node.lineno))
        pytype = dict if want == 'dict' else list
        n = 0
        for sub in ctx.prog.subclasses(c):
            for name, defs in sub.attrs.items():
                for d in defs:
                    if d[0] != 'func':
                        continue
                    f = d[1]
                    for x in walk_own(f.node):
                        if isinstance(x, ast.Call) and isinstance(x.func, ast.Attribute) and norm(x.func.value) == 'self.' + FIELD:
                            n += 1
                            m = x.func.attr
                            ctx.ob('A10.field', f, 'self.%s.%s()' % (FIELD, m), hasattr(pytype, m),
                                   '`%s` is called on the component store, which is a %s: %s has no such method' % (m, want, want)
                                   if not hasattr(pytype, m) else '%s.%s exists' % (want, m), node=x)
        if n < (3 if want == 'dict' else 0):
            raise AnalysisError('too few method calls on the component store of %s' % c.short)


def rule_pep479(ctx):
    """A10.pep479: no `raise StopIteration` inside a generator function."""
    gens = 0
    for f in ctx.prog.all_functions():
        if not f.module.name.startswith('pyasn1.type'):
            continue
        if not f.is_generator:
            continue
        gens += 1
        bad = [r for r in walk_own(f.node) if isinstance(r, ast.Raise) and r.exc is not None and
               norm(r.exc.func if isinstance(r.exc, ast.Call) else r.exc) == 'StopIteration']
        ctx.ob('A10.pep479', f, 'generator ends by return, not by raising StopIteration', not bad,
               'PEP 479 turns `raise StopIteration` inside a generator into RuntimeError' if bad else 'ok',
               node=bad[0] if bad else None)
    if gens < 8:
        raise AnalysisError('only %d generator functions found in the type modules' % gens)


def rule_companion(ctx):
    """A10.companion / A10.single: CHOICE keeps _currentIdx in step with the component store."""
    ch = ctx.cls('type.univ.Choice')
    # methods along the MRO (excluding Choice) that reset the store to an empty/sentinel value
    resetters = {}
    for c in ch.mro[1:]:
        if not isinstance(c, ClassInfo):
            continue
        for name, defs in c.attrs.items():
            for d in defs:
                if d[0] != 'func' or name == '__init__':
                    continue
                f = d[1]
                for n in walk_own(f.node):
                    if isinstance(n, ast.Assign) and any(norm(t) == 'self.' + FIELD for t in n.targets) and \
                            _shape_of(n.value) in ('noValue', 'list', 'dict') and not isinstance(n.value, ast.Name) or \
                            isinstance(n, ast.Assign) and any(norm(t) == 'self.' + FIELD for t in n.targets) and norm(n.value) == 'noValue':
                        resetters.setdefault(name, f)
    if not resetters:
        raise AnalysisError('no store-resetting method found along the MRO of Choice')
    for name, basef in sorted(resetters.items()):
        own = ch.own(name)
        ok = own is not None and own[0] == 'func' and any(
            isinstance(n, ast.Assign) and any(norm(t) == 'self._currentIdx' for t in n.targets) for n in walk_own(own[1].node))
        ctx.ob('A10.companion', ch, '%s() also resets _currentIdx' % name, ok,
               'inherited %s empties the component store; Choice %s' % (basef.short, 'overrides it and resets the chosen index'
                                                                           if ok else 'does not reset the chosen index'),
               node=(ch.module.relpath, (own[1].node.lineno if own and own[0] == 'func' else ch.node.lineno)))
    # who may write _currentIdx
    allowed = {'type.univ.Choice.setComponentByPosition', 'type.univ.Choice.clear', 'type.univ.Choice.reset'}
    nw = 0
    for f in ctx.prog.all_functions():
        for n in walk_own(f.node):
            tg = n.targets if isinstance(n, ast.Assign) else ([n.target] if isinstance(n, (ast.AugAssign, ast.AnnAssign)) else [])
            for t in tg:
                if isinstance(t, ast.Attribute) and t.attr == '_currentIdx':
                    nw += 1
                    ctx.ob('A10.single', f, 'store to _currentIdx', f.short in allowed,
                           'the chosen index may only be written by %s' % sorted(allowed), node=n)
    if nw < 2:
        raise AnalysisError('writers of _currentIdx not found')
    f = ctx.func('type.univ.Choice.setComponentByPosition')
    # outcome table over (previously chosen index, new index): the previous alternative is dropped iff there was one and
    # it is another one
    from sa import region, intexpr
    idxp = f.params()[1]
    state = {}

    def mark(st_, env):
        if isinstance(st_, ast.Assign) and len(st_.targets) == 1 and isinstance(st_.targets[0], ast.Name) and norm(st_.value) == 'self._currentIdx':
            env[st_.targets[0].id] = state['old']
            return region.SKIP
        if isinstance(st_, ast.Assign) and len(st_.targets) == 1 and isinstance(st_.targets[0], ast.Subscript) and \
                norm(st_.targets[0].value) == 'self.' + FIELD and norm(st_.value) == 'noValue':
            try:
                return 'drop:%r' % (intexpr.ev(st_.targets[0].slice, env),)
            except intexpr.NotPure:
                return 'drop:?'
        return None
    def leaf(e):
        # the chosen index read directly (before this call re-assigns it)
        if norm(e) == 'self._currentIdx':
            return state['old']
        return None
    ok = True
    bad = ''
    try:
        for old in (None, 0, 1, 2):
            for new_ in (0, 1, 2):
                state['old'] = old
                lab, env = region.walk(f.node.body, {idxp: new_}, mark, leaf)
                want = 'drop:%r' % (old,) if old is not None and old != new_ else None
                got = lab if lab and lab.startswith('drop') else None
                if got != want:
                    ok = False
                    bad = 'previous alternative %r, new alternative %r: %s' % (old, new_, got or 'nothing dropped')
    except region.Undecided as x:
        # not a table over the two indexes in this form: the ordering conditions below still decide
        ctx.ob('A10.single', f, 'drop of the previous alternative as a table over (previous, new) index', True,
               'not tabulated: %s' % x, note=True)
    # order: base setter first (may raise), then the index
    cfg = ctx.cfg(f)
    setter = [n for n in cfg.stmt_nodes() if n.kind == 'stmt' and 'Set.setComponentByPosition(self' in n.text()]
    idxw = [n for n in cfg.stmt_nodes() if n.kind == 'stmt' and norm(n.ast) == 'self._currentIdx = idx']
    ok = ok and bool(setter) and bool(idxw) and cfg.dominates(setter[0], idxw[0])
    # the previous alternative is dropped only after the new one was accepted (the base setter may refuse it)
    drops = [n for n in cfg.stmt_nodes() if n.kind == 'stmt' and isinstance(n.ast, ast.Assign) and len(n.ast.targets) == 1 and
             isinstance(n.ast.targets[0], ast.Subscript) and norm(n.ast.targets[0].value) == 'self.' + FIELD and norm(n.ast.value) == 'noValue']
    if setter and any(not cfg.dominates(setter[0], d) for d in drops):
        ok = False
        bad = bad or 'the previous alternative is dropped before the new one has been accepted by the base setter'
    if not idxw and setter:
        # the index is written in a form other than `self._currentIdx = idx`: it must still follow the base setter
        writes = [n for n in cfg.stmt_nodes() if n.kind == 'stmt' and isinstance(n.ast, ast.Assign) and
                  any('_currentIdx' in norm(t) for t in n.ast.targets)]
        ok = bool(writes) and all(cfg.dominates(setter[0], w) for w in writes)
        bad = bad or 'the chosen index is written before the base setter has accepted the new alternative'
    ctx.ob('A10.single', f, 'selecting an alternative drops the previous one (after the new one was accepted)', ok, bad)
    # __len__/__contains__/__iter__/isValue derive from _currentIdx
    for nm in ('__len__', '__contains__', '__iter__', 'values', 'keys', 'items'):
        m = ch.own(nm)
        ok = m is not None and m[0] == 'func' and '_currentIdx' in norm(m[1].node)
        ctx.ob('A10.single', ch, '%s derives from the chosen index' % nm, ok, '', nontrivial=False)


def rule_commit(ctx):
    """A10.commit: in the positional setters no raise is reachable after the first write to the container."""
    for q in ('type.univ.SequenceOfAndSetOfBase.setComponentByPosition', 'type.univ.SequenceAndSetBase.setComponentByPosition'):
        f = ctx.func(q)
        cfg = ctx.cfg(f)
        writes = []
        for n in cfg.stmt_nodes():
            if n.kind != 'stmt':
                continue
            a = n.ast
            if isinstance(a, ast.Assign) and any(isinstance(t, ast.Subscript) and norm(t.value) == 'componentValues' for t in a.targets):
                # a store into the live list/dict only if componentValues aliases the field
                writes.append(n)
            elif isinstance(a, ast.Assign) and any(norm(t).startswith('self._') for t in a.targets):
                writes.append(n)
            elif isinstance(a, ast.Expr) and isinstance(a.value, ast.Call) and isinstance(a.value.func, ast.Attribute) and \
                    a.value.func.attr in ('append', 'addField', 'pop', 'clear', 'update', 'insert') and \
                    norm(a.value.func.value) in ('componentValues', 'self._dynamicNames', 'self._componentValues'):
                writes.append(n)
        if not writes:
            raise AnalysisError('no container write found in %s' % f.short)
        bad = []
        for w in writes:
            for r in cfg.reachable(w):
                if r.kind == 'raisestmt':
                    bad.append((w, r))
        ctx.ob('A10.commit', f, 'no raise after the first container write', not bad,
               'after `%s` the method can still raise `%s`: a refused operation leaves a partial update' % (
                   bad[0][0].text()[:50], bad[0][1].text()[:50]) if bad else '%d write(s), none followed by a raise' % len(writes))


def rule_bounds(ctx):
    """A10.bounds: a read accessor that instantiates missing members bounds the position on both sides."""
    f = ctx.func('type.univ.SequenceOfAndSetOfBase.getComponentByPosition')
    cfg = ctx.cfg(f)
    inst = [n for n in cfg.stmt_nodes() if n.kind == 'stmt' and norm(n.ast) == 'self.setComponentByPosition(idx)']
    if not inst:
        raise AnalysisError('instantiation call not found in %s' % f.short)
    lower = [n for n in cfg.stmt_nodes() if n.kind == 'test' and norm(n.ast.test) == 'idx < 0']
    upper = [n for n in cfg.stmt_nodes() if n.kind == 'test' and isinstance(n.ast.test, ast.Compare) and 'idx' in names_used(n.ast.test)
             and 'len(self)' in norm(n.ast.test) and isinstance(n.ast.test.ops[0], (ast.Gt, ast.GtE, ast.Lt, ast.LtE))]
    ctx.ob('A10.bounds', f, 'position checked against the lower bound before instantiating', bool(lower), '', nontrivial=False)
    ctx.ob('A10.bounds', f, 'position checked against the upper bound before instantiating', bool(upper),
           'a read at a position beyond the end (`seq[10]` on a shorter value) instantiates a placeholder there: '
           'the read changes len() and isValue' if not upper else 'ok', node=inst[0].ast)


def rule_schema_ops(ctx):
    """A10.schema: operators of scalar types reach the payload only through operations the noValue sentinel plugs."""
    nv = ctx.cls('type.base.NoValue')
    # the sentinel plugs every dunder of str/int/list/dict except skipMethods
    new = nv.method('__new__')
    src = norm(new.node)
    ok = 'for typ in (str, int, list, dict)' in src and 'name not in cls.skipMethods' in src and 'setattr(cls, name, getPlug(name))' in src
    ctx.ob('A10.schema', new, 'plugs every special method of str/int/list/dict outside skipMethods', ok, '')
    plug_raises = any(isinstance(n, ast.Raise) and 'PyAsn1Error' in norm(n) for n in ast.walk(new.node))
    ctx.ob('A10.schema', new, 'plugs raise the library error', plug_raises, '')
    ga = nv.method('__getattr__')
    rs = [r for r in walk_own(ga.node) if isinstance(r, ast.Raise)]
    ok = len(rs) == 2 and any('PyAsn1Error' in norm(r) for r in rs)
    ctx.ob('A10.schema', ga, 'any other attribute access raises the library error', ok, '')
    _, skip = ctx.ev.class_attr(nv, 'skipMethods')
    # comparisons / arithmetic of scalar bases dereference self._value through an operator
    base = ctx.cls('type.base.SimpleAsn1Type')
    n = 0
    plugged = set(nm for t in (str, int, list, dict) for nm in dir(t) if nm.startswith('__') and nm.endswith('__') and callable(getattr(t, nm)))
    for c in ctx.prog.subclasses(base):
        for name, defs in c.attrs.items():
            if not (name.startswith('__') and name.endswith('__')) or name in ('__init__', '__repr__', '__str__', '__hash__', '__bytes__',
                                                                              '__unicode__', '__new__', '__bool__', '__nonzero__'):
                continue
            for d in defs:
                if d[0] != 'func':
                    continue
                f = d[1]
                uses = [x for x in walk_own(f.node) if isinstance(x, ast.Attribute) and x.attr == '_value' and norm(x.value) == 'self']
                if not uses:
                    continue
                n += 1
                # every use must be an operand of an operator/call that dispatches to a special method of the payload
                bad = []
                for u in uses:
                    p = u.parent
                    if isinstance(p, (ast.BinOp, ast.UnaryOp, ast.Compare, ast.Subscript)):
                        continue
                    if isinstance(p, ast.Call) and u in p.args and isinstance(p.func, ast.Name) and \
                            p.func.id in ('len', 'int', 'float', 'abs', 'pow', 'divmod', 'round', 'iter', 'reversed', 'bytes', 'str', 'hash',
                                          'bin', 'tuple', 'SizedInteger', 'hex', 'oct', 'long'):
                        continue
                    if isinstance(p, ast.Call) and u in p.args and isinstance(p.func, ast.Attribute) and \
                            norm(p.func.value) == 'math':
                        continue
                    if isinstance(p, ast.Attribute) and p.value is u:
                        continue   # attribute access on the sentinel raises via __getattr__
                    if isinstance(p, ast.Return) or isinstance(p, ast.Call) and u in p.args:
                        # fine when an enclosing `if` already put the payload through a plugged operation
                        guarded = False
                        for a in ancestors(u, f.node):
                            if isinstance(a, ast.If) and any(isinstance(x, ast.Attribute) and x.attr == '_value' and
                                                             isinstance(x.parent, (ast.Compare, ast.BinOp)) for x in ast.walk(a.test)):
                                guarded = True
                        if not guarded:
                            bad.append(u)
                ctx.ob('A10.schema', f, 'payload reached only through plugged operations', not bad,
                       'returns or passes on `self._value` itself: a schema object would hand out the sentinel instead of failing'
                       if bad else 'ok', node=bad[0] if bad else None)
    if n < 60:
        raise AnalysisError('only %d scalar special methods using the payload found' % n)
