"""A1 `tables`: type registry and codec tables by constant evaluation; A7.tag; A9 coverage."""
import ast

from sa import x690, intexpr
from sa.consteval import (VClass, VDict, VFunc, VInstance, VTag, VTagSet, VTypeId,
                          Unknown, is_unknown)
from sa.model import ancestors, AnalysisError, ClassInfo, norm, walk_own
from sa.util import chain_partition, if_chain, raises_in

CODECS = ('ber', 'cer', 'der')
TYPE_MODULES = ('pyasn1.type.univ', 'pyasn1.type.char', 'pyasn1.type.useful')


# ----------------------------------------------------------------- helpers

def type_universe(ctx):
    """[(ClassInfo, typeId value, tagSet value)] for every concrete ASN.1 type class."""
    if 'universe' in ctx.cache:
        return ctx.cache['universe']
    root = ctx.cls('type.base.Asn1Type')
    out = []
    for c in sorted(ctx.prog.classes.values(), key=lambda c: c.qualname):
        if c.module.name not in TYPE_MODULES or root not in c.mro or c.outer is not None:
            continue
        if c.own('typeId') is None:
            continue
        _, tid = ctx.ev.class_attr(c, 'typeId')
        if tid is None:
            continue
        if not isinstance(tid, VTypeId):
            raise AnalysisError('typeId of %s does not evaluate to a type id: %r' % (c.short, tid))
        _, ts = ctx.ev.class_attr(c, 'tagSet')
        if not isinstance(ts, VTagSet):
            raise AnalysisError('tagSet of %s does not evaluate: %r' % (c.short, ts))
        out.append((c, tid, ts))
    if len(out) < 25:
        raise AnalysisError('type universe has only %d classes' % len(out))
    ctx.cache['universe'] = out
    return out


def _table(ctx, modname, name):
    env = ctx.ev.module_env(ctx.mod(modname))
    t = env.get(name)
    if not isinstance(t, VDict):
        raise AnalysisError('%s.%s does not evaluate to a table' % (modname, name))
    if '<poisoned>' in t.d:
        raise AnalysisError('%s.%s has an entry the evaluator cannot resolve: %r' % (modname, name, t.d['<poisoned>']))
    return t


def enc_chain(ctx, codec):
    """Follow <codec>.encoder.encode -> Encoder.SINGLE_ITEM_ENCODER -> tables/modes."""
    k = ('enc_chain', codec)
    if k in ctx.cache:
        return ctx.cache[k]
    modname = 'codec.%s.encoder' % codec
    env = ctx.ev.module_env(ctx.mod(modname))
    enc = env.get('encode')
    if not isinstance(enc, VInstance):
        raise AnalysisError('%s.encode is not an instance: %r' % (modname, enc))
    if codec == 'native':
        item = VClass(enc.ci)
    else:
        _, item = ctx.ev.class_attr(enc.ci, 'SINGLE_ITEM_ENCODER')
    if not isinstance(item, VClass):
        raise AnalysisError('%s: SINGLE_ITEM_ENCODER does not resolve' % modname)
    res = {'entry': enc.ci, 'item': item.ci}
    for a in ('TAG_MAP', 'TYPE_MAP', 'fixedDefLengthMode', 'fixedChunkSize'):
        if codec == 'native' and a.startswith('fixed'):
            continue
        res[a] = ctx.ev.class_attr(item.ci, a)[1]
    for a in ('TAG_MAP', 'TYPE_MAP'):
        if not isinstance(res[a], VDict) or '<poisoned>' in res[a].d:
            raise AnalysisError('%s item encoder %s does not evaluate' % (modname, a))
    ctx.cache[k] = res
    return res


def dec_chain(ctx, codec):
    """Follow <codec>.decoder.decode -> STREAMING_DECODER -> SINGLE_ITEM_DECODER -> tables/switch."""
    k = ('dec_chain', codec)
    if k in ctx.cache:
        return ctx.cache[k]
    modname = 'codec.%s.decoder' % codec
    env = ctx.ev.module_env(ctx.mod(modname))
    dec = env.get('decode')
    if not isinstance(dec, VInstance):
        raise AnalysisError('%s.decode is not an instance: %r' % (modname, dec))
    res = {'entry': dec.ci}
    if codec == 'native':
        _, item = ctx.ev.class_attr(dec.ci, 'SINGLE_ITEM_DECODER')
    else:
        _, stream = ctx.ev.class_attr(dec.ci, 'STREAMING_DECODER')
        if not isinstance(stream, VClass):
            raise AnalysisError('%s: STREAMING_DECODER does not resolve' % modname)
        res['stream'] = stream.ci
        _, item = ctx.ev.class_attr(stream.ci, 'SINGLE_ITEM_DECODER')
        # the module-level StreamingDecoder must lead to the same item decoder
        sd = env.get('StreamingDecoder')
        if isinstance(sd, VClass):
            res['stream_public'] = sd.ci
    if not isinstance(item, VClass):
        raise AnalysisError('%s: SINGLE_ITEM_DECODER does not resolve' % modname)
    res['item'] = item.ci
    for a in ('TAG_MAP', 'TYPE_MAP', 'supportIndefLength'):
        if codec == 'native' and a == 'supportIndefLength':
            continue
        res[a] = ctx.ev.class_attr(item.ci, a)[1]
    for a in ('TAG_MAP', 'TYPE_MAP'):
        if not isinstance(res[a], VDict) or '<poisoned>' in res[a].d:
            raise AnalysisError('%s item decoder %s does not evaluate' % (modname, a))
    ctx.cache[k] = res
    return res


def by_type(chain, tid, ts):
    """Mirror of the run-time lookup: type map first, then tag map by base tag."""
    if tid in chain['TYPE_MAP'].d:
        return chain['TYPE_MAP'].d[tid], 'typeMap'
    base = ts.baseTag
    if isinstance(base, VTag):
        k = VTagSet(base, (base,))
        if k in chain['TAG_MAP'].d:
            return chain['TAG_MAP'].d[k], 'tagMap[baseTag]'
    return None, None


def by_tag(chain, ts):
    """Mirror of stGetValueDecoderByTag: full tag set, then its first tag."""
    if ts in chain['TAG_MAP'].d:
        return chain['TAG_MAP'].d[ts], 'tagMap[tagSet]'
    k = VTagSet(ts.baseTag, ts.superTags[:1])
    if k in chain['TAG_MAP'].d:
        return chain['TAG_MAP'].d[k], 'tagMap[tagSet[:1]]'
    return None, None


def _cname(v):
    return v.ci.short if isinstance(v, VInstance) else repr(v)


def _site(v):
    if isinstance(v, VInstance):
        return (v.ci.module.relpath, getattr(v.site, 'lineno', 0))
    return None


# ------------------------------------------------------- model shape checks

def rule_lookup_shape(ctx):
    """A1.lookup: the run-time codec lookups have the shape the helpers above mirror."""
    # encoders: typeMap[typeId] then tagMap[TagSet(baseTag, baseTag)]
    for q in ('codec.ber.encoder.SingleItemEncoder.__call__', 'codec.native.encoder.SingleItemEncoder.__call__',
              'codec.native.decoder.SingleItemDecoder.__call__'):
        f = ctx.func(q)
        subs = [norm(n) for n in walk_own(f.node) if isinstance(n, ast.Subscript) and isinstance(n.ctx, ast.Load)]
        has_type = any(s.startswith('self._typeMap[') and 'typeId' in s for s in subs)
        has_tag = any(s.startswith('self._tagMap[') for s in subs)
        base_ok = any(isinstance(n, ast.Call) and norm(n.func) == 'tag.TagSet' and len(n.args) == 2
                      and norm(n.args[0]) == norm(n.args[1]) and norm(n.args[0]).endswith('.baseTag')
                      for n in walk_own(f.node))
        ctx.ob('A1.lookup', f, 'typeMap[typeId] then tagMap[TagSet(baseTag, baseTag)]',
               has_type and has_tag and base_ok,
               'lookup shape changed: typeMap=%s tagMap=%s baseTagSet=%s' % (has_type, has_tag, base_ok))
    f = ctx.func('codec.ber.decoder.SingleItemDecoder.__call__')
    subs = []
    # the two tables, however they are reached: `self._typeMap[...]` or a local bound to it
    tables = {'self._typeMap': 'typeMap', 'self._tagMap': 'tagMap'}
    for a_ in walk_own(f.node):
        if isinstance(a_, ast.Assign) and len(a_.targets) == 1 and isinstance(a_.targets[0], ast.Name) and norm(a_.value) in ('self._typeMap', 'self._tagMap'):
            tables[a_.targets[0].id] = tables[norm(a_.value)]
    for n in walk_own(f.node):
        if isinstance(n, ast.Subscript) and isinstance(n.ctx, ast.Load):
            base = tables.get(norm(n.value), norm(n.value))
            # a key chosen by a conditional expression stands for both keys
            if isinstance(n.slice, ast.IfExp):
                subs.append('%s[%s]' % (base, norm(n.slice.body)))
                subs.append('%s[%s]' % (base, norm(n.slice.orelse)))
            else:
                subs.append('%s[%s]' % (base, norm(n.slice)))
    ok = ('typeMap[chosenSpec.typeId]' in subs and 'tagMap[baseTagSet]' in subs and
          'tagMap[tagSet]' in subs and 'tagMap[tagSet[:1]]' in subs)
    ctx.ob('A1.lookup', f, 'typeMap[chosenSpec.typeId] / tagMap[baseTagSet] / tagMap[tagSet] / tagMap[tagSet[:1]]', ok,
           'decoder lookup sites found: %s' % sorted(s for s in subs if 'Map[' in s))
    # item codecs take the tables from class attributes unless overridden by options
    for q in ('codec.ber.encoder.SingleItemEncoder.__init__', 'codec.ber.decoder.SingleItemDecoder.__init__'):
        f = ctx.func(q)
        txt = [norm(s) for s in f.node.body]
        ok = ("self._tagMap = options.get('tagMap', self.TAG_MAP)" in txt and
              "self._typeMap = options.get('typeMap', self.TYPE_MAP)" in txt)
        ctx.ob('A1.lookup', f, 'tables default to class attributes TAG_MAP/TYPE_MAP', ok, 'init body: %s' % txt)


def rule_chain(ctx):
    """A1.chain: each public entry point leads to its own codec's item codec and tables."""
    for codec in CODECS:
        d = dec_chain(ctx, codec)
        mod = 'pyasn1.codec.%s.decoder' % codec
        menv = ctx.ev.module_env(ctx.mod(mod))
        for nm in ('TAG_MAP', 'TYPE_MAP'):
            ctx.ob('A1.chain', 'codec.%s.decoder.decode' % codec, 'item decoder %s is this module\'s table' % nm,
                   d[nm] is menv.get(nm), 'resolved through %s -> %s -> %s' % (d['entry'].short, d['stream'].short, d['item'].short),
                   node=(d['item'].module.relpath, d['item'].node.lineno))
        ctx.ob('A1.chain', 'codec.%s.decoder.decode' % codec, 'item decoder class defined in this module',
               d['item'].module.name == mod or codec == 'ber', d['item'].short,
               node=(d['item'].module.relpath, d['item'].node.lineno))
        if 'stream_public' in d:
            ctx.ob('A1.chain', 'codec.%s.decoder.StreamingDecoder' % codec, 'public StreamingDecoder is the one decode() uses',
                   d['stream_public'] is d['stream'], '%s vs %s' % (d['stream_public'].short, d['stream'].short))
        e = enc_chain(ctx, codec)
        mod = 'pyasn1.codec.%s.encoder' % codec
        menv = ctx.ev.module_env(ctx.mod(mod))
        for nm in ('TAG_MAP', 'TYPE_MAP'):
            ctx.ob('A1.chain', 'codec.%s.encoder.encode' % codec, 'item encoder %s is this module\'s table' % nm,
                   e[nm] is menv.get(nm), 'resolved through %s -> %s' % (e['entry'].short, e['item'].short),
                   node=(e['item'].module.relpath, e['item'].node.lineno))


# --------------------------------------------------------------- A1.total

def rule_total_ber(ctx):
    _total(ctx, ('ber',), enc=True, dec=True, bytag=False)


def rule_total_canon(ctx):
    _total(ctx, ('cer', 'der'), enc=True, dec=True, bytag=False)


def rule_total_bytag(ctx):
    _total(ctx, CODECS, enc=False, dec=False, bytag=True)


def rule_total_native(ctx):
    for c, tid, ts in type_universe(ctx):
        for kind, chain in (('encoder', enc_chain(ctx, 'native')), ('decoder', dec_chain(ctx, 'native'))):
            inst, how = by_type(chain, tid, ts)
            ctx.ob('A1.total', 'codec.native.%s' % kind, '%s by type' % c.name, inst is not None,
                   'no native %s reachable for %s' % (kind, c.short) if inst is None else '%s via %s' % (_cname(inst), how),
                   node=_site(inst))


def _total(ctx, codecs, enc, dec, bytag):
    for codec in codecs:
        for c, tid, ts in type_universe(ctx):
            if enc:
                inst, how = by_type(enc_chain(ctx, codec), tid, ts)
                ctx.ob('A1.total', 'codec.%s.encoder' % codec, '%s by type' % c.name, inst is not None,
                       'no encoder for %s' % c.short if inst is None else '%s via %s' % (_cname(inst), how), node=_site(inst))
            if dec:
                inst, how = by_type(dec_chain(ctx, codec), tid, ts)
                ctx.ob('A1.total', 'codec.%s.decoder' % codec, '%s by type' % c.name, inst is not None,
                       'no decoder for %s' % c.short if inst is None else '%s via %s' % (_cname(inst), how), node=_site(inst))
            if bytag and c.name not in x690.UNTAGGED:
                inst, how = by_tag(dec_chain(ctx, codec), ts)
                ctx.ob('A1.total', 'codec.%s.decoder' % codec, '%s by tag' % c.name, inst is not None,
                       'no decoder by tag for %s' % c.short if inst is None else '%s via %s' % (_cname(inst), how), node=_site(inst))


# ---------------------------------------------------------------- A1.pair

# type class name -> (acceptable encoder family roots, acceptable decoder family roots); frozen after reading
# the twelve families of ber/encoder.py and ber/decoder.py.  A codec registered for a type must derive from
# one of the listed classes, otherwise writer and reader of that type speak different content formats.
def _family(name):
    E, D = 'codec.ber.encoder.', 'codec.ber.decoder.'
    if name in ('Integer', 'Enumerated'):
        return [E + 'IntegerEncoder'], [D + 'IntegerPayloadDecoder']
    if name == 'Boolean':
        return [E + 'BooleanEncoder', 'codec.cer.encoder.BooleanEncoder'], \
               [D + 'BooleanPayloadDecoder', 'codec.cer.decoder.BooleanPayloadDecoder']
    if name == 'BitString':
        return [E + 'BitStringEncoder'], [D + 'BitStringPayloadDecoder']
    if name == 'Null':
        return [E + 'NullEncoder'], [D + 'NullPayloadDecoder']
    if name == 'ObjectIdentifier':
        return [E + 'ObjectIdentifierEncoder'], [D + 'ObjectIdentifierPayloadDecoder']
    if name == 'Real':
        return [E + 'RealEncoder'], [D + 'RealPayloadDecoder']
    if name in ('Sequence', 'Set'):
        return [E + 'SequenceEncoder'], [D + 'ConstructedPayloadDecoderBase']
    if name in ('SequenceOf', 'SetOf'):
        return [E + 'SequenceOfEncoder'], [D + 'ConstructedPayloadDecoderBase']
    if name == 'Choice':
        return [E + 'ChoiceEncoder'], [D + 'ChoicePayloadDecoder']
    if name == 'Any':
        return [E + 'AnyEncoder'], [D + 'AnyPayloadDecoder']
    if name in x690.OCTET_LIKE:
        return [E + 'OctetStringEncoder'], [D + 'OctetStringPayloadDecoder']
    raise AnalysisError('no codec family recorded for type %s' % name)


def _in_family(ctx, inst, roots, exclude=()):
    if not isinstance(inst, VInstance):
        return False
    for r in roots:
        try:
            rc = ctx.cls(r)
        except AnalysisError:
            continue
        if rc in inst.ci.mro:
            if any(ctx.cls(x) in inst.ci.mro for x in exclude):
                continue
            return True
    return False


def rule_pair(ctx, codecs=CODECS):
    for codec in codecs:
        for c, tid, ts in type_universe(ctx):
            eroots, droots = _family(c.name)
            # AnyEncoder derives from OctetStringEncoder and BooleanPayloadDecoder from IntegerPayloadDecoder:
            # exclude the more specific family when the general one is expected
            eex = ['codec.ber.encoder.AnyEncoder'] if c.name in x690.OCTET_LIKE else []
            dex = ['codec.ber.decoder.BooleanPayloadDecoder'] if c.name in ('Integer', 'Enumerated') else []
            inst, how = by_type(enc_chain(ctx, codec), tid, ts)
            if inst is not None:
                ctx.ob('A1.pair', 'codec.%s.encoder' % codec, '%s by type' % c.name, _in_family(ctx, inst, eroots, eex),
                       '%s registered for %s, expected family %s' % (_cname(inst), c.name, eroots), node=_site(inst))
            inst, how = by_type(dec_chain(ctx, codec), tid, ts)
            if inst is not None:
                ctx.ob('A1.pair', 'codec.%s.decoder' % codec, '%s by type' % c.name, _in_family(ctx, inst, droots, dex),
                       '%s registered for %s, expected family %s' % (_cname(inst), c.name, droots), node=_site(inst))
            if c.name not in x690.UNTAGGED:
                inst, how = by_tag(dec_chain(ctx, codec), ts)
                if inst is not None:
                    ctx.ob('A1.pair', 'codec.%s.decoder' % codec, '%s by tag' % c.name, _in_family(ctx, inst, droots, dex),
                           '%s registered for tag of %s, expected family %s' % (_cname(inst), c.name, droots), node=_site(inst))


def rule_pair_ber(ctx):
    rule_pair(ctx, ('ber',))


def rule_pair_canon(ctx):
    rule_pair(ctx, ('cer', 'der'))


# -------------------------------------------------------------- A1.keykind

def rule_keykind(ctx):
    for codec in CODECS + ('native',):
        for kind in ('encoder', 'decoder'):
            mod = 'codec.%s.%s' % (codec, kind)
            for nm, want in (('TAG_MAP', VTagSet), ('TYPE_MAP', VTypeId)):
                t = _table(ctx, mod, nm)
                for k, v in t.d.items():
                    if not isinstance(k, want):
                        ctx.ob('A1.keykind', '%s.%s' % (mod, nm), repr(k), False,
                               'key %r of %s is not a %s (dead entry: never matched by a lookup)' % (k, nm, want.__name__),
                               node=_site(v), note=True)


# -------------------------------------------------------------- A1.derived

def rule_derived(ctx):
    ber_d, ber_e = dec_chain(ctx, 'ber'), enc_chain(ctx, 'ber')
    for codec in ('cer', 'der'):
        for nm in ('TAG_MAP', 'TYPE_MAP'):
            d = dec_chain(ctx, codec)
            missing = [k for k in ber_d[nm].d if k not in d[nm].d]
            ctx.ob('A1.derived', 'codec.%s.decoder.%s' % (codec, nm), 'superset of BER %s' % nm, not missing,
                   'keys of BER table missing: %r' % missing)
            e = enc_chain(ctx, codec)
            missing = [k for k in ber_e[nm].d if k not in e[nm].d]
            ctx.ob('A1.derived', 'codec.%s.encoder.%s' % (codec, nm), 'superset of BER %s' % nm, not missing,
                   'keys of BER table missing: %r' % missing)


# ---------------------------------------------------------------- A1.x680

def rule_x680(ctx):
    env = ctx.ev.module_env(ctx.mod('type.tag'))
    consts = {'tagClassUniversal': 0x00, 'tagClassApplication': 0x40, 'tagClassContext': 0x80,
              'tagClassPrivate': 0xC0, 'tagFormatSimple': 0x00, 'tagFormatConstructed': 0x20}
    for k, want in consts.items():
        ctx.ob('A1.x680', 'type.tag', k, env.get(k) == want, '%s = %r, X.690 8.1.2 says %#x' % (k, env.get(k), want),
               nontrivial=False)
    seen = set()
    for c, tid, ts in type_universe(ctx):
        seen.add(c.name)
        if c.name in x690.UNTAGGED:
            ctx.ob('A1.x680', c, 'untagged', len(ts) == 0, '%s must carry no tag of its own, has %r' % (c.name, ts))
            continue
        if c.name not in x690.UNIVERSAL:
            raise AnalysisError('type class %s has no row in the X.680 table of the analyser' % c.short)
        num, constructed = x690.UNIVERSAL[c.name]
        ok = (len(ts) == 1 and ts.superTags[0].tagClass == 0 and ts.superTags[0].tagId == num and
              ts.superTags[0].tagFormat == (0x20 if constructed else 0))
        ctx.ob('A1.x680', c, 'UNIVERSAL %d %s' % (num, 'constructed' if constructed else 'primitive'), ok,
               'evaluated tagSet %r' % ts)
    # end-of-octets
    eo = ctx.cls('codec.ber.eoo.EndOfOctets')
    _, ts = ctx.ev.class_attr(eo, 'tagSet')
    ctx.ob('A1.x680', eo, 'UNIVERSAL 0 primitive',
           isinstance(ts, VTagSet) and len(ts) == 1 and ts.superTags[0].key() == (0, 0) and ts.superTags[0].tagFormat == 0,
           'evaluated tagSet %r' % ts)
    menv = ctx.ev.module_env(ctx.mod('codec.ber.decoder'))
    ctx.ob('A1.x680', 'codec.ber.decoder', 'EOO_SENTINEL', menv.get('EOO_SENTINEL') == b'\x00\x00',
           'EOO_SENTINEL evaluates to %r' % (menv.get('EOO_SENTINEL'),))
    _, eo_ints = ctx.ev.class_attr(ctx.cls('codec.ber.encoder.AbstractItemEncoder'), 'eooIntegerSubstrate')
    _, eo_octs = ctx.ev.class_attr(ctx.cls('codec.ber.encoder.AbstractItemEncoder'), 'eooOctetsSubstrate')
    ctx.ob('A1.x680', 'codec.ber.encoder.AbstractItemEncoder', 'end-of-octets substrate',
           eo_ints == (0, 0) and eo_octs == b'\x00\x00', 'eooIntegerSubstrate=%r eooOctetsSubstrate=%r' % (eo_ints, eo_octs))
    for need in ('Boolean', 'Integer', 'BitString', 'OctetString', 'Null', 'ObjectIdentifier', 'Real', 'Enumerated',
                 'Sequence', 'SequenceOf', 'Set', 'SetOf', 'Choice', 'Any', 'UTF8String', 'UTCTime', 'GeneralizedTime'):
        if need not in seen:
            raise AnalysisError('type class %s vanished from the type modules' % need)


# ---------------------------------------------------------------- A1.modes

def rule_modes(ctx):
    want = {'ber': (None, None), 'cer': (False, x690.CER_SEGMENT), 'der': (True, 0)}
    for codec, (dm, cs) in want.items():
        e = enc_chain(ctx, codec)
        ctx.ob('A1.modes', 'codec.%s.encoder.SingleItemEncoder' % codec, 'fixedDefLengthMode',
               e['fixedDefLengthMode'] is dm, 'evaluates to %r, X.690 9.1/10.1 requires %r' % (e['fixedDefLengthMode'], dm),
               node=(e['item'].module.relpath, e['item'].node.lineno))
        ctx.ob('A1.modes', 'codec.%s.encoder.SingleItemEncoder' % codec, 'fixedChunkSize',
               e['fixedChunkSize'] == cs and type(e['fixedChunkSize']) is type(cs),
               'evaluates to %r, X.690 9.2/10.2 requires %r' % (e['fixedChunkSize'], cs),
               node=(e['item'].module.relpath, e['item'].node.lineno))
    # the fixed modes override caller options before the concrete encoder runs
    f = ctx.func('codec.ber.encoder.SingleItemEncoder.__call__')
    cfg = ctx.cfg(f)
    enc_calls = [n for n in cfg.stmt_nodes() if n.kind == 'stmt' and 'concreteEncoder.encode(' in n.text()]
    if len(enc_calls) != 1:
        raise AnalysisError('expected one concreteEncoder.encode call in %s' % f.short)
    for attr, opt in (('fixedDefLengthMode', 'defMode'), ('fixedChunkSize', 'maxChunkSize')):
        upd = [n for n in cfg.stmt_nodes() if n.kind == 'stmt' and
               norm(n.ast) == 'options.update(%s=self.%s)' % (opt, attr)]
        ok = False
        detail = 'no `options.update(%s=self.%s)` found' % (opt, attr)
        if upd:
            u = upd[0]
            deps = cfg.control_deps(u)
            guard_ok = any(b.kind == 'test' and norm(b.ast.test) == 'self.%s is not None' % attr and lab == 'true'
                           for b, lab in deps)
            # every path to the encode call on which the attribute is set passes through the update
            test = [b for b, lab in deps if b.kind == 'test'][0] if deps else None
            reach = u in cfg.dominators().get(enc_calls[0], ()) or (
                test is not None and cfg.dominates(test, enc_calls[0]) and
                cfg.must_pass(u, enc_calls[0], lambda n: False) is False)
            ok = guard_ok and test is not None and cfg.dominates(test, enc_calls[0])
            detail = 'update guarded by `self.%s is not None`: %s; guard dominates the encode call: %s' % (
                attr, guard_ok, test is not None and cfg.dominates(test, enc_calls[0]))
        ctx.ob('A1.modes', f, 'fixed %s overrides the caller option before encoding' % opt, ok, detail,
               node=upd[0].ast if upd else None)
    # TRUE is encoded as 0xFF by the Boolean encoder registered in CER and DER
    for codec in ('cer', 'der'):
        boolc = ctx.cls('type.univ.Boolean')
        _, tid = ctx.ev.class_attr(boolc, 'typeId')
        _, ts = ctx.ev.class_attr(boolc, 'tagSet')
        inst, how = by_type(enc_chain(ctx, codec), tid, ts)
        if not isinstance(inst, VInstance):
            raise AnalysisError('no Boolean encoder in %s' % codec)
        m = inst.ci.method('encodeValue')
        consts = _returned_first_tuple_consts(m)
        ctx.ob('A1.modes', 'codec.%s.encoder' % codec, 'BOOLEAN contents octets are {00, FF}',
               consts == {(0,), (255,)}, '%s returns content tuples %s' % (m.short, sorted(consts)), node=_site(inst))


def _returned_first_tuple_consts(f):
    """Constant tuples that can flow into element 0 of the returned (substrate, ...) triple."""
    defs = {}
    for n in walk_own(f.node):
        if isinstance(n, ast.Assign) and len(n.targets) == 1 and isinstance(n.targets[0], ast.Name):
            defs.setdefault(n.targets[0].id, []).append(n.value)
    out = set()

    def consts_of(e, depth=0):
        if isinstance(e, ast.Tuple):
            try:
                out.add(tuple(intexpr.ev(x, {}) for x in e.elts))
            except intexpr.NotPure:
                out.add(('?',))
        elif isinstance(e, ast.BoolOp):
            # `value and (1,) or (0,)`
            for x in e.values[1:]:
                consts_of(x, depth)
        elif isinstance(e, ast.IfExp):
            consts_of(e.body, depth)
            consts_of(e.orelse, depth)
        elif isinstance(e, ast.Name) and depth < 3:
            for d in defs.get(e.id, [('?')]):
                if isinstance(d, ast.AST):
                    consts_of(d, depth + 1)
                else:
                    out.add(('?',))
        else:
            out.add(('?',))
    for n in walk_own(f.node):
        if isinstance(n, ast.Return) and isinstance(n.value, ast.Tuple) and n.value.elts:
            consts_of(n.value.elts[0])
    return out


# --------------------------------------------------------------- A1.strict

def _stmt_blocks(fnode):
    out = []

    def rec(stmts):
        out.append(stmts)
        for s_ in stmts:
            if isinstance(s_, (ast.FunctionDef, ast.ClassDef)):
                continue
            for f_ in ('body', 'orelse', 'finalbody'):
                b_ = getattr(s_, f_, None)
                if isinstance(b_, list) and b_ and isinstance(b_[0], ast.stmt):
                    rec(b_)
            for h_ in getattr(s_, 'handlers', []) or []:
                rec(h_.body)
    rec(fnode.body)
    return out


def bool_strictness(ctx, inst):
    """Decision table of a registered BOOLEAN decoder over the content octet.

    Returns (mapping octet -> 'raise' | ('const', c) | 'data', method).  A decoder without a raising guard
    chain on the octet maps every octet to 'data' (lax)."""
    m = inst.ci.method('valueDecoder')
    if m is None:
        raise AnalysisError('no valueDecoder on %s' % inst.ci.short)
    table = dict((b, 'data') for b in range(256))
    found = False
    # outcome table of the statements that follow the definition of the content octet (however the guard is written)
    try:
        from sa import region
        for blk in _stmt_blocks(m.node):
            idx = [i for i, st in enumerate(blk) if isinstance(st, ast.Assign) and len(st.targets) == 1 and isinstance(st.targets[0], ast.Name)
                   and isinstance(st.value, ast.Call) and isinstance(st.value.func, ast.Name) and st.value.func.id in ('oct2int', 'ord')]
            if not idx:
                continue
            var = blk[idx[0]].targets[0].id

            def stop(st, env):
                if isinstance(st, (ast.For, ast.Return)) or any(isinstance(x, ast.Yield) for x in ast.walk(st)):
                    return 'end'
                return None
            tab = {}
            for b in range(256):
                lab, env = region.walk(blk[idx[0] + 1:], {var: b, 'length': 1}, stop)
                if lab is not None and lab.startswith('raise'):
                    tab[b] = 'raise'
                    continue
                out = 'data'
                if lab == 'end':
                    endst = [st for st in blk[idx[0] + 1:] if stop(st, {})]
                    for c_ in ast.walk(endst[0]) if endst else []:
                        if isinstance(c_, ast.Call) and isinstance(c_.func, ast.Attribute) and c_.func.attr == '_createComponent' and len(c_.args) >= 3:
                            try:
                                out = ('const', intexpr.ev(c_.args[2], env))
                            except intexpr.NotPure:
                                out = 'data'
                tab[b] = out
            if any(v == 'raise' for v in tab.values()):
                return tab, m, True
    except region.Undecided:
        pass
    octet_vars = set(norm(a.targets[0]) for a in walk_own(m.node) if isinstance(a, ast.Assign) and len(a.targets) == 1 and
                     isinstance(a.value, ast.Call) and isinstance(a.value.func, ast.Name) and a.value.func.id in ('oct2int', 'ord'))
    for n in walk_own(m.node):
        if not isinstance(n, ast.If):
            continue
        par = getattr(n, 'parent', None)
        if isinstance(par, ast.If) and n in par.orelse:
            continue   # an elif arm, handled with its head
        names = set(x.id for x in ast.walk(n.test) if isinstance(x, ast.Name)) - {'length'}
        if octet_vars:
            names &= octet_vars
        for var in sorted(names):
            try:
                arms, orelse, parts, rest = chain_partition(n, var, range(256), {'length': 1})
            except intexpr.NotPure:
                continue
            bodies = [(body, vals) for (test, body), vals in zip(arms, parts)] + [(orelse, rest)]
            if not any(raises_in(b) for b, _ in bodies):
                continue
            found = True
            for body, vals in bodies:
                if raises_in(body):
                    out = 'raise'
                else:
                    out = 'data'
                    for st in body:
                        if isinstance(st, ast.Assign) and len(st.targets) == 1 and isinstance(st.targets[0], ast.Name):
                            try:
                                out = ('const', intexpr.ev(st.value, {}))
                            except intexpr.NotPure:
                                out = 'data'
                for v in vals:
                    if table[v] != 'raise':
                        table[v] = out
    if not found:
        found = _bool_table_lookup(ctx, inst, m, table)
    if not found:
        # no guard understood: lax only if the method really raises nothing beyond its length check
        dep_vars = set(octet_vars)
        for a in walk_own(m.node):      # one step of data flow: v = f(octet)
            if isinstance(a, ast.Assign) and len(a.targets) == 1 and isinstance(a.targets[0], ast.Name) and \
                    any(isinstance(x, ast.Name) and x.id in octet_vars for x in ast.walk(a.value)):
                dep_vars.add(a.targets[0].id)
        extra = [r for r in walk_own(m.node) if isinstance(r, ast.Raise) and
                 any(isinstance(a, ast.If) and any(isinstance(x, ast.Name) and x.id in dep_vars for x in ast.walk(a.test))
                     for a in ancestors(r, m.node))]
        if extra:
            raise AnalysisError('guard on the BOOLEAN content octet in %s not understood' % m.short)
    return table, m, found


def _bool_table_lookup(ctx, inst, m, table):
    """`if octet not in self.T: raise` / `v = self.T.get(octet); if v is None: raise` with T a class-level {int: int}."""
    consts = {}
    for k in inst.ci.mro:
        node = getattr(k, 'node', None)
        if node is None:
            continue
        for st in node.body:
            if isinstance(st, ast.Assign) and len(st.targets) == 1 and isinstance(st.targets[0], ast.Name) and isinstance(st.value, ast.Dict):
                try:
                    d = dict((intexpr.ev(kk, {}), intexpr.ev(vv, {})) for kk, vv in zip(st.value.keys, st.value.values))
                except intexpr.NotPure:
                    continue
                consts.setdefault(st.targets[0].id, d)
    if not consts:
        return False

    def table_of(e):
        if isinstance(e, ast.Attribute) and isinstance(e.value, ast.Name) and e.value.id in ('self', 'cls') and e.attr in consts:
            return consts[e.attr]
        return None
    for n in walk_own(m.node):
        d = None
        if isinstance(n, ast.If) and isinstance(n.test, ast.Compare) and len(n.test.ops) == 1 and isinstance(n.test.ops[0], ast.NotIn) \
                and raises_in(n.body):
            d = table_of(n.test.comparators[0])
        elif isinstance(n, ast.Assign) and isinstance(n.value, ast.Call) and isinstance(n.value.func, ast.Attribute) and \
                n.value.func.attr == 'get' and len(n.value.args) == 1:
            d = table_of(n.value.func.value)
            if d is not None:
                tgt = norm(n.targets[0])
                from sa import condeq
                guard = condeq.raising_guards(m.node, '%s is None' % tgt, raises_in, walk_own)
                if not guard or any(v is None for v in d.values()):
                    d = None
        if d is not None:
            for b in range(256):
                table[b] = ('const', d[b]) if b in d else 'raise'
            return True
    return False


def rule_strict(ctx):
    boolc = ctx.cls('type.univ.Boolean')
    _, btid = ctx.ev.class_attr(boolc, 'typeId')
    _, bts = ctx.ev.class_attr(boolc, 'tagSet')
    for codec in ('cer', 'der'):
        d = dec_chain(ctx, codec)
        for path, (inst, how) in (('by-tag', by_tag(d, bts)), ('by-type', by_type(d, btid, bts))):
            if inst is None:
                raise AnalysisError('no Boolean decoder %s in %s' % (path, codec))
            table, m, found = bool_strictness(ctx, inst)
            acc = set(b for b, o in table.items() if o != 'raise')
            ok = (acc == {0x00, 0xFF} and table[0x00] == ('const', 0) and
                  table[0xFF][0] == 'const' and bool(table[0xFF][1]))
            ctx.ob('A1.strict', 'codec.%s.decoder' % codec, '%s Boolean accepts exactly {00, FF}' % path, ok,
                   '%s (%s) -> %s accepts octets {%s}; 00 -> %r, FF -> %r' % (
                       _cname(inst), how, m.short, intexpr.fmt_set(acc), table[0], table[255]),
                   node=_site(inst))
    # DER: every string type decodes through a codec that refuses the constructed form
    d = dec_chain(ctx, 'der')
    for c, tid, ts in type_universe(ctx):
        if c.name not in x690.OCTET_LIKE + x690.BIT_LIKE:
            continue
        for path, (inst, how) in (('by-tag', by_tag(d, ts)), ('by-type', by_type(d, tid, ts))):
            if inst is None:
                continue
            flag = ctx.ev.inst_attr(inst, 'supportConstructedForm')
            ctx.ob('A1.strict', 'codec.der.decoder', '%s %s refuses constructed form' % (path, c.name), flag is False,
                   '%s (%s) has supportConstructedForm = %r' % (_cname(inst), how, flag), node=_site(inst))
    ctx.ob('A1.strict', 'codec.der.decoder.SingleItemDecoder', 'supportIndefLength is False',
           d['supportIndefLength'] is False, 'evaluates to %r' % (d['supportIndefLength'],))
    for codec in ('ber', 'cer'):
        dd = dec_chain(ctx, codec)
        ctx.ob('A1.strict', 'codec.%s.decoder.SingleItemDecoder' % codec, 'supportIndefLength is True',
               dd['supportIndefLength'] is True, 'evaluates to %r' % (dd['supportIndefLength'],), nontrivial=False)


def rule_ber_lax(ctx):
    """C09: the BER codecs are the lax ones: any non-zero TRUE, constructed strings, indefinite length."""
    d = dec_chain(ctx, 'ber')
    boolc = ctx.cls('type.univ.Boolean')
    _, btid = ctx.ev.class_attr(boolc, 'typeId')
    _, bts = ctx.ev.class_attr(boolc, 'tagSet')
    for path, (inst, how) in (('by-tag', by_tag(d, bts)), ('by-type', by_type(d, btid, bts))):
        table, m, found = bool_strictness(ctx, inst)
        acc = set(b for b, o in table.items() if o != 'raise')
        ctx.ob('A1.lax', 'codec.ber.decoder', '%s Boolean accepts every octet' % path, len(acc) == 256,
               '%s -> %s accepts octets {%s}' % (_cname(inst), m.short, intexpr.fmt_set(acc)), node=_site(inst))
        # X.690 8.2.2: any non-zero octet is TRUE
        cc = inst.ci.method('_createComponent')
        exprs = [n.args[3] for n in walk_own(cc.node) if isinstance(n, ast.Call) and
                 norm(n.func).endswith('._createComponent') and len(n.args) >= 4]
        if cc.cls.name == 'BooleanPayloadDecoder' and len(exprs) == 1:
            names = sorted(x.id for x in ast.walk(exprs[0]) if isinstance(x, ast.Name))
            try:
                truthy = intexpr.accept_set(exprs[0], names[0], range(-300, 301)) if len(names) == 1 else None
            except intexpr.NotPure:
                truthy = None
            ctx.ob('A1.lax', cc, 'every non-zero content value is TRUE, zero is FALSE',
                   truthy == set(range(-300, 301)) - {0},
                   'value expression `%s` is truthy for {%s}' % (norm(exprs[0]), intexpr.fmt_set(truthy) if truthy is not None else '?'),
                   node=exprs[0])
        else:
            raise AnalysisError('BOOLEAN value mapping of %s not recognised' % cc.short)
    for c, tid, ts in type_universe(ctx):
        if c.name not in x690.OCTET_LIKE + x690.BIT_LIKE:
            continue
        for path, (inst, how) in (('by-tag', by_tag(d, ts)), ('by-type', by_type(d, tid, ts))):
            if inst is None:
                continue
            flag = ctx.ev.inst_attr(inst, 'supportConstructedForm')
            ctx.ob('A1.lax', 'codec.ber.decoder', '%s %s accepts constructed form' % (path, c.name), flag is True,
                   '%s has supportConstructedForm = %r' % (_cname(inst), flag), node=_site(inst))
    ctx.ob('A1.lax', 'codec.ber.decoder.SingleItemDecoder', 'supportIndefLength is True', d['supportIndefLength'] is True,
           'evaluates to %r' % (d['supportIndefLength'],))


# ------------------------------------------------------------------ A7.tag

def _segment_spec_exprs(m):
    """Second positional argument of each `decodeFun(substrate, <spec>, substrateFun=...)` call in m."""
    out = []
    for n in walk_own(m.node):
        if isinstance(n, ast.Call) and isinstance(n.func, ast.Name) and n.func.id == 'decodeFun' and len(n.args) >= 2:
            if any(k.arg == 'substrateFun' for k in n.keywords):
                out.append(n.args[1])
    return out


def _encoder_segment_tag_rule(ctx, m):
    """Abstract tag the chunking encoder puts on segments: 'TagSet(baseTag, baseTag)' if every segment spec/value
    is re-tagged with the type's base tag, else None (unrecognised)."""
    calls = [n for n in walk_own(m.node) if isinstance(n, ast.Call) and norm(n.func) == 'tag.TagSet' and len(n.args) == 2]
    if not calls:
        return None
    for c in calls:
        if not (isinstance(c.args[0], ast.Name) and norm(c.args[0]) == norm(c.args[1])):
            return None
        var = c.args[0].id
        defs = [n.value for n in walk_own(m.node) if isinstance(n, ast.Assign) and any(
            isinstance(t, ast.Name) and t.id == var for t in n.targets)]
        if not defs or not all(norm(d).endswith('.tagSet.baseTag') for d in defs):
            return None
    return 'base'


def _writer_segment_tag(ctx, einst, ts):
    """(universal number or None, method) of the tag the registered encoder puts on a string segment."""
    m = einst.ci.method('encodeValue')
    mm = m
    if m is not None and not any(isinstance(n, ast.Call) and norm(n.func) == 'tag.TagSet' for n in walk_own(m.node)):
        # the time encoders delegate to OctetStringEncoder.encodeValue
        # an override that delegates to a base class (`Base.encodeValue(self, ...)` / `super().encodeValue(...)`): the time
        # encoders and the CER BIT STRING encoder
        hops = 0
        while hops < 4 and mm is not None and not any(isinstance(n, ast.Call) and norm(n.func) == 'tag.TagSet' for n in walk_own(mm.node)):
            hops += 1
            dele = [n for n in walk_own(mm.node) if isinstance(n, ast.Call) and isinstance(n.func, ast.Attribute) and
                    n.func.attr == 'encodeValue' and not norm(n.func.value).startswith('self')]
            nxt = None
            for n in dele:
                want = norm(n.func.value).split('.')[-1]
                for c in [x for x in einst.ci.mro if x is not mm.cls]:
                    d = c.own('encodeValue') if isinstance(c, ClassInfo) else None
                    if d is not None and d[0] == 'func' and (c.name == want or want.startswith('super(')):
                        nxt = d[1]
                        break
                if nxt is not None:
                    break
            if nxt is None:
                break
            mm = nxt
    if _encoder_segment_tag_rule(ctx, mm) is None:
        raise AnalysisError('cannot derive the segment tag written by %s' % mm.short)
    base = ts.baseTag
    return (base.key() if isinstance(base, VTag) else None), mm


def _reader_segment_tags(ctx, dinst):
    """{(class, number)} demanded of a segment by both variants of the registered decoder."""
    out = {}
    for meth in ('valueDecoder', 'indefLenValueDecoder'):
        m = dinst.ci.method(meth)
        specs = _segment_spec_exprs(m)
        if not specs:
            raise AnalysisError('no segment decodeFun call found in %s' % m.short)
        for sp in specs:
            if isinstance(sp, ast.Attribute) and isinstance(sp.value, ast.Name) and sp.value.id == 'self':
                proto = ctx.ev.inst_attr(dinst, sp.attr)
            else:
                proto = ctx.ev.eval(m.module, sp, ctx.ev.module_env(m.module))
            if not isinstance(proto, VInstance):
                raise AnalysisError('segment spec %s in %s does not evaluate' % (norm(sp), m.short))
            _, pts = ctx.ev.class_attr(proto.ci, 'tagSet')
            got = pts.superTags[-1].key() if isinstance(pts, VTagSet) and len(pts) else None
            out['%s(%s=%s)' % (meth, norm(sp), proto.ci.name)] = got
    return out


def rule_fragment_tag(ctx, codecs=CODECS):
    """A7.tag: tag put on a string segment by the encoder = tag demanded by the decoder = X.690 8.23.6 / 8.6.4."""
    for codec in codecs:
        e, d = enc_chain(ctx, codec), dec_chain(ctx, codec)
        for c, tid, ts in type_universe(ctx):
            if c.name in x690.OCTET_LIKE:
                want = (0, x690.SEGMENT_TAG['octet'])
            elif c.name in x690.BIT_LIKE:
                want = (0, x690.SEGMENT_TAG['bit'])
            else:
                continue
            einst, how = by_type(e, tid, ts)
            if not isinstance(einst, VInstance):
                continue
            wtag, wm = _writer_segment_tag(ctx, einst, ts)
            for path, (dinst, how) in (('by-type', by_type(d, tid, ts)), ('by-tag', by_tag(d, ts))):
                if not isinstance(dinst, VInstance):
                    continue
                rtags = _reader_segment_tags(ctx, dinst)
                ok = wtag == want and all(v == want for v in rtags.values())
                ctx.ob('A7.tag', 'codec.%s' % codec, '%s %s segments: writer = reader = UNIVERSAL %d' % (c.name, path, want[1]),
                       ok, 'writer %s tags segments %r; reader %s demands %s; X.690 says %r' % (
                           wm.short, wtag, _cname(dinst), rtags, want), node=_site(dinst))


def rule_fragment_tag_ber(ctx):
    rule_fragment_tag(ctx, ('ber',))


def rule_fragment_tag_canon(ctx):
    rule_fragment_tag(ctx, ('cer', 'der'))


# --------------------------------------------------------------- A9 (tables part)

def rule_canonical_sort_registered(ctx):
    """A9.reg: the classes registered for SET and SET OF in CER and DER are the ordering ones."""
    setc, setofc = ctx.cls('type.univ.Set'), ctx.cls('type.univ.SetOf')
    for codec in ('cer', 'der'):
        e = enc_chain(ctx, codec)
        for c, want_method, what in ((setc, '_componentSortKey', 'SET members ordered through _componentSortKey'),
                                     (setofc, None, 'SET OF members sorted')):
            _, tid = ctx.ev.class_attr(c, 'typeId')
            _, ts = ctx.ev.class_attr(c, 'tagSet')
            inst, how = by_type(e, tid, ts)
            if not isinstance(inst, VInstance):
                raise AnalysisError('no encoder for %s in %s' % (c.name, codec))
            m = inst.ci.method('encodeValue')
            if want_method:
                uses = any(isinstance(n, ast.Call) and isinstance(n.func, ast.Name) and n.func.id == 'sorted' and
                           any(k.arg == 'key' and norm(k.value) == 'self.%s' % want_method for k in n.keywords)
                           for n in walk_own(m.node))
            else:
                uses = any(isinstance(n, ast.Call) and isinstance(n.func, ast.Attribute) and n.func.attr == 'sort'
                           or isinstance(n, ast.Call) and isinstance(n.func, ast.Name) and n.func.id == 'sorted'
                           for n in walk_own(m.node))
            ctx.ob('A9.reg', 'codec.%s.encoder' % codec, what, uses,
                   '%s registered for %s; %s %s' % (_cname(inst), c.name, m.short, 'sorts' if uses else 'does not sort'),
                   node=_site(inst))
