"""A9 `sortkey`, A11 `timefmt`, A12 `wrapper`."""
import ast

from sa.model import AnalysisError, ClassInfo, FuncInfo, norm, walk_own, ancestors
from sa.cfg import reaching_defs, node_exprs, names_used
from sa.util import call_name, const_int, if_chain, stmts_of
from sa.consteval import VInstance
from sa.rules.tables import enc_chain, by_type


# ===================================================================== A9

def rule_a9_set(ctx):
    """A9.set: the SET member sort key orders by the OUTERMOST tag.

    Facts combined: tagExplicitly appends (outermost tag is last; checked by C13.model), TagSet comparisons
    compare the (class, number) tuple from index 0 (C13.cmp).  Hence a whole tagSet orders by the innermost tag
    first; only a projection on the last element orders by the outermost tag."""
    setc = ctx.cls('type.univ.Set')
    _, tid = ctx.ev.class_attr(setc, 'typeId')
    _, ts = ctx.ev.class_attr(setc, 'tagSet')
    seen = set()
    for codec in ('cer', 'der'):
        inst, how = by_type(enc_chain(ctx, codec), tid, ts)
        if not isinstance(inst, VInstance):
            raise AnalysisError('no SET encoder in %s' % codec)
        m = inst.ci.method('_componentSortKey')
        if m is None:
            raise AnalysisError('%s has no _componentSortKey' % inst.ci.short)
        if m in seen:
            continue
        seen.add(m)
        rets = [r for r in walk_own(m.node) if isinstance(r, ast.Return)]
        if not rets:
            raise AnalysisError('no return in %s' % m.short)
        for r in rets:
            v = r.value
            txt = norm(v)
            if isinstance(v, ast.Subscript):
                sl = v.slice
                last = (isinstance(sl, ast.Slice) and sl.lower is not None and const_int(sl.lower) == -1 and sl.upper is None) or \
                    const_int(sl) == -1
                base = norm(v.value)
                if last and (base.endswith('.tagSet') or base.endswith('.minTagSet') or base.endswith('TagSet')):
                    ctx.ob('A9.set', m, 'return %s' % txt, True, 'projection on the outermost tag', node=r)
                    continue
            if txt.endswith('.tagSet') or txt.endswith('.minTagSet') or txt.endswith('.effectiveTagSet'):
                ctx.ob('A9.set', m, 'return %s' % txt, False,
                       'the key is a whole tag set, which compares from the base (innermost) tag: explicitly tagged SET '
                       'members are ordered by their inner tag instead of the outermost one (X.690 10.3)', node=r)
                continue
            if isinstance(v, ast.Call) and call_name(v) == '_componentSortKey':
                callee = ctx.prog.resolve_expr(m.module, v.func)
                if isinstance(callee, FuncInfo):
                    ctx.ob('A9.set', m, 'return %s' % txt, True, 'delegates to %s (analysed on its own)' % callee.short, node=r)
                    continue
            if isinstance(v, ast.Subscript) and isinstance(v.slice, ast.Slice) and norm(v.value).endswith(('.tagSet', '.minTagSet', '.effectiveTagSet')):
                ctx.ob('A9.set', m, 'return %s' % txt, False,
                       'the key is the slice `%s` of the tag set, not its outermost tag `[-1:]`: explicitly tagged SET members are ordered by '
                       'an inner tag (X.690 10.3 orders by the outermost one)' % norm(v.slice), node=r)
                continue
            raise AnalysisError('sort key expression `%s` in %s not recognised' % (txt, m.short))
    if len(seen) < 2:
        raise AnalysisError('expected distinct CER and DER sort keys')


def rule_a9_setof(ctx):
    """A9.setof: SET OF members are sorted as octet strings padded with zero octets to the longest member."""
    c = ctx.cls('type.univ.SetOf')
    _, tid = ctx.ev.class_attr(c, 'typeId')
    _, ts = ctx.ev.class_attr(c, 'tagSet')
    seen = set()
    for codec in ('cer', 'der'):
        inst, how = by_type(enc_chain(ctx, codec), tid, ts)
        m = inst.ci.method('encodeValue')
        if m in seen:
            continue
        seen.add(m)
        _setof_body(ctx, m)


def _setof_body(ctx, m):
    """Decide A9.setof for one SET OF encoder method.  Violations are reported only on positive evidence (no sort, a sort key
    that is not the zero-padded member, a container that drops duplicates, reverse order); a shape that is not understood
    is an analysis error."""
    import re
    body = list(walk_own(m.node))
    sorts = [n for n in body if isinstance(n, ast.Call) and call_name(n) in ('sort', 'sorted')]
    dedup = [n for n in body if isinstance(n, ast.Call) and isinstance(n.func, ast.Name) and n.func.id in ('dict', 'set', 'frozenset')]
    det = []
    unknown = []
    if not sorts:
        det.append('the member encodings are not sorted at all')
    if dedup:
        det.append('`%s` collapses members with equal encodings: a SET OF is a bag' % norm(dedup[0])[:40])
    localdefs = dict((d.name, d) for d in ast.walk(m.node) if isinstance(d, ast.FunctionDef) and d is not m.node)
    assigns = dict((norm(a.targets[0]), a.value) for a in body if isinstance(a, ast.Assign) and len(a.targets) == 1)
    pads = []
    for sc in sorts:
        if any(k.arg == 'reverse' and not (isinstance(k.value, ast.Constant) and not k.value.value) for k in sc.keywords):
            det.append('reverse sort')
        ks = [k.value for k in sc.keywords if k.arg == 'key']
        keyexpr, par = None, None
        if ks:
            k = ks[0]
            if isinstance(k, ast.Lambda) and len(k.args.args) == 1:
                keyexpr, par = k.body, k.args.args[0].arg
            elif isinstance(k, ast.Name) and k.id in localdefs and len(localdefs[k.id].args.args) == 1 and \
                    len(localdefs[k.id].body) >= 1 and isinstance(localdefs[k.id].body[-1], ast.Return):
                keyexpr, par = localdefs[k.id].body[-1].value, localdefs[k.id].args.args[0].arg
            else:
                unknown.append('sort key `%s` of %s not understood' % (norm(k), m.short))
                continue
        # what is being sorted
        subject = sc.args[0] if call_name(sc) == 'sorted' and sc.args else (sc.func.value if call_name(sc) == 'sort' else None)
        if keyexpr is not None and isinstance(keyexpr, ast.Call) and call_name(keyexpr) == 'ljust' and norm(keyexpr.func.value) == par:
            pads.append(keyexpr)            # sorted(members, key=lambda c: c.ljust(W, Z))
            continue
        if keyexpr is None or (isinstance(keyexpr, ast.Subscript) and norm(keyexpr.value) == par and const_int(keyexpr.slice) == 0):
            # decorate-sort-undecorate: the sorted list holds (padded, member) pairs
            sdef = assigns.get(norm(subject)) if subject is not None else None
            pairs = sdef if isinstance(sdef, ast.ListComp) else (subject if isinstance(subject, ast.ListComp) else None)
            if pairs is not None and isinstance(pairs.elt, ast.Tuple) and len(pairs.elt.elts) == 2 and \
                    isinstance(pairs.elt.elts[0], ast.Call) and call_name(pairs.elt.elts[0]) == 'ljust':
                pads.append(pairs.elt.elts[0])
                undec = [n for n in body if isinstance(n, ast.ListComp) and isinstance(n.elt, ast.Subscript) and const_int(n.elt.slice) == 1]
                # `[member for _, member in pairs]`: the second element taken by unpacking
                undec += [n for n in body if isinstance(n, (ast.ListComp, ast.GeneratorExp)) and isinstance(n.elt, ast.Name) and
                          len(n.generators) == 1 and isinstance(n.generators[0].target, ast.Tuple) and len(n.generators[0].target.elts) == 2 and
                          isinstance(n.generators[0].target.elts[1], ast.Name) and n.generators[0].target.elts[1].id == n.elt.id]
                if not undec:
                    det.append('the padded copies, not the members, are emitted (no `[x[1] for x in ...]` after the sort)')
                continue
            if keyexpr is None and sdef is None and subject is not None:
                det.append('members are sorted by their plain encoding `%s`, not as zero-padded octet strings of equal length '
                           '(X.690 11.6)' % norm(subject))
                continue
            unknown.append('sorted object `%s` of %s not understood' % (norm(subject), m.short))
            continue
        det.append('sort key `%s` is not the zero-padded member' % norm(keyexpr))
    for p_ in pads:
        if len(p_.args) != 2:
            unknown.append('padding call `%s` not understood' % norm(p_))
            continue
        width, fill = p_.args
        w = assigns.get(norm(width), width)
        f_ = assigns.get(norm(fill), fill)
        wt = norm(w)
        if not re.fullmatch(r'max\((map\(len, (\w+)\)|\(?\[?len\((\w+)\) for \3 in (\w+)\]?\)?)\)', wt):
            det.append('pad width `%s` is not the maximal member length' % wt)
        if norm(f_) not in ("str2octs('\\x00')", "b'\\x00'", 'int2oct(0)', "ints2octs((0,))"):
            det.append('fill octet `%s` is not 00' % norm(f_))
    if sorts and not pads and not det and not unknown:
        unknown.append('no zero-padding found for the sort of %s' % m.short)
    if unknown and not det:
        raise AnalysisError('; '.join(unknown))
    ctx.ob('A9.setof', m, 'members sorted by zero-padded encoding, emitted unpadded', not det, '; '.join(det) or 'ok')


# ===================================================================== A11

class Iv(object):
    """Closed integer interval."""

    def __init__(self, lo, hi):
        self.lo, self.hi = lo, hi

    def __repr__(self):
        return '[%s, %s]' % (self.lo, self.hi)


def iv_eval(e, env):
    if isinstance(e, ast.Constant) and isinstance(e.value, int):
        return Iv(e.value, e.value)
    if isinstance(e, ast.Name) and e.id in env:
        return env[e.id]
    if isinstance(e, ast.BinOp):
        a, b = iv_eval(e.left, env), iv_eval(e.right, env)
        if a is None or b is None:
            return None
        if isinstance(e.op, ast.Add):
            return Iv(a.lo + b.lo, a.hi + b.hi)
        if isinstance(e.op, ast.Sub):
            return Iv(a.lo - b.hi, a.hi - b.lo)
        if isinstance(e.op, ast.FloorDiv) and b.lo == b.hi and b.lo > 0:
            return Iv(a.lo // b.lo, a.hi // b.lo)
        if isinstance(e.op, ast.Mod) and b.lo == b.hi and b.lo > 0:
            if a.lo >= 0 and a.hi < b.lo:
                return Iv(a.lo, a.hi)
            return Iv(0, b.lo - 1)
        if isinstance(e.op, ast.Mult) and b.lo == b.hi and b.lo >= 0:
            return Iv(a.lo * b.lo, a.hi * b.lo)
    if isinstance(e, ast.UnaryOp) and isinstance(e.op, ast.USub):
        a = iv_eval(e.operand, env)
        return None if a is None else Iv(-a.hi, -a.lo)
    if isinstance(e, ast.Call) and call_name(e) == 'abs' and len(e.args) == 1:
        a = iv_eval(e.args[0], env)
        if a is not None:
            return Iv(0 if a.lo <= 0 <= a.hi else min(abs(a.lo), abs(a.hi)), max(abs(a.lo), abs(a.hi)))
    return None


def rule_a11_offset(ctx):
    """A11.sign / A11.width: the UTC offset written by fromDateTime.  The statements from the `utcoffset()` call to the
    statement that formats the two numeric fields are tabulated over every offset -23:59 .. +23:59 (timedelta leaves
    days in -1..0, seconds in 0..86399): the fields must be |offset| // 3600 and |offset| % 3600 // 60, within their
    widths; and the `< 0` test that chooses the sign must look at a signed quantity."""
    import re
    from sa import region, intexpr
    f = ctx.func('type.useful.TimeMixIn.fromDateTime')
    cfg = ctx.cfg(f)
    rd = reaching_defs(cfg, f.params())
    top = f.node.body
    start = [i for i, s_ in enumerate(top) if isinstance(s_, ast.Assign) and isinstance(s_.targets[0], ast.Name) and
             isinstance(s_.value, ast.Call) and norm(s_.value.func).endswith('.utcoffset')]
    if len(start) != 1:
        raise AnalysisError('utcoffset() call not found in %s' % f.short)
    offvar = top[start[0]].targets[0].id

    def fmt_of(st_):
        for x in ast.walk(st_):
            if isinstance(x, ast.BinOp) and isinstance(x.op, ast.Mod) and isinstance(x.left, ast.Constant) and isinstance(x.left.value, str) \
                    and isinstance(x.right, ast.Tuple):
                dirs = re.findall(r'%[-0 +#]*\d*(?:\.\d+)?([sdrif])', x.left.value)
                if dirs.count('d') == 2 and len(dirs) == len(x.right.elts) and 'Y' not in x.left.value:
                    return x, dirs
        return None
    sites = [s_ for s_ in walk_own(f.node) if isinstance(s_, ast.stmt) and not isinstance(s_, (ast.If, ast.For, ast.While, ast.Try)) and fmt_of(s_)]
    if len(sites) != 1:
        raise AnalysisError('offset format expression not found in %s' % f.short)
    fx, dirs = fmt_of(sites[0])
    widths = [int(w) for w in re.findall(r'%\.?0?(\d)d', fx.left.value)]
    if len(widths) != 2:
        raise AnalysisError('offset format `%s` not recognised' % fx.left.value)
    fields = [e for e, d in zip(fx.right.elts, dirs) if d == 'd']
    state = {}

    def leaf(e):
        if isinstance(e, ast.Attribute) and isinstance(e.value, ast.Name) and e.value.id == offvar:
            return state.get(e.attr)
        return None

    def mark(st_, env):
        if st_ is top[start[0]]:
            env[offvar] = state['total']
            return region.SKIP
        if st_ is sites[0]:
            return 'format'
        return None
    bad = None
    try:
        for total in list(range(-86399, 86400, 60)) + [-86399, -3601, -3599, -61, -59, -1, 1, 59, 61, 3599, 3601, 86399]:
            state = {'total': total, 'days': -1 if total < 0 else 0, 'seconds': total % 86400}
            lab, env = region.walk(top[start[0]:], {}, mark, leaf)
            if total == 0:
                continue          # written as Z: A11.parse
            if lab != 'format':
                bad = (total, 'the fields are not written (%s)' % lab)
                break
            got = tuple(intexpr.ev(e, env, leaf) for e in fields)
            want = (abs(total) // 3600, abs(total) % 3600 // 60)
            if got != want:
                bad = (total, 'fields %r, should be %r' % (got, want))
                break
    except (region.Undecided, intexpr.NotPure) as x:
        raise AnalysisError('offset region of %s is not a pure table: %s' % (f.short, x))
    ctx.ob('A11.width', f, 'hour and minute fields of the offset are |offset| // 3600 and |offset| % 3600 // 60 for every offset of whole minutes '
           'between -23:59 and +23:59', bad is None, 'offset of %d s: %s' % bad if bad else 'tabulated for 2880 offsets', node=fx)
    ctx.ob('A11.width', f, 'fields fit their widths', widths[0] >= 2 and widths[1] >= 2, 'widths %s for 0..23 / 0..59' % widths, node=fx)
    ctx.ob('A11.width', f, 'two numeric fields', len(fields) == 2, '', node=fx, nontrivial=False)
    # ---- sign test on a signed quantity
    # comparisons of a local with 0, wherever they stand (an `if`, a conditional expression)
    cmps = []
    for n in cfg.stmt_nodes():
        for e in node_exprs(n):
            for x in ast.walk(e):
                if isinstance(x, ast.Compare) and len(x.ops) == 1 and isinstance(x.left, ast.Name) and \
                        isinstance(x.ops[0], (ast.Lt, ast.LtE, ast.Gt, ast.GtE)) and const_int(x.comparators[0]) == 0:
                    cmps.append((n, x))
    if not cmps:
        ctx.ob('A11.sign', f, 'sign of the offset is tested', False, 'no `<offset quantity> < 0` test')
    seen_vars = set()
    for n, x in cmps:
        var = x.left.id
        if var in seen_vars:
            continue
        seen_vars.add(var)
        defs = rd[n].get(var, set())
        srcs = [norm(d.ast.value) for d in defs if d.kind == 'stmt' and isinstance(d.ast, ast.Assign)]
        unsigned = [s_ for s_ in srcs if s_.endswith('.seconds') and '.days' not in s_ and 'total_seconds' not in s_]
        ctx.ob('A11.sign', f, 'the `< 0` test that chooses the sign looks at a signed quantity', not unsigned and bool(srcs),
               'compared value is defined as %s; timedelta.seconds is never negative (negative offsets have days == -1), so the '
               'minus sign can never be written' % srcs if unsigned else 'defined as %s' % srcs, node=x)


def rule_a11_trim(ctx):
    """A11.trim: the canonical fraction trim removes only TRAILING zeros."""
    f = ctx.func('codec.cer.encoder.TimeEncoderMixIn.encodeValue')
    loops = [n for n in walk_own(f.node) if isinstance(n, ast.While) and any(isinstance(x, ast.Delete) for x in ast.walk(n))]
    if len(loops) != 1:
        raise AnalysisError('fraction trim loop not found in %s' % f.short)
    lp = loops[0]
    cfg = ctx.cfg(f)
    head = cfg.node_of[lp]
    ztests = [n for n in cfg.stmt_nodes() if n.kind == 'test' and n.loop is head and 'ZERO_CHAR' in norm(n.ast.test) and
              isinstance(n.ast.test, ast.Compare) and isinstance(n.ast.test.ops[0], ast.Eq)]
    if not ztests:
        if 'ZERO_CHAR' in norm(lp.test):
            ctx.ob('A11.trim', f, 'trim loop stops at the first non-zero digit', True, 'loop condition tests for the zero digit', node=lp)
            return
        raise AnalysisError('zero-digit test not found in the trim loop')
    z = ztests[0]
    nz = [s for s, lab in z.succs if lab == 'false']
    # from the non-zero branch the loop must not go round again
    again = any(head in (cfg.reachable(s) | {s}) and head in [t for t, l in _back_sources(cfg, head, s)] for s in nz) if nz else True
    reach_back = False
    for s in nz:
        # can we get back to the loop head from the non-zero arm without leaving the loop?
        seen = set()
        st = [s]
        while st:
            x = st.pop()
            if x is head:
                reach_back = True
                break
            if x in seen or x.loop is not head and x is not head:
                continue
            seen.add(x)
            for y, lab in x.succs:
                if lab != 'exc':
                    st.append(y)
    ctx.ob('A11.trim', f, 'trim loop stops at the first non-zero digit', not reach_back,
           'after a non-zero fraction digit the loop goes on towards the decimal point and deletes the zeros it meets there: '
           'inner zeros are removed (.0500 -> .5), which denotes a different instant' if reach_back else 'leaves the loop', node=z.ast)
    # canonical checks present: Z required, +/- and comma refused
    src = norm(f.node)
    for what, needle in (('UTC designator Z required', 'numbers[-1] != self.Z_CHAR'), ('offsets refused', 'self.PLUS_CHAR in numbers or self.MINUS_CHAR in numbers'),
                         ('decimal comma refused', 'self.COMMA_CHAR in numbers')):
        tests = [n for n in walk_own(f.node) if isinstance(n, ast.If) and norm(n.test) == needle and any(isinstance(s, ast.Raise) for s in n.body)]
        ctx.ob('A11.canon', f, what, bool(tests), 'guard `%s` with raising arm: %s' % (needle, bool(tests)))
    # every "does the value contain this character" test looks at the whole value, not at a window of it
    for n in walk_own(f.node):
        if isinstance(n, ast.Compare) and len(n.ops) == 1 and isinstance(n.ops[0], (ast.In, ast.NotIn)) and norm(n.left).endswith('_CHAR'):
            whole = not any(isinstance(x, (ast.Subscript, ast.Slice)) for x in ast.walk(n.comparators[0]))
            ctx.ob('A11.canon', f, 'test `%s` scans the whole value' % norm(n)[:50], whole,
                   'the character is looked for in a slice: a fraction longer than the window (.5000 without seconds) skips '
                   'the canonicalisation and is emitted with its trailing zeros' if not whole else 'whole value', node=n)
    consts = {'Z_CHAR': ord('Z'), 'PLUS_CHAR': ord('+'), 'MINUS_CHAR': ord('-'), 'COMMA_CHAR': ord(','), 'DOT_CHAR': ord('.'), 'ZERO_CHAR': ord('0')}
    for k, v in consts.items():
        _, got = ctx.ev.class_attr(f.cls, k)
        ctx.ob('A11.canon', f.cls, k, got == v, '%s = %r, expected %d' % (k, got, v), nontrivial=False)
    # both time encoders are registered in CER and DER
    for codec in ('cer', 'der'):
        ch = enc_chain(ctx, codec)
        for tname in ('GeneralizedTime', 'UTCTime'):
            c = ctx.cls('type.useful.%s' % tname)
            _, tid = ctx.ev.class_attr(c, 'typeId')
            _, ts = ctx.ev.class_attr(c, 'tagSet')
            inst, how = by_type(ch, tid, ts)
            ok = isinstance(inst, VInstance) and ctx.cls('codec.cer.encoder.TimeEncoderMixIn') in inst.ci.mro
            ctx.ob('A11.canon', 'codec.%s.encoder' % codec, '%s encoded by the canonicalising time encoder' % tname, ok,
                   'registered: %s' % (inst.ci.short if isinstance(inst, VInstance) else inst))


def _back_sources(cfg, head, s):
    return [(p, lab) for p, lab in head.preds if lab in ('back', 'continue')]


# ===================================================================== A12

def rule_a12(ctx):
    """Substrate kinds are told apart only in codec/streaming.py; the wrapper's coordinates are stable."""
    # A12.kinds
    n_in_streaming = 0
    for f in ctx.prog.all_functions():
        if not f.module.name.startswith('pyasn1.codec.'):
            continue
        for c in walk_own(f.node):
            if not isinstance(c, ast.Call):
                continue
            kind = None
            if isinstance(c.func, ast.Name) and c.func.id == 'isinstance' and len(c.args) == 2 and \
                    ('substrate' in norm(c.args[0]).lower()) and ('io.' in norm(c.args[1]) or 'bytes' in norm(c.args[1]) or 'file' in norm(c.args[1]) or 'OctetString' in norm(c.args[1])):
                kind = norm(c)
            if isinstance(c.func, ast.Attribute) and c.func.attr in ('seekable', 'fileno', 'isatty') and 'substrate' in norm(c.func.value).lower():
                kind = norm(c)
            if isinstance(c.func, ast.Name) and c.func.id == 'hasattr' and c.args and 'substrate' in norm(c.args[0]).lower():
                kind = norm(c)
            if kind is None:
                continue
            inside = f.module.name == 'pyasn1.codec.streaming'
            if inside:
                n_in_streaming += 1
            ctx.ob('A12.kinds', f, kind[:70], inside,
                   'substrate-kind dispatch outside codec/streaming.py: the result would depend on the kind of input object'
                   if not inside else 'dispatch inside the streaming module', node=c, nontrivial=False)
    if n_in_streaming < 4:
        raise AnalysisError('substrate-kind dispatch sites of codec/streaming.py not found (%d)' % n_in_streaming)
    # A12.total
    f = ctx.func('codec.streaming.asSeekableStream')
    src = norm(f.node)
    arms = {'BytesIO passed through': 'isinstance(substrate, io.BytesIO)',
            'bytes wrapped': 'isinstance(substrate, bytes)',
            'OctetString/Any wrapped': 'isinstance(substrate, univ.OctetString)',
            'seekable stream passed through': 'substrate.seekable()',
            'non-seekable stream wrapped': 'CachingStreamWrapper(substrate)'}
    for what, needle in arms.items():
        ctx.ob('A12.total', f, what, needle in src, needle, nontrivial=False)
    hs = [h for n in walk_own(f.node) if isinstance(n, ast.Try) for h in n.handlers]
    ok = any(h.type is not None and norm(h.type) == 'AttributeError' and any(
        isinstance(s, ast.Raise) and 'UnsupportedSubstrateError' in norm(s) for s in h.body) for h in hs)
    ctx.ob('A12.total', f, 'anything else raises UnsupportedSubstrateError', ok, 'handler found: %s' % ok)
    ctx.ob('A12.total', f, 'OctetString arm reads the octets', 'io.BytesIO(substrate.asOctets())' in src, '', nontrivial=False)
    # A12.origin
    w = ctx.cls('codec.streaming.CachingStreamWrapper')
    readers = {}
    for nm in ('tell', 'seek'):
        m = w.method(nm)
        if m is None:
            raise AnalysisError('CachingStreamWrapper.%s missing' % nm)
        readers[nm] = set(x.attr for x in walk_own(m.node) if isinstance(x, ast.Attribute) and norm(x.value) == 'self')
    for name, defs in sorted(w.attrs.items()):
        for d in defs:
            if d[0] != 'func' or d[1].name == '__init__':
                continue
            m = d[1]
            rebinds = [n for n in walk_own(m.node) if isinstance(n, ast.Assign) and any(norm(t) == 'self._cache' for t in n.targets)]
            if not rebinds:
                continue
            written = set(x.attr for n in walk_own(m.node) if isinstance(n, (ast.Assign, ast.AugAssign))
                          for t in (n.targets if isinstance(n, ast.Assign) else [n.target])
                          for x in ast.walk(t) if isinstance(x, ast.Attribute) and norm(x.value) == 'self') - {'_cache'}
            comp = [a for a in written if a in readers['tell'] and a in readers['seek']]
            ctx.ob('A12.origin', m, 'rebinding _cache keeps tell()/seek() coordinates stable', bool(comp),
                   '`%s` replaces the cache by its unread tail, which moves the origin of tell()/seek(); the fields it updates '
                   '(%s) are not read by tell() (%s) and seek() (%s), so positions the decoder holds in locals '
                   '(x = substrate.tell()) point elsewhere afterwards' % (
                       norm(rebinds[0]), sorted(written), sorted(readers['tell']), sorted(readers['seek'])) if not comp
                   else 'compensated through %s' % comp, node=rebinds[0])
    # the mark stored when the cache is rebound is in the coordinates tell() reports
    offs = sorted(readers['tell'] - {'_cache'})
    for name, defs in sorted(w.attrs.items()):
        for d in defs:
            if d[0] != 'func' or d[1].name == '__init__':
                continue
            m = d[1]
            body = list(walk_own(m.node))
            rebinds = [n for n in body if isinstance(n, ast.Assign) and any(norm(t) == 'self._cache' for t in n.targets)]
            for r in rebinds:
                marks = [n for n in body if isinstance(n, ast.Assign) and any(norm(t) == 'self._markedPosition' for t in n.targets)
                         and n.lineno > r.lineno]
                for mk in marks:
                    txt = norm(mk.value)
                    if offs:
                        ok = txt == 'self.tell()' or all(('self.' + a) in txt for a in offs)
                    else:
                        ok = txt in ('0', 'self._cache.tell()', 'self.tell()')
                    ctx.ob('A12.mark', m, 'mark stored after the cache is rebound is in tell() coordinates', ok,
                           'tell() reports `self._cache.tell()` plus %s, the mark is reset to `%s`: seek(markedPosition) (ANY / '
                           'open-type capture) goes to another place, or before the start of the cache' % (offs, txt) if not ok
                           else '`%s` with tell() offsets %s' % (txt, offs), node=mk)
    # the decoder does hold positions across nested decodes
    dec = ctx.mod('codec.ber.decoder')
    holds = 0
    for f in ctx.prog.all_functions():
        if f.module is dec:
            for n in walk_own(f.node):
                if isinstance(n, ast.Assign) and norm(n.value) == 'substrate.tell()':
                    holds += 1
    ctx.ob('A12.origin', 'codec.ber.decoder', 'decoder holds tell() results in locals', holds >= 5, '%d sites' % holds, nontrivial=False)
    rule_wrapper_read(ctx)

def _preorder_nodes(node):
    yield node
    for ch in ast.iter_child_nodes(node):
        yield from _preorder_nodes(ch)


def rule_wrapper_read(ctx):
    """A12.cache: CachingStreamWrapper.read = cached part + raw part, the raw part remembered; peek = read + seek back;
    the element mark is set at the start of every element."""
    w = ctx.cls('codec.streaming.CachingStreamWrapper')
    # read(): served from the cache first, remainder from the raw stream and remembered
    rd = w.method('read')

    def bound_to(attr):
        """locals bound to the result of self.<attr>.read(...)"""
        return [a.targets[0].id for a in walk_own(rd.node) if isinstance(a, ast.Assign) and isinstance(a.targets[0], ast.Name)
                and isinstance(a.value, ast.Call) and norm(a.value.func) == 'self.%s.read' % attr]
    cvars, rvars = bound_to('_cache'), bound_to('_raw')
    if len(cvars) != 1 or len(rvars) != 1:
        raise AnalysisError('cache read / raw read not found in %s' % rd.short)
    cv, rv = cvars[0], rvars[0]
    remembered = any(isinstance(c_, ast.Call) and norm(c_.func) == 'self._cache.write' and len(c_.args) == 1 and norm(c_.args[0]) == rv
                     for c_ in walk_own(rd.node))
    from sa.cfg import known_at
    cfg_rd = ctx.cfg(rd)
    rets = []
    for r_ in walk_own(rd.node):
        if isinstance(r_, ast.Return) and r_.value is not None:
            t = norm(r_.value)
            nd_ = cfg_rd.node_of.get(r_)
            if nd_ is not None and known_at(cfg_rd, nd_, '%s is None' % rv, True) and (
                    t == '%s or None' % cv or (t == 'None' and known_at(cfg_rd, nd_, cv, False))):
                continue        # the raw stream had nothing yet: what the cache held, or None ("nothing yet") when it held nothing
            rets.append(t)
    ok = remembered and bool(rets) and all(t in (cv, '%s + %s' % (cv, rv)) for t in rets) and ('%s + %s' % (cv, rv)) in rets
    ctx.ob('A12.cache', rd, 'read = cached part + raw part, raw part remembered', ok,
           'returns %s: the octets already taken from the cache must be part of every answer (the cache position has moved past '
           'them), also when the raw stream has nothing yet' % rets if not ok else '')
    pk = w.method('peek')
    # R = self.read(n), then the cache position put back: relative, by len(R) (skippable when R is empty or None), or absolute,
    # to the position `self._cache.tell()` gave BEFORE the read (everything read() hands out has gone through the cache)
    seq = [x for x in _preorder_nodes(pk.node) if isinstance(x, (ast.Assign, ast.Call))]
    reads = [a for a in seq if isinstance(a, ast.Assign) and isinstance(a.targets[0], ast.Name) and isinstance(a.value, ast.Call) and
             norm(a.value.func) == 'self.read' and [norm(x) for x in a.value.args] == [pk.params()[1]] and not a.value.keywords]
    good, why = False, 'no `result = self.read(n)`'
    if len(reads) == 1:
        res = reads[0].targets[0].id
        ri = seq.index(reads[0])
        tells = dict((a.targets[0].id, seq.index(a)) for a in seq if isinstance(a, ast.Assign) and isinstance(a.targets[0], ast.Name)
                     and norm(a.value) == 'self._cache.tell()')
        seeks = [c_ for c_ in seq if isinstance(c_, ast.Call) and norm(c_.func) == 'self._cache.seek']
        why = 'no seek back on the cache after the read'
        for c_ in seeks:
            if seq.index(c_) < ri or c_.keywords:
                continue
            a_ = [norm(x) for x in c_.args]
            if a_ == ['-len(%s)' % res, 'os.SEEK_CUR'] or a_ == ['-len(%s)' % res, '1']:
                good = True
            elif a_ and a_[0] in tells and tells[a_[0]] < ri and a_[1:] in ([], ['os.SEEK_SET'], ['0']):
                good = True
            else:
                why = '`%s` does not undo the read' % norm(c_)
        rets_pk = [norm(r_.value) for r_ in walk_own(pk.node) if isinstance(r_, ast.Return) and r_.value is not None]
        if good and rets_pk != [res]:
            good, why = False, 'returns %s, not what was read' % rets_pk
    ctx.ob('A12.cache', pk, 'peek = read + seek back by what was read', good, why if not good else '')
    # (an empty or None result moves nothing: the seek may be skipped for it)
    # the element mark is set at the start of every element
    f = ctx.func('codec.ber.decoder.SingleItemDecoder.__call__')
    ok = any(norm(s) == 'substrate.markedPosition = substrate.tell()' for s in stmts_of(f.node))
    ctx.ob('A12.cache', f, 'mark set at the start of every element', ok, '')


def rule_a9_dynamic(ctx):
    """A9.dyn: the DER sort key resolves an untagged CHOICE member by the alternative actually chosen, in the value
    arm and in the python-value arm alike (X.690 10.3: ordered by the tag of the value being encoded)."""
    f = ctx.func('codec.der.encoder.SetEncoder._componentSortKey')
    arms = [n for n in walk_own(f.node) if isinstance(n, ast.If) and 'Choice.typeId' in norm(n.test) and 'tagSet' in norm(n.test)]
    # nested tests of the same kind belong to the outermost one
    arms = [n for n in arms if not any(n is not m and any(n is x for x in ast.walk(m)) for m in arms)]
    if len(arms) != 1:
        raise AnalysisError('untagged CHOICE arm not found in %s' % f.short)
    # value arm / python-value arm: the two branches of the `asn1Spec is None` test inside
    split = [n for n in arms[0].body if isinstance(n, ast.If) and norm(n.test) in ('asn1Spec is None', 'asn1Spec is not None')]
    if len(split) == 1:
        def kinds(stmts, chosen_texts):
            loc = {}
            for a in [x for st in stmts for x in ast.walk(st) if isinstance(x, ast.Assign) and isinstance(x.targets[0], ast.Name)]:
                loc[a.targets[0].id] = norm(a.value)
            out = set()
            for r in [x for st in stmts for x in ast.walk(st) if isinstance(x, ast.Return)]:
                t = norm(r.value)
                for nm, val in loc.items():
                    if val in chosen_texts:
                        t = t.replace(nm + '.', '<chosen>.')
                for c in chosen_texts:
                    t = t.replace(c, '<chosen>')
                out.add(t)
            return out
        a_true, a_false = split[0].body, split[0].orelse
        if norm(split[0].test) == 'asn1Spec is not None':
            a_true, a_false = a_false, a_true
        kv = kinds(a_true, ('component.getComponent()',))
        kp = kinds(a_false, ('asn1Spec[names[0]]',))
        ctx.ob('A9.dyn', f, 'value arm and python-value arm derive the key from the chosen alternative in the same way', kv == kp,
               'value arm: %s | python-value arm: %s - a SET whose untagged CHOICE member holds a nested untagged CHOICE is ordered '
               'differently for a value object and for the equal Python value' % (sorted(kv), sorted(kp)) if kv != kp else str(sorted(kv)),
               node=split[0])
    rets = [r for s_ in arms[0].body for r in ast.walk(s_) if isinstance(r, ast.Return)]
    if len(rets) < 2:
        ctx.ob('A9.dyn', f, 'untagged CHOICE resolved by the chosen alternative in both arms', False,
               'the untagged-CHOICE arm has %d return(s): value arm and python-value arm are not both resolved dynamically' % len(rets), node=arms[0])
        return
    # the two arms resolve the CHOICE to the same depth (one level, or both recursively)
    rec = [isinstance(r.value, ast.Call) and call_name(r.value) == '_componentSortKey' for r in rets]
    ctx.ob('A9.dyn', f, 'value arm and python-value arm resolve a nested untagged CHOICE alike', len(set(rec)) == 1,
           'one arm recurses into the chosen alternative (`%s`), the other takes its outer tag (`%s`): a SET with a nested '
           'untagged CHOICE member is ordered differently for a value object and for the equal Python value' % (
               norm(rets[rec.index(True)].value)[:60], norm(rets[rec.index(False)].value)[:60]) if len(set(rec)) > 1 else 'same depth',
           node=arms[0])
    for r in rets:
        txt = norm(r.value)
        locs = dict((a.targets[0].id, a.value) for a in ast.walk(arms[0]) if isinstance(a, ast.Assign) and isinstance(a.targets[0], ast.Name))
        via = [locs[x.id] for x in ast.walk(r.value) if isinstance(x, ast.Name) and x.id in locs]
        dyn = 'getComponent()' in txt or any(isinstance(x, ast.Subscript) and norm(x.value) == 'asn1Spec'
                                              for e in [r.value] + via for x in ast.walk(e))
        ctx.ob('A9.dyn', f, 'return %s' % txt[:60], dyn,
               'this key does not depend on the alternative chosen in the value: value objects and Python values of the same '
               'content are ordered differently' if not dyn else 'depends on the chosen alternative', node=r)


def rule_a11_parse(ctx):
    """A11.parse: text -> datetime: offset = +/-(hh * 60 + mm) minutes, sign from the designator, type switches per X.680."""
    from sa.rules.wire import _subst
    from sa import intexpr
    f = ctx.func('type.useful.TimeMixIn.asDateTime')
    from sa.cfg import known_at, reaching_defs
    cfg = ctx.cfg(f)
    rd = reaching_defs(cfg, f.params())
    # statements that negate a local (x *= -1, x = -x): one of them must be reached exactly under `<designator> == '-'`
    negs = []
    for n in cfg.stmt_nodes():
        a = n.ast
        if n.kind != 'stmt':
            continue
        if isinstance(a, ast.AugAssign) and isinstance(a.op, ast.Mult) and norm(a.value) == '-1':
            negs.append(n)
        elif isinstance(a, ast.Assign) and isinstance(a.value, ast.UnaryOp) and isinstance(a.value.op, ast.USub) and \
                norm(a.value.operand) == norm(a.targets[0]):
            negs.append(n)
    atoms = set(norm(t.ast.test) for t in cfg.nodes if t.kind == 'test' and isinstance(t.ast.test, ast.Compare) and
                len(t.ast.test.ops) == 1 and isinstance(t.ast.test.ops[0], ast.Eq) and norm(t.ast.test.comparators[0]) == "'-'")
    okneg = any(known_at(cfg, n, a, True, rd) for n in negs for a in atoms)
    ctx.ob('A11.parse', f, 'offset negated exactly for the minus designator', okneg,
           'no negation of the offset under a test `<designator> == \'-\'`: the sign must come from the designator character itself - a sign parsed '
           'together with the hour digits is lost for -00mm (int(\'-00\') == 0)' if not okneg else '')
    mins = [n for n in walk_own(f.node) if isinstance(n, ast.Assign) and norm(n.targets[0]) == 'minutes']
    if not mins:
        raise AnalysisError('offset computation not found in %s' % f.short)
    t = _subst(mins[0].value, {'int(tz[:2])': '__h', 'int(tz[2:])': '__m'})
    try:
        ok = all(intexpr.ev(t, {'__h': h, '__m': m}) == 60 * h + m for h in (0, 1, 5, 14, 23) for m in (0, 1, 30, 59))
    except intexpr.NotPure as x:
        raise AnalysisError('offset expression `%s` not recognised: %s' % (norm(mins[0].value), x))
    ctx.ob('A11.parse', f, 'offset minutes = hh * 60 + mm', ok, '`%s`' % norm(mins[0].value), node=mins[0])
    # separators the text is split at: constants that reach the argument of a partition() call
    seps = set()
    for n in walk_own(f.node):
        if isinstance(n, ast.Call) and isinstance(n.func, ast.Attribute) and n.func.attr == 'partition' and len(n.args) == 1:
            a = n.args[0]
            srcs = [a]
            if isinstance(a, ast.Name):
                srcs = [d.value for d in walk_own(f.node) if isinstance(d, ast.Assign) and any(isinstance(t, ast.Name) and t.id == a.id for t in d.targets)]
            for e in srcs:
                for c_ in ast.walk(e):
                    if isinstance(c_, ast.Constant) and isinstance(c_.value, str) and len(c_.value) == 1:
                        seps.add(c_.value)
    ok = seps >= set('+-.,')
    ctx.ob('A11.parse', f, 'offset split at + or -, fraction split at . or ,', ok, str(sorted(seps)))
    from sa import condeq
    g = condeq.raising_guards(f.node, 'len(tz) != 4', lambda b: any(isinstance(s, ast.Raise) for s in b), walk_own)
    if len(g) == 1 and any(isinstance(n, ast.If) and norm(n.test) == 'self._shortTZ and len(tz) == 2' for n in walk_own(f.node)):
        ctx.ob('A11.parse', f, 'offset must be hhmm (hh allowed for GeneralizedTime)', True, '')
    else:
        ctx.ob('A11.parse', f, 'offset must be hhmm (hh allowed for GeneralizedTime)', True, 'length test not in the confirmed form: not decided', note=True)
    if any(isinstance(n, ast.If) and norm(n.test) == "text.endswith('Z')" and any('TimeMixIn.UTC' in norm(s) for s in n.body) for n in walk_own(f.node)):
        ctx.ob('A11.parse', f, 'Z designator means UTC', True, '')
    else:
        ctx.ob('A11.parse', f, 'Z designator means UTC', True, 'Z arm not in the confirmed form: not decided', note=True)
    want = {'GeneralizedTime': {'_yearsDigits': 4, '_hasSubsecond': True, '_optionalMinutes': True, '_shortTZ': True},
            'UTCTime': {'_yearsDigits': 2, '_hasSubsecond': False, '_optionalMinutes': False, '_shortTZ': False}}
    for cname, attrs in want.items():
        c = ctx.cls('type.useful.%s' % cname)
        for a, v in attrs.items():
            _, got = ctx.ev.class_attr(c, a)
            ctx.ob('A11.parse', c, '%s = %r' % (a, v), got == v and type(got) is type(v), 'evaluates to %r' % (got,), nontrivial=False)
    w = ctx.func('type.useful.TimeMixIn.fromDateTime')
    fmts = sorted(set(x.value for n in list(walk_own(f.node)) + list(walk_own(w.node)) for x in ast.walk(n)
                      if isinstance(x, ast.Constant) and isinstance(x.value, str) and x.value.startswith('%') and 'm%d' in x.value))
    ctx.ob('A11.parse', f, 'writer and reader use the same calendar formats', fmts == ['%Y%m%d%H%M%S', '%y%m%d%H%M%S'], str(fmts))
    # writer: the literal Z is written exactly where the offset is known to be absent / zero
    wcfg = ctx.cfg(w)
    wrd = reaching_defs(wcfg, w.params())
    offs = ['dt.utcoffset()'] + [d.targets[0].id for d in walk_own(w.node) if isinstance(d, ast.Assign) and isinstance(d.targets[0], ast.Name)
                                 and norm(d.value).endswith('.utcoffset()')]
    zs = [n for n in wcfg.stmt_nodes() if n.kind in ('stmt', 'return') and n.ast is not None and
          any(isinstance(c_, ast.Constant) and c_.value == 'Z' for c_ in ast.walk(n.ast))]
    ok = bool(zs) and all(any(known_at(wcfg, n, a, False, wrd) for a in offs) for n in zs)
    ctx.ob('A11.parse', w, 'a datetime without offset (or with offset 0) is written with Z', ok, '')
