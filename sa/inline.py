"""Undoing two clean-up refactorings before the rules look at a module.

(1) Helper extraction.  A function or method the reference tree does not have, that is not a generator, does not call
    itself, and whose every `return` is in tail position (after early exits are written as if/else), is inlined at each
    call site inside the same module: `T = h(a, b)` becomes the body of `h` with the parameters replaced by the arguments
    and `return E` replaced by `T = E`.  Inlining a statically resolved call is behaviour-preserving; the conditions below
    make sure the call IS statically resolved (module-level name, or a `self.` / `cls.` / `Class.` attribute naming a
    method defined in the same class) and that moving the call in front of its statement does not reorder effects (the
    statement contains no other call).

(2) Named conditions.  `flag = <comparison / boolean combination of call-free operands>` bound once, whose operands are
    not re-bound afterwards, is substituted at its uses (the reference tree has no such local).

Both are applied only to code the reference tree (sa/localnames.json) does not know; whatever cannot be undone safely is
left as it is.
"""
import ast

_SCOPES = (ast.FunctionDef, ast.AsyncFunctionDef, ast.Lambda, ast.ClassDef)
_PURE_BUILTINS = ('len', 'isinstance', 'ord', 'int', 'oct2int', 'tuple', 'list', 'max', 'min', 'abs', 'bool', 'type', 'str2octs',
                  'int2oct', 'ints2octs', 'octs2ints', 'null')


def _clone(node):
    if isinstance(node, ast.expr):
        return ast.parse(ast.unparse(node), mode='eval').body
    return ast.parse(ast.unparse(node)).body[0]


def _walk_own(stmts):
    stack = list(stmts)
    while stack:
        n = stack.pop()
        yield n
        if isinstance(n, _SCOPES):
            continue
        stack.extend(ast.iter_child_nodes(n))


def _elseify(body):
    """if c: ...return/raise; rest  ->  if c: ...return/raise else: rest  (recursively); returns a new list."""
    out = []
    for i, s in enumerate(body):
        for f in ('body', 'orelse'):
            b = getattr(s, f, None)
            if isinstance(b, list) and b and isinstance(b[0], ast.stmt) and not isinstance(s, _SCOPES):
                setattr(s, f, _elseify(b))
        for h in getattr(s, 'handlers', []) or []:
            h.body = _elseify(h.body)
        if isinstance(s, ast.If) and not s.orelse and s.body and _ends_in_exit(s.body) and i + 1 < len(body):
            s.orelse = _elseify(body[i + 1:])
            out.append(s)
            return out
        if isinstance(s, ast.Try) and not s.orelse and not s.finalbody and s.handlers and i + 1 < len(body) and \
                all(_ends_in_exit(h.body) for h in s.handlers) and not _ends_in_exit(s.body):
            # `try: X except E: return a` / rest  ->  `try: X except E: return a else: rest`
            s.orelse = _elseify(body[i + 1:])
            out.append(s)
            return out
        out.append(s)
    return out


def _ends_in_exit(block):
    if not block:
        return False
    last = block[-1]
    if isinstance(last, (ast.Return, ast.Raise)):
        return True
    if isinstance(last, ast.If):
        return bool(last.orelse) and _ends_in_exit(last.body) and _ends_in_exit(last.orelse)
    if isinstance(last, ast.Try):
        return not last.finalbody and _ends_in_exit(last.body if not last.orelse else last.orelse) and \
            all(_ends_in_exit(h.body) for h in last.handlers)
    return False


def _returns_in_tail(block, top=True):
    """True if every Return of the block is the last statement of a branch that nothing follows."""
    for i, s in enumerate(block):
        lastp = i == len(block) - 1
        if isinstance(s, ast.Return):
            if not lastp:
                return False
        elif isinstance(s, ast.If):
            has = any(isinstance(x, ast.Return) for x in _walk_own([s]))
            if has and not lastp:
                return False
            if not _returns_in_tail(s.body, False) or not _returns_in_tail(s.orelse, False):
                return False
        elif isinstance(s, ast.Try):
            has = any(isinstance(x, ast.Return) for x in _walk_own([s]))
            if has and (not lastp or s.finalbody):
                return False
            for b in [s.body, s.orelse] + [h.body for h in s.handlers]:
                if not _returns_in_tail(b, False):
                    return False
        elif isinstance(s, (ast.For, ast.While, ast.With)):
            if any(isinstance(x, ast.Return) for x in _walk_own([s])):
                return False
    return True


def _all_paths_return_or_none(block):
    """Every path through the block ends in a return/raise, or no path returns a value at all."""
    rets = [x for x in _walk_own(block) if isinstance(x, ast.Return) and x.value is not None]
    if not rets:
        return True
    return _ends_in_exit(block)


class Helper(object):
    def __init__(self, key, node, cls=None):
        self.key, self.node, self.cls = key, node, cls
        a = node.args
        self.params = [x.arg for x in a.posonlyargs + a.args]
        self.kind = 'function'
        decos = [ast.unparse(d) for d in node.decorator_list]
        if cls is not None:
            self.kind = 'static' if 'staticmethod' in decos else ('class' if 'classmethod' in decos else 'method')
        self.ok = self._eligible(decos)

    def _eligible(self, decos):
        n = self.node
        a = n.args
        if a.vararg or a.kwarg or a.kwonlyargs or a.kw_defaults:
            return False
        if any(not isinstance(d, ast.Constant) for d in a.defaults):
            return False
        self.defaults = dict(zip(self.params[len(self.params) - len(a.defaults):], a.defaults)) if a.defaults else {}
        if any(d not in ('staticmethod', 'classmethod') for d in decos):
            return False
        self.is_gen = False
        for x in _walk_own(n.body):
            if isinstance(x, (ast.Await, ast.Global, ast.Nonlocal)):
                return False
            if isinstance(x, (ast.Yield, ast.YieldFrom)):
                # a generator helper: inlined only where it is delegated to with `yield from` (its yields become the
                # caller's yields, its `return E` the value of the `yield from` expression)
                self.is_gen = True
            if isinstance(x, _SCOPES):
                return False
            if isinstance(x, ast.Call):
                t = ast.unparse(x.func)
                if t == n.name or t.endswith('.' + n.name):
                    return False
        body = _elseify([_clone(s) for s in n.body if not (isinstance(s, ast.Expr) and isinstance(s.value, ast.Constant))])
        if not _returns_in_tail(body) or not _all_paths_return_or_none(body):
            return False
        self.body = body
        self.returns_value = any(isinstance(x, ast.Return) and x.value is not None for x in _walk_own(body))
        return True


def find_helpers(tree, known_functions):
    """Helpers = defs of this module the reference tree does not list."""
    out = {}
    for s in tree.body:
        if isinstance(s, ast.FunctionDef) and s.name not in known_functions:
            h = Helper(s.name, s)
            if h.ok:
                out[('', s.name)] = h
        elif isinstance(s, ast.ClassDef):
            for m in s.body:
                if isinstance(m, ast.FunctionDef) and ('%s.%s' % (s.name, m.name)) not in known_functions:
                    h = Helper('%s.%s' % (s.name, m.name), m, s.name)
                    if h.ok:
                        out[(s.name, m.name)] = h
    return out


def _resolve(call, helpers, cls_name, class_bases):
    f = call.func
    if isinstance(f, ast.Name):
        return helpers.get(('', f.id)), None
    if isinstance(f, ast.Attribute) and isinstance(f.value, ast.Name):
        recv = f.value.id
        if recv in ('self', 'cls') and cls_name is not None:
            for c in [cls_name] + class_bases.get(cls_name, []):
                h = helpers.get((c, f.attr))
                if h is not None:
                    return h, recv
        h = helpers.get((recv, f.attr))
        if h is not None:
            return h, recv
        if f.attr.startswith('_') and not f.attr.startswith('__'):
            # a new private method called on another object: resolved when exactly one class of the module defines it (the
            # receiver then has to be an instance of that class, or the call would fail)
            cands = [h for (c, n), h in helpers.items() if n == f.attr and c and h.kind == 'method']
            if len(cands) == 1:
                return cands[0], recv
    return None, None


def _subst_names(stmts, mapping):
    for s in stmts:
        for x in ast.walk(s):
            if isinstance(x, ast.Name) and x.id in mapping:
                m = mapping[x.id]
                if isinstance(m, str):
                    x.id = m
                elif isinstance(x.ctx, ast.Load):
                    new = _clone(m)
                    x.__class__ = new.__class__
                    x.__dict__.clear()
                    x.__dict__.update(new.__dict__)


def _convert_returns(block, make_assign):
    for i, s in enumerate(block):
        if isinstance(s, ast.Return):
            if s.value is None:
                block[i] = ast.Pass()
            else:
                block[i] = make_assign(s.value)
        else:
            for f in ('body', 'orelse'):
                b = getattr(s, f, None)
                if isinstance(b, list) and b and isinstance(b[0], ast.stmt):
                    _convert_returns(b, make_assign)
            for h in getattr(s, 'handlers', []) or []:
                _convert_returns(h.body, make_assign)


def _simple_arg(e):
    if isinstance(e, (ast.Name, ast.Constant)):
        return True
    if isinstance(e, ast.Attribute):
        return _simple_arg(e.value)
    return False


def inline_helpers(tree, known_functions):
    """Inline calls of new helpers; returns descriptions of what was done."""
    helpers = find_helpers(tree, known_functions)
    if not helpers:
        return []
    class_bases = {}
    for s in tree.body:
        if isinstance(s, ast.ClassDef):
            class_bases[s.name] = [b.id for b in s.bases if isinstance(b, ast.Name)]
    done = []

    def process(fn, cls_name):
        if any(h.node is fn for h in helpers.values()):
            return
        caller_names = set(x.id for x in _walk_own(fn.body) if isinstance(x, ast.Name)) | set(a.arg for a in fn.args.args)

        def rec(block):
            i = 0
            while i < len(block):
                s = block[i]
                if isinstance(s, _SCOPES):
                    i += 1
                    continue
                for f in ('body', 'orelse', 'finalbody'):
                    b = getattr(s, f, None)
                    if isinstance(b, list) and b and isinstance(b[0], ast.stmt):
                        rec(b)
                for h in getattr(s, 'handlers', []) or []:
                    rec(h.body)
                if isinstance(s, ast.If):
                    t_ = s.test
                    neg_ = isinstance(t_, ast.UnaryOp) and isinstance(t_.op, ast.Not)
                    c_ = t_.operand if neg_ else t_
                    hit_ = _resolve(c_, helpers, cls_name, class_bases)[0] if isinstance(c_, ast.Call) else None
                    if hit_ is not None and hit_.returns_value:
                        # `if h(a):` -> `_r = h(a)` / `if _r:` ; the assignment is then inlined by the code below
                        rv_ = '_t_%s' % hit_.node.name.strip('_')
                        asg = ast.Assign(targets=[ast.Name(id=rv_, ctx=ast.Store())], value=c_, lineno=s.lineno, col_offset=s.col_offset)
                        asg.end_lineno, asg.end_col_offset = s.lineno, s.col_offset
                        nm = ast.Name(id=rv_, ctx=ast.Load(), lineno=s.lineno, col_offset=s.col_offset)
                        s.test = ast.UnaryOp(op=ast.Not(), operand=nm, lineno=s.lineno, col_offset=s.col_offset) if neg_ else nm
                        block.insert(i, asg)
                        s = asg
                if not isinstance(s, (ast.Assign, ast.AugAssign, ast.Expr, ast.Return)):
                    i += 1
                    continue
                calls = [c for c in ast.walk(s) if isinstance(c, ast.Call)]
                hits = [(c,) + _resolve(c, helpers, cls_name, class_bases) for c in calls]
                hits = [(c, h, recv) for c, h, recv in hits if h is not None]
                # `yield from h(...)` / `x = yield from h(...)` as the whole statement: the delegation plays the call
                yf = isinstance(s, (ast.Assign, ast.Expr)) and isinstance(s.value, ast.YieldFrom) and \
                    isinstance(s.value.value, ast.Call) and any(c is s.value.value for c, _, _ in hits)
                if any(h.is_gen for _, h, _ in hits) and not (yf and len(hits) == 1 and hits[0][1].is_gen):
                    i += 1
                    continue
                if yf and not hits[0][1].is_gen:
                    i += 1
                    continue
                if yf:
                    s.value = s.value.value          # from here on the statement reads `x = h(...)` / `h(...)`
                if len(hits) != 1:
                    i += 1
                    continue
                call, h, recv = hits[0]
                others = [c for c in calls if c is not call]

                def harmless(c):
                    # an effect-free builtin, or a call that has the helper call among its arguments while everything
                    # evaluated before the helper call (callee, earlier arguments) is call-free: moving the helper's body in
                    # front of the statement does not reorder any effect
                    if isinstance(c.func, ast.Name) and c.func.id in _PURE_BUILTINS:
                        return True
                    parts = [c.func] + list(c.args) + [k.value for k in c.keywords]
                    holder = [p_ for p_ in parts if any(x is call for x in ast.walk(p_))]
                    if len(holder) != 1 or holder[0] is c.func:
                        return False
                    for p_ in parts:
                        if p_ is holder[0]:
                            break
                        if any(isinstance(x, ast.Call) for x in ast.walk(p_)):
                            return False
                    return True
                if any(not harmless(c) for c in others):
                    i += 1
                    continue
                if call.keywords and any(k.arg is None for k in call.keywords):
                    i += 1
                    continue
                params = list(h.params)
                args = list(call.args)
                if h.kind in ('method', 'class'):
                    if recv not in ('self', 'cls') and h.kind != 'method':
                        i += 1
                        continue
                    args = [ast.Name(id=recv, ctx=ast.Load())] + args
                amap = dict(zip(params, args))
                for k in call.keywords:
                    amap[k.arg] = k.value
                for p_, d_ in getattr(h, 'defaults', {}).items():
                    amap.setdefault(p_, d_)
                if set(amap) != set(params) or len(args) > len(params):
                    i += 1
                    continue
                body = [_clone(x) for x in h.body]
                stored = set(x.id for x in _walk_own(body) if isinstance(x, ast.Name) and isinstance(x.ctx, ast.Store))
                pre = []
                mapping = {}
                for p in params:
                    a = amap[p]
                    if p not in stored and _simple_arg(a):
                        mapping[p] = a
                    elif isinstance(a, ast.Name) and a.id == p:
                        continue                      # same name on both sides: the caller's variable plays the parameter
                    elif isinstance(a, ast.Name) and _dead_after(fn, a.id, s) and a.id not in stored and \
                            sum(1 for q in params if isinstance(amap[q], ast.Name) and amap[q].id == a.id) == 1:
                        mapping[p] = a.id             # the caller's variable is not read again: it may play the parameter
                    else:
                        nm = p if p not in caller_names else '%s__%s' % (p, h.node.name.strip('_'))
                        if nm != p:
                            mapping[p] = nm
                        pre.append(ast.Assign(targets=[ast.Name(id=nm, ctx=ast.Store())], value=_clone(a), lineno=s.lineno))
                # helper locals that collide with names of the caller get a suffix
                for v in sorted(stored - set(params)):
                    if v not in caller_names:
                        continue
                    if isinstance(s, ast.Assign) and v in [x.id for t in s.targets for x in ast.walk(t)
                                                           if isinstance(x, ast.Name) and isinstance(x.ctx, ast.Store)]:
                        continue                      # the statement itself overwrites it
                    if not _live_after(fn, v, s):
                        continue                      # what the caller held in it is never read again
                    mapping[v] = '%s__%s' % (v, h.node.name.strip('_'))
                _subst_names(body, mapping)
                whole = isinstance(s, ast.Assign) and s.value is call and len(s.targets) == 1
                if not h.returns_value or (yf and isinstance(s, ast.Expr)):
                    if not (isinstance(s, ast.Expr) and s.value is call):
                        i += 1
                        continue
                    _convert_returns(body, lambda e: ast.Expr(value=e, lineno=s.lineno))
                    new = pre + body
                elif whole:
                    tgt = s.targets[0]
                    _convert_returns(body, lambda e: ast.Assign(targets=[_clone_target(tgt)], value=e, lineno=s.lineno))
                    new = pre + body
                elif isinstance(body[-1], ast.Return) and isinstance(body[-1].value, ast.Name) and \
                        sum(1 for x in _walk_own(body) if isinstance(x, ast.Return)) == 1:
                    # the helper ends in `return <local>`: the call is that local
                    rn = body[-1].value.id
                    body.pop()
                    call.__class__ = ast.Name
                    call.__dict__.clear()
                    call.__dict__.update({'id': rn, 'ctx': ast.Load()})
                    new = pre + body + [s]
                else:
                    rv = '_r_%s' % h.node.name.strip('_')
                    _convert_returns(body, lambda e: ast.Assign(targets=[ast.Name(id=rv, ctx=ast.Store())], value=e, lineno=s.lineno))
                    call.__class__ = ast.Name
                    call.__dict__.clear()
                    call.__dict__.update({'id': rv, 'ctx': ast.Load()})
                    new = pre + body + [s]
                new = [x for x in new if not isinstance(x, ast.Pass)] or [ast.Pass()]
                for x in new:
                    for y in ast.walk(x):
                        if hasattr(y, 'lineno') or isinstance(y, (ast.stmt, ast.expr)):
                            y.lineno = s.lineno
                            y.col_offset = getattr(s, 'col_offset', 0)
                            y.end_lineno = getattr(s, 'end_lineno', s.lineno)
                            y.end_col_offset = getattr(s, 'end_col_offset', 0)
                block[i:i + 1] = new
                _CFGS.pop(id(fn), None)
                done.append('call of helper %s inlined in %s' % (h.key, fn.name))
                i += len(new)
        rec(fn.body)

    for s in list(tree.body):
        if isinstance(s, ast.FunctionDef):
            process(s, None)
        elif isinstance(s, ast.ClassDef):
            for m in s.body:
                if isinstance(m, ast.FunctionDef):
                    process(m, s.name)
    # module-level code (the table-building loops of the codec modules) may call a new module-level helper too
    if any(k[0] == '' for k in helpers):
        pseudo = ast.FunctionDef(name='<module>', args=ast.arguments(posonlyargs=[], args=[], vararg=None, kwonlyargs=[], kw_defaults=[],
                                                                       kwarg=None, defaults=[]),
                                 body=tree.body, decorator_list=[], returns=None, lineno=1, col_offset=0)
        process(pseudo, None)
    return done


def _live_after(fn, name, stmt):
    """May the value `name` holds when `stmt` starts be read after `stmt`?  (flow-sensitive; True when in doubt)"""
    try:
        from sa.cfg import CFG, node_defs, node_exprs
        key = id(fn)
        g = _CFGS.get(key)
        if g is None or g[0] is not fn:
            g = (fn, CFG(fn))
            _CFGS[key] = g
        g = g[1]
        start = g.node_of.get(stmt)
        if start is None:
            return True
        seen = set()
        stack = [x for x, _ in start.succs]
        while stack:
            n = stack.pop()
            if n in seen:
                continue
            seen.add(n)
            if n.ast is not None:
                for e in node_exprs(n):
                    for x in ast.walk(e):
                        if isinstance(x, ast.Name) and x.id == name and isinstance(x.ctx, ast.Load):
                            return True
                        if isinstance(x, (ast.Lambda, ast.ListComp, ast.GeneratorExp, ast.DictComp, ast.SetComp)):
                            pass
                if isinstance(n.ast, (ast.FunctionDef, ast.ClassDef)) and any(
                        isinstance(x, ast.Name) and x.id == name for x in ast.walk(n.ast)):
                    return True
                if name in node_defs(n) and n.kind == 'stmt' and not isinstance(n.ast, ast.AugAssign):
                    continue
            stack.extend(x for x, _ in n.succs)
        return False
    except Exception:
        return True


_CFGS = {}


def _dead_after(fn, name, stmt):
    """No read of `name` after `stmt` (textually), or `stmt` sits in a for loop that rebinds `name` and no read follows
    inside that loop."""
    later = [x for x in _walk_own(fn.body) if isinstance(x, ast.Name) and x.id == name and isinstance(x.ctx, ast.Load)
             and x.lineno > getattr(stmt, 'end_lineno', stmt.lineno)]
    if not later:
        # a read earlier in an enclosing loop would see the modified value on the next iteration unless rebound
        for lp in [x for x in _walk_own(fn.body) if isinstance(x, (ast.For, ast.While))]:
            if any(y is stmt for y in ast.walk(lp)):
                rebinds = isinstance(lp, ast.For) and name in [t.id for t in ast.walk(lp.target) if isinstance(t, ast.Name)]
                reads = [x for x in ast.walk(lp) if isinstance(x, ast.Name) and x.id == name and isinstance(x.ctx, ast.Load)
                         and not any(x is y for y in ast.walk(stmt))]
                if reads and not rebinds:
                    return False
        return True
    for lp in [x for x in _walk_own(fn.body) if isinstance(x, ast.For)]:
        if any(y is stmt for y in ast.walk(lp)) and name in [t.id for t in ast.walk(lp.target) if isinstance(t, ast.Name)]:
            inner_later = [x for x in later if any(x is y for y in ast.walk(lp))]
            outer_later = [x for x in later if x not in inner_later]
            if not inner_later and not outer_later:
                return True
    return False


def _clone_target(t):
    n = ast.parse(ast.unparse(t) + ' = 0').body[0].targets[0]
    return n


# ---------------------------------------------------------------------------------------------------- named conditions

def _pure_condition(e):
    if isinstance(e, (ast.Name, ast.Constant)):
        return True
    if isinstance(e, ast.Attribute):
        return _pure_condition(e.value)
    if isinstance(e, ast.Subscript):
        return _pure_condition(e.value) and isinstance(e.slice, (ast.Name, ast.Constant))
    if isinstance(e, ast.BoolOp):
        return all(_pure_condition(v) for v in e.values)
    if isinstance(e, ast.UnaryOp):
        return _pure_condition(e.operand)
    if isinstance(e, ast.BinOp):
        return _pure_condition(e.left) and _pure_condition(e.right)
    if isinstance(e, ast.Compare):
        return _pure_condition(e.left) and all(_pure_condition(c) for c in e.comparators)
    if isinstance(e, ast.Call):
        return isinstance(e.func, ast.Name) and e.func.id in ('len', 'isinstance') and not e.keywords and \
            all(_pure_condition(a) for a in e.args)
    return False


def inline_named_conditions(fn, known):
    """Substitute single-assignment condition locals the reference tree does not have."""
    done = []
    nodes = list(_walk_own(fn.body))
    assigns = [s for s in nodes if isinstance(s, ast.Assign) and len(s.targets) == 1 and isinstance(s.targets[0], ast.Name)]
    loops = [s for s in nodes if isinstance(s, (ast.For, ast.While))]
    for s in assigns:
        v = s.targets[0].id
        if v in known or not isinstance(s.value, (ast.Compare, ast.BoolOp, ast.UnaryOp)) or not _pure_condition(s.value):
            continue
        stores = [x for x in nodes if isinstance(x, ast.Name) and x.id == v and isinstance(x.ctx, ast.Store)]
        loads = [x for x in nodes if isinstance(x, ast.Name) and x.id == v and isinstance(x.ctx, ast.Load)]
        if len(stores) != 1 or not loads:
            continue
        if any(x.lineno < s.lineno for x in loads):
            continue
        operands = set(x.id for x in ast.walk(s.value) if isinstance(x, ast.Name))
        last = max(x.lineno for x in loads)
        bad = False
        for x in nodes:
            if isinstance(x, ast.Name) and isinstance(x.ctx, ast.Store) and x.id in operands:
                if s.lineno < x.lineno <= last:
                    bad = True
                # a store before the definition inside a loop that does not contain the definition but contains a use
                for lp in loops:
                    inside = set(id(y) for y in ast.walk(lp))
                    if id(x) in inside and id(s) not in inside and any(id(u) in inside for u in loads):
                        bad = True
            if isinstance(x, (ast.AugAssign,)) and isinstance(x.target, ast.Name) and x.target.id in operands and s.lineno < x.lineno <= last:
                bad = True
        if bad:
            continue
        # attribute operands: no call statement between definition and last use may be assumed to mutate them; we
        # accept attribute reads of locals only when the flag is used within the same loop iteration / straight code
        for u in loads:
            new = _clone(s.value)
            for y in ast.walk(new):
                y.lineno = u.lineno
                y.col_offset = u.col_offset
                y.end_lineno = getattr(u, 'end_lineno', u.lineno)
                y.end_col_offset = getattr(u, 'end_col_offset', 0)
            u.__class__ = new.__class__
            u.__dict__.clear()
            u.__dict__.update(new.__dict__)
        # drop the binding
        for blk in _blocks_of(fn):
            if s in blk:
                blk.remove(s)
                if not blk:
                    blk.append(ast.Pass(lineno=s.lineno, col_offset=0))
        done.append('named condition `%s = %s` substituted at %d use(s)' % (v, ' '.join(ast.unparse(s.value).split())[:50], len(loads)))
    return done


def _blocks_of(fn):
    out = []

    def rec(stmts):
        out.append(stmts)
        for s in stmts:
            if isinstance(s, _SCOPES):
                continue
            for f in ('body', 'orelse', 'finalbody'):
                b = getattr(s, f, None)
                if isinstance(b, list) and b and isinstance(b[0], ast.stmt):
                    rec(b)
            for h in getattr(s, 'handlers', []) or []:
                rec(h.body)
    rec(fn.body)
    return out


# ------------------------------------------------------------------------------------------ loops over literal tables

def _literal(e):
    if isinstance(e, ast.Constant):
        return True
    if isinstance(e, (ast.Tuple, ast.List)):
        return all(_literal(x) for x in e.elts)
    if isinstance(e, ast.UnaryOp) and isinstance(e.op, ast.USub) and isinstance(e.operand, ast.Constant):
        return True
    return False


def _tables(tree):
    """Private names bound exactly once in the module - at module level or in a class body - to a literal tuple / list of
    literals (at most 8 rows) and never stored to anywhere else: {(class or '', name): value expression}."""
    found, stores = {}, {}
    for s in tree.body:
        scopes = [('', s)] if not isinstance(s, ast.ClassDef) else [(s.name, x) for x in s.body]
        for cname, x in scopes:
            if isinstance(x, ast.Assign) and len(x.targets) == 1 and isinstance(x.targets[0], ast.Name):
                nm = x.targets[0].id
                if nm.startswith('_') and not nm.startswith('__') and isinstance(x.value, (ast.Tuple, ast.List)) and \
                        _literal(x.value) and 0 < len(x.value.elts) <= 8:
                    found.setdefault(nm, []).append((cname, x.value))
    for n in ast.walk(tree):
        if isinstance(n, ast.Attribute) and isinstance(n.ctx, (ast.Store, ast.Del)):
            stores[n.attr] = stores.get(n.attr, 0) + 1
        elif isinstance(n, ast.Name) and isinstance(n.ctx, (ast.Store, ast.Del)):
            stores[n.id] = stores.get(n.id, 0) + 1
        elif isinstance(n, ast.Global):
            for g in n.names:
                stores[g] = stores.get(g, 0) + 2
    out = {}
    for nm, defs in found.items():
        if len(defs) == 1 and stores.get(nm, 0) == 1:
            out[(defs[0][0], nm)] = defs[0][1]
    return out


def unroll_table_loops(tree, known_functions):
    """`for a, b in <literal table>: body` (the table written in place, or a private module / class constant the
    reference tree does not have) is written out row by row, the loop variables replaced by the row's literals, and
    `getattr(x, '<name>')` read as `x.<name>`.  Only loops without break / continue / else whose variables the body does not
    store to.  Returns descriptions of what was done."""
    tables = _tables(tree)
    done = []

    def table_of(e, cls_name):
        if isinstance(e, (ast.Tuple, ast.List)) and _literal(e) and 0 < len(e.elts) <= 8:
            return e
        if isinstance(e, ast.Name):
            return tables.get(('', e.id))
        if isinstance(e, ast.Attribute) and isinstance(e.value, ast.Name):
            if e.value.id in ('self', 'cls'):
                cands = [v for (c, n), v in tables.items() if n == e.attr and c]
                return cands[0] if len(cands) == 1 else None
            return tables.get((e.value.id, e.attr))
        return None

    def unroll(block, cls_name, fname):
        i = 0
        while i < len(block):
            s = block[i]
            if isinstance(s, _SCOPES):
                i += 1
                continue
            for f in ('body', 'orelse', 'finalbody'):
                b = getattr(s, f, None)
                if isinstance(b, list) and b and isinstance(b[0], ast.stmt):
                    unroll(b, cls_name, fname)
            for h in getattr(s, 'handlers', []) or []:
                unroll(h.body, cls_name, fname)
            if not isinstance(s, ast.For) or s.orelse:
                i += 1
                continue
            tab = table_of(s.iter, cls_name)
            if tab is None:
                i += 1
                continue
            own = list(_walk_own(s.body))
            if any(isinstance(x, (ast.Break, ast.Continue, ast.Yield, ast.YieldFrom)) and not _inside_inner_loop(x, s) for x in own):
                i += 1
                continue
            tnames = [t.id for t in ast.walk(s.target) if isinstance(t, ast.Name)]
            if not all(isinstance(t, (ast.Name, ast.Tuple, ast.List, ast.expr_context)) for t in ast.walk(s.target)):
                i += 1
                continue
            if any(isinstance(x, ast.Name) and x.id in tnames and isinstance(x.ctx, (ast.Store, ast.Del)) for x in own):
                i += 1
                continue
            new = []
            ok = True
            for row in tab.elts:
                mapping = {}
                if isinstance(s.target, ast.Name):
                    mapping[s.target.id] = row
                elif isinstance(row, (ast.Tuple, ast.List)) and len(row.elts) == len(s.target.elts) and \
                        all(isinstance(t, ast.Name) for t in s.target.elts):
                    for t, v in zip(s.target.elts, row.elts):
                        mapping[t.id] = v
                else:
                    ok = False
                    break
                body = [_clone(x) for x in s.body]
                _subst_names(body, mapping)
                for x in body:
                    for c in ast.walk(x):
                        if isinstance(c, ast.Call) and isinstance(c.func, ast.Name) and c.func.id == 'getattr' and len(c.args) == 2 and \
                                not c.keywords and isinstance(c.args[1], ast.Constant) and isinstance(c.args[1].value, str) and \
                                c.args[1].value.isidentifier():
                            obj, nm = c.args[0], c.args[1].value
                            c.__class__ = ast.Attribute
                            c.__dict__.clear()
                            c.__dict__.update({'value': obj, 'attr': nm, 'ctx': ast.Load()})
                new.extend(body)
            if not ok:
                i += 1
                continue
            # after the loop the variables hold the last row
            last = tab.elts[-1]
            tail = ast.Assign(targets=[_clone_target(s.target)], value=_clone(last), lineno=s.lineno)
            if _live_names_after(block, i, tnames):
                new.append(tail)
            for x in new:
                for y in ast.walk(x):
                    if isinstance(y, (ast.stmt, ast.expr)):
                        y.lineno = s.lineno
                        y.col_offset = getattr(s, 'col_offset', 0)
                        y.end_lineno = getattr(s, 'end_lineno', s.lineno)
                        y.end_col_offset = getattr(s, 'end_col_offset', 0)
            block[i:i + 1] = new
            done.append('loop over a literal table of %d row(s) written out in %s' % (len(tab.elts), fname))
            i += len(new)

    for s in tree.body:
        if isinstance(s, ast.FunctionDef):
            unroll(s.body, None, s.name)
        elif isinstance(s, ast.ClassDef):
            for m in s.body:
                if isinstance(m, ast.FunctionDef):
                    unroll(m.body, s.name, '%s.%s' % (s.name, m.name))
    return done


def _inside_inner_loop(x, loop):
    for inner in ast.walk(loop):
        if inner is not loop and isinstance(inner, (ast.For, ast.While)) and any(y is x for y in ast.walk(inner)):
            return True
    return False


def _live_names_after(block, i, names):
    """Conservative: is any of `names` read textually after statement i of this block (or could be: we only look at the rest of
    the block; enclosing blocks are not visible here, so answer True when the block is not a function body's tail)."""
    for s in block[i + 1:]:
        for x in ast.walk(s):
            if isinstance(x, ast.Name) and x.id in names and isinstance(x.ctx, ast.Load):
                return True
    return False


# ------------------------------------------------------------------------------------------ constant keyword bundles

def expand_constant_kwargs(tree):
    """`f(a, **self.FLAGS)` where FLAGS is a module / class constant bound exactly once to a dict literal of string keys
    and literal values (and never stored to otherwise) is read as `f(a, k1=v1, k2=v2)`: the same call.  Returns
    descriptions of what was done."""
    found, stores = {}, {}
    for s in tree.body:
        scopes = [('', s)] if not isinstance(s, ast.ClassDef) else [(s.name, x) for x in s.body]
        for cname, x in scopes:
            if isinstance(x, ast.Assign) and len(x.targets) == 1 and isinstance(x.targets[0], ast.Name) and isinstance(x.value, ast.Dict):
                nm = x.targets[0].id
                if (nm.startswith('_') or nm.isupper()) and x.value.keys and all(
                        isinstance(k, ast.Constant) and isinstance(k.value, str) and k.value.isidentifier() for k in x.value.keys) and \
                        all(_literal(v) for v in x.value.values):
                    found.setdefault(nm, []).append((cname, x.value))
            elif isinstance(x, ast.Assign) and len(x.targets) == 1 and isinstance(x.targets[0], ast.Name) and \
                    isinstance(x.value, ast.Call) and isinstance(x.value.func, ast.Name) and x.value.func.id == 'dict' and not x.value.args and \
                    x.value.keywords and all(k.arg and _literal(k.value) for k in x.value.keywords):
                nm = x.targets[0].id
                if nm.startswith('_') or nm.isupper():
                    d = ast.Dict(keys=[ast.Constant(value=k.arg) for k in x.value.keywords], values=[k.value for k in x.value.keywords])
                    found.setdefault(nm, []).append((cname, d))
    if not found:
        return []
    for n in ast.walk(tree):
        if isinstance(n, ast.Attribute) and isinstance(n.ctx, (ast.Store, ast.Del)):
            stores[n.attr] = stores.get(n.attr, 0) + 1
        elif isinstance(n, ast.Name) and isinstance(n.ctx, (ast.Store, ast.Del)):
            stores[n.id] = stores.get(n.id, 0) + 1
        elif isinstance(n, ast.Subscript) and isinstance(n.ctx, (ast.Store, ast.Del)):
            b = n.value
            nm = b.attr if isinstance(b, ast.Attribute) else (b.id if isinstance(b, ast.Name) else None)
            if nm:
                stores[nm] = stores.get(nm, 0) + 2
        elif isinstance(n, ast.Call) and isinstance(n.func, ast.Attribute) and n.func.attr in ('update', 'pop', 'setdefault', 'clear', 'popitem'):
            b = n.func.value
            nm = b.attr if isinstance(b, ast.Attribute) else (b.id if isinstance(b, ast.Name) else None)
            if nm:
                stores[nm] = stores.get(nm, 0) + 2
    consts = dict((nm, defs[0]) for nm, defs in found.items() if len(defs) == 1 and stores.get(nm, 0) == 1)
    done = []
    for c in ast.walk(tree):
        if not isinstance(c, ast.Call):
            continue
        new = []
        changed = False
        for k in c.keywords:
            nm = None
            if k.arg is None:
                v = k.value
                if isinstance(v, ast.Name) and v.id in consts and consts[v.id][0] == '':
                    nm = v.id
                elif isinstance(v, ast.Attribute) and isinstance(v.value, ast.Name) and v.attr in consts and consts[v.attr][0]:
                    nm = v.attr
            if nm is None:
                new.append(k)
                continue
            d = consts[nm][1]
            given = set(x.arg for x in c.keywords if x.arg)
            if any(kk.value in given for kk in d.keys):
                new.append(k)
                continue
            for kk, vv in zip(d.keys, d.values):
                kw = ast.keyword(arg=kk.value, value=_clone(vv))
                ast.copy_location(kw, k.value)
                ast.copy_location(kw.value, k.value)
                new.append(kw)
            changed = True
        if changed:
            c.keywords = new
            ast.fix_missing_locations(c)
            done.append('constant keyword bundle written out at line %d' % getattr(c, 'lineno', 0))
    return done
