"""Property -> rule instances, instance-count floors, and what each check decides."""
from sa.rules import tables as T
from sa.rules import genproto as G
from sa.rules import excflow as X

PROPS = {}

COMMON_ASSUME = [
    'only the Python-3 / CPython arms of sys.version_info tests are analysed',
    'callers do not pass their own tagMap/typeMap/substrateFun options (the properties quantify over inputs, not over codec options)',
    'the analyser itself (sa/) and its frozen slot bindings / reasoning entries, each printed with its reason',
]


def prop(pid, rules, explanation, minimum=None, assumptions=None):
    PROPS[pid] = {'rules': rules, 'explanation': explanation, 'min': minimum or {},
                  'assumptions': COMMON_ASSUME + (assumptions or [])}


prop('C01',
     [T.rule_lookup_shape, T.rule_chain, T.rule_total_ber, T.rule_pair_ber, T.rule_fragment_tag_ber],
     'Static necessary conditions of the BER round trip: every type class has an encoder by type and a decoder by type, '
     'writer and reader of each type belong to the same codec family, string segments are tagged by the writer as the '
     'reader demands and as X.690 8.23.6 says.  Content-octet arithmetic and value equality are not decided.',
     {'A1.total': 60, 'A1.pair': 80, 'A7.tag': 30, 'A1.chain': 12, 'A1.lookup': 5})

prop('C02',
     [T.rule_chain, T.rule_derived, T.rule_total_canon, T.rule_pair_canon, T.rule_modes, T.rule_keykind,
      T.rule_fragment_tag_canon],
     'CER/DER tables are derived from and total w.r.t. BER, fixed encoder modes match X.690 9/10, codec families pair up, '
     'string segments agree between CER writer and every reader.  Equality of decoded values is not decided.',
     {'A1.total': 120, 'A1.pair': 150, 'A1.modes': 8, 'A1.derived': 8, 'A7.tag': 60})

prop('C03', [T.rule_x680, T.rule_modes, T.rule_canonical_sort_registered],
     'Universal tag numbers, class/format constants, end-of-octets octets and the canonical encoder modes are compared '
     'with an independent X.680/X.690 table; byte identity is not decided.',
     {'A1.x680': 35, 'A1.modes': 8, 'A9.reg': 4})

prop('C05',
     [G.rule_slots, G.rule_prod, G.rule_retry, G.rule_cons, G.rule_last, G.rule_drop, G.rule_reads_confined],
     'Underrun-generator protocol, logging off: every producer suspends position-neutrally and repeats its read; every '
     'consumer loop forwards underrun objects untouched and runs nothing else on them; the result is the last item and '
     'nothing follows it.  By induction on suspension points the decoder state after any arrival schedule equals that of '
     'the one-shot run.  tell()-difference arithmetic is not decided.',
     {'A2.cons': 50, 'A2.prod': 70, 'A2.retry': 4, 'A2.last': 50, 'A2.slot': 3, 'A2.drop': 12, 'A2.reads': 5})

prop('C06',
     [X.rule_hier, X.rule_trunc, G.rule_oneshot, G.rule_retry, G.rule_reads_confined, G.rule_cons],
     'Truncation is classified as insufficient data: error hierarchy, the three outcomes of a stream read, raises that '
     'depend on end-of-stream probes or short header reads, the one-shot wrapper, no stream read outside the classifying '
     'module.  That every content read is sized by the decoded length is arithmetic and not decided.',
     {'A3.hier': 7, 'A3.trunc': 3, 'A2.oneshot': 3, 'A2.retry': 4, 'A2.reads': 5})

prop('C08',
     [X.rule_raise, X.rule_tagmap_guard, X.rule_partial, X.rule_schema_index, X.rule_nonevalue, X.rule_progress],
     'Malformed input fails cleanly: every explicit raise in the decode scope is a library error (or a recorded '
     'Python-protocol raise), partial operations on wire octets are guarded, no placeholder reaches a result yield, '
     'every loop makes progress and the item decoder state graph is acyclic.  The numeric step bound is not decided.',
     {'A3.raise': 100, 'A3.partial': 18, 'A13.value': 20, 'A14.progress': 12, 'A14.states': 8, 'A3.tagmap': 4})

prop('C09', [T.rule_ber_lax, T.rule_fragment_tag_ber],
     'BER decoder stays lax where X.690 allows choice: any non-zero TRUE, constructed strings with OCTET STRING '
     'segments, indefinite lengths.',
     {'A1.lax': 35, 'A7.tag': 30})

prop('C15', [T.rule_lookup_shape, T.rule_chain, T.rule_strict],
     'Strictness switches resolved per codec x lookup path by constant evaluation of the codec tables: strict BOOLEAN '
     'accepts exactly {00, FF}, every DER string codec refuses the constructed form, DER refuses indefinite length.',
     {'A1.strict': 40, 'A1.chain': 12})

prop('C16', [T.rule_total_bytag, X.rule_nonevalue],
     'Schemaless decoding: by-tag table total over universal types; no None/placeholder reaches a result yield.',
     {'A1.total': 80, 'A13.value': 20})

prop('C17', [T.rule_total_native],
     'Native tables total over all types.', {'A1.total': 55})
