"""Property -> rule instances, instance-count floors, and what each check decides."""
from sa.rules import tables as T

PROPS = {}


def prop(pid, rules, explanation, minimum=None, assumptions=None):
    PROPS[pid] = {'rules': rules, 'explanation': explanation, 'min': minimum or {},
                  'assumptions': assumptions or []}


COMMON_ASSUME = [
    'the Python-3 / CPython arms of sys.version_info tests are the ones analysed',
    'callers do not pass their own tagMap/typeMap/substrateFun options (the properties quantify over inputs, not over codec options)',
]

prop('C01',
     [T.rule_lookup_shape, T.rule_chain, T.rule_total_ber, T.rule_pair_ber, T.rule_fragment_tag_ber],
     'placeholder', {'A1.total': 60, 'A1.pair': 80, 'A7.tag': 30})
prop('C15', [T.rule_lookup_shape, T.rule_chain, T.rule_strict], 'placeholder', {'A1.strict': 30})
prop('C03', [T.rule_x680, T.rule_modes, T.rule_canonical_sort_registered], 'placeholder', {'A1.x680': 30})
prop('C02', [T.rule_derived, T.rule_total_canon, T.rule_pair_canon, T.rule_modes, T.rule_keykind], 'placeholder', {})
prop('C09', [T.rule_ber_lax, T.rule_fragment_tag_ber], 'placeholder', {})
prop('C16', [T.rule_total_bytag], 'x', {})
prop('C17', [T.rule_total_native], 'x', {})
