"""Property -> rule instances, instance-count floors, and what each check decides."""
from sa.rules import tables as T
from sa.rules import genproto as G
from sa.rules import excflow as X
from sa.rules import guards as A
from sa.rules import misc as M
from sa.rules import shapes as S
from sa.rules import effects as E
from sa.rules import wire as W
from sa.rules import extra as Z
from sa.rules import round2 as R
from sa.rules import round3 as R3
from sa.rules import round4 as R4

PROPS = {}

COMMON_ASSUME = [
    'only the Python-3 / CPython arms of sys.version_info tests are analysed',
    'callers do not pass their own tagMap/typeMap/substrateFun options (the properties quantify over inputs, not over codec options)',
    'the analyser itself (sa/) and its frozen slot bindings / reasoning entries, each printed with its reason',
    'decides the named structural clauses (necessary conditions); value-level behaviour is declared not decided (DESIGN.md section 6)',
]


def prop(pid, rules, explanation, minimum=None, assumptions=None):
    PROPS[pid] = {'rules': rules, 'explanation': explanation, 'min': minimum or {},
                  'assumptions': COMMON_ASSUME + (assumptions or [])}


prop('C01',
     [T.rule_lookup_shape, T.rule_chain, T.rule_total_ber, T.rule_pair_ber, T.rule_fragment_tag_ber, A.rule_a7_unit,
      A.rule_a8_pairing, W.rule_encode_header, W.rule_decode_header, A.rule_c04_default, E.rule_option_latch, A.rule_a6_spec, Z.rule_encode_tag_arms, Z.rule_bits_prepend, Z.rule_option_scope, A.rule_a6_optdef, Z.rule_encode_contents, Z.rule_real_format, Z.rule_integer_octets, A.rule_c13, R.rule_real_base, R.rule_real_exponent, R3.rule_sized_length, R3.rule_segment_spec, R.rule_real_base10_exact, Z.rule_cache_key, R4.rule_item_option, R4.rule_eoo_probe_boundary, R4.rule_form_by_base_tag, R4.rule_bit_slice, R4.rule_omit_empty_modes, R4.rule_effective_tag_recurses],
     'Static necessary conditions of the BER round trip: every type class has an encoder by type and a decoder by type; '
     'writer and reader of each type belong to the same codec family; string segments are tagged by the writer as the '
     'reader demands and as X.690 8.23.6 says; chunks are slices of the measured octets; end-of-octets is appended iff '
     'an indefinite header was written; identifier/length octet guards partition the octet domain as X.690 8.1.2/8.1.3 '
     'prescribes on both sides; OPTIONAL/DEFAULT skips precede component encoding.  Content-octet arithmetic and value '
     'equality are not decided.'
     '  Also: A per-component encoder option (ifNotEmpty) is taken out of the options before they reach the component\'s own components; the end-of-octets probe is requested only at element boundaries; payload decoders read the encoding form from the base tag.'
     '  The BER record encoder does not omit empty OPTIONAL components (class constant); the effective tag set of an untagged CHOICE follows nested untagged CHOICEs.',
     {'A1.total': 60, 'A1.pair': 80, 'A7.tag': 30, 'A1.chain': 12, 'A1.lookup': 5, 'A7.unit': 3, 'A8.pair': 20,
      'W.enc': 8, 'W.dec': 10, 'C04.default': 4, 'W.realbase': 2, 'W.realexp': 3, 'W.sized': 6, 'W.segtag': 2, 'W.real10': 3, 'A5.itemopt': 2, 'A8.probe': 9, 'A6.form': 9, 'W.bitslice': 2, 'A1.omit': 2})

prop('C02',
     [T.rule_chain, T.rule_derived, T.rule_total_canon, T.rule_pair_canon, T.rule_modes, T.rule_keykind,
      T.rule_fragment_tag_canon, A.rule_a7_unit, A.rule_a8_pairing, E.rule_option_latch, A.rule_c04_default, A.rule_a6_spec, Z.rule_real_normalisation, A.rule_a6_optdef, Z.rule_integer_octets, Z.rule_bits_prepend, M.rule_a9_setof, R.rule_real_exponent, R.rule_cer_real_base, R3.rule_sized_length, R3.rule_segment_spec, R4.rule_item_option, R4.rule_segment_handover, R4.rule_eoo_probe_boundary, R4.rule_real_initialisers_normalised, R4.rule_bit_slice, A.rule_c13, R4.rule_omit_empty_modes, R4.rule_bitstring_equality],
     'CER/DER tables are derived from and total w.r.t. BER, fixed encoder modes match X.690 9/10 and override caller '
     'options, codec families pair up, string segments agree between the CER writer and every reader, end-of-octets '
     'pairs with the indefinite header.  Equality of decoded values is not decided.'
     '  Also: A per-component encoder option is not inherited by the component\'s components; the end-of-octets probe is requested only at element boundaries; the segments of a chunked string get a re-tagged spec on every path; base-10 REAL triples are normalised whatever they were initialised from.'
     '  BIT STRING equality compares value and length (it is the DEFAULT test of the canonical record encoders).',
     {'A1.total': 120, 'A1.pair': 150, 'A1.modes': 8, 'A1.derived': 8, 'A7.tag': 60, 'A8.pair': 20, 'W.realexp': 3, 'A1.cerreal': 2, 'W.sized': 6, 'W.segtag': 2, 'A5.itemopt': 2, 'W.segspec': 3, 'A8.probe': 9, 'W.real10in': 3, 'W.bitslice': 2, 'A1.omit': 2, 'W.biteq': 2})

prop('C03',
     [T.rule_x680, T.rule_modes, T.rule_canonical_sort_registered, M.rule_a9_set, M.rule_a9_setof, W.rule_encode_header,
      A.rule_a8_pairing, A.rule_c13, E.rule_option_latch, Z.rule_encode_tag_arms, Z.rule_real_normalisation, M.rule_a9_dynamic, Z.rule_encode_contents, Z.rule_real_format, Z.rule_integer_octets, R.rule_real_exponent, R.rule_cer_real_base, R4.rule_bit_segments, R4.rule_segment_handover, R4.rule_real_initialisers_normalised],
     'Compared with an independent X.680/X.690 table: universal tag numbers, class/format constants, end-of-octets '
     'octets, canonical encoder modes, TRUE = FF, identifier/length octet thresholds of the encoder, SET members '
     'ordered by the outermost tag, SET OF members sorted as zero-padded octet strings, end-of-octets iff indefinite '
     'header.  Byte identity with a reference encoder is not decided.'
     '  Also: Under CER a BIT STRING segment counts the unused-bits octet among its 1000 contents octets; segment specs are re-tagged on every path; base-10 REAL triples are normalised whatever the initialiser.',
     {'A1.x680': 35, 'A1.modes': 8, 'A9.reg': 4, 'A9.set': 4, 'A9.setof': 1, 'W.enc': 8, 'W.realexp': 3, 'A1.cerreal': 2, 'A7.bitseg': 3, 'W.segspec': 3, 'W.real10in': 3})

prop('C04',
     [T.rule_canonical_sort_registered, M.rule_a9_set, M.rule_a9_setof, A.rule_c04_default, A.rule_c04_clone,
      A.rule_a6_record_arms, Z.rule_real_normalisation, Z.rule_readers_pure, R.rule_position_order, R.rule_default_siblings, R.rule_cer_real_base, R3.rule_sized_length, Z.rule_bits_prepend, R4.rule_real_initialisers_normalised, R4.rule_copy_is_value, R4.rule_bitstring_equality],
     'History independence rests on: the canonical encoders registered for SET/SET OF do sort (by a key that does not '
     'depend on insertion order); DEFAULT components equal to their default and absent OPTIONALs are skipped before '
     'encoding in all four record loops; deep copies visit every stored component.  History independence itself '
     '(lazy placeholders never changing the bytes) is not decided.'
     '  Also: Base-10 REAL triples are normalised whatever the initialiser; the deep copy of a SEQUENCE OF value is a value (cleared before the walk, schema objects left alone).'
     '  BIT STRING equality compares value and length.',
     {'C04.default': 4, 'C04.clone': 4, 'A9.reg': 4, 'C04.optional': 4, 'A10.order': 3, 'A6.defsib': 4, 'A1.cerreal': 2, 'W.sized': 6, 'W.real10in': 3, 'C04.copyvalue': 2, 'W.biteq': 2})

prop('C05',
     [G.rule_slots, G.rule_prod, G.rule_retry, G.rule_cons, G.rule_last, G.rule_drop, G.rule_reads_confined,
      G.rule_iter_total, X.rule_trunc, Z.rule_no_next, Z.rule_position_loops, Z.rule_cache_reset, R.rule_probe_order, R3.rule_eos_poll, R3.rule_ended_exactly, R4.rule_raw_read_none, M.rule_wrapper_read, R4.rule_eos_by_position_only_inmemory],
     'Underrun-generator protocol, logging off: every producer suspends position-neutrally and repeats its read; every '
     'consumer loop forwards underrun objects untouched and runs nothing else on them; the result is the last item and '
     'nothing follows it.  By induction on suspension points the decoder state after any arrival schedule equals that of '
     'the one-shot run.  tell()-difference arithmetic is not decided.'
     '  Also: A value received from a raw read() is known not to be None wherever it is used as octets, and the wrapper\'s answer always contains the octets it took from its cache.'
     '  isEndOfStream answers by position only for an in-memory BytesIO.',
     {'A2.cons': 50, 'A2.prod': 70, 'A2.retry': 4, 'A2.last': 50, 'A2.slot': 3, 'A2.drop': 12, 'A2.reads': 5, 'A2.probe': 1, 'A2.eosloop': 1, 'A2.ended': 1, 'A12.none': 5, 'A12.cache': 3, 'A12.eospos': 1})

prop('C06',
     [X.rule_hier, X.rule_trunc, G.rule_oneshot, G.rule_retry, G.rule_reads_confined, G.rule_cons, G.rule_iter_total, Z.rule_no_next, R.rule_handler_mask, R.rule_probe_order, R3.rule_eos_poll, R3.rule_ended_exactly],
     'Truncation is classified as insufficient data: error hierarchy, the three outcomes of a stream read, raises that '
     'depend on end-of-stream probes or short header reads, the one-shot wrapper, no stream read outside the classifying '
     'module.  That every content read is sized by the decoded length is arithmetic and not decided.',
     {'A3.hier': 7, 'A3.trunc': 3, 'A2.oneshot': 3, 'A2.retry': 4, 'A2.reads': 5, 'A3.mask': 1, 'A2.probe': 1, 'A2.eosloop': 1, 'A2.ended': 1})

prop('C07',
     [A.rule_c07_len, A.rule_c07_eoo, G.rule_oneshot, G.rule_drop, A.rule_a8_pairing, G.rule_last, G.rule_iter_total, Z.rule_cache_key, Z.rule_cache_reset, Z.rule_position_loops, G.rule_retry, R3.rule_method_identity, R3.rule_eoo_identity, W.rule_encode_header, R4.rule_effective_tag_recurses, T.rule_ber_lax],
     'Exactly one encoding is consumed: consumed-vs-announced length check on every path before an item completes; the '
     'end-of-octets probe un-reads exactly what it read; remainder read from the same stream; no read result dropped; '
     'the encoder appends end-of-octets iff it wrote an indefinite header.  Numeric correctness of lengths is not decided.'
     '  The effective tag set of an untagged CHOICE follows nested untagged CHOICEs.',
     {'C07.len': 1, 'C07.eoo': 3, 'A2.oneshot': 3, 'A8.pair': 20, 'A2.drop': 12, 'A5.methid': 2, 'A8.eooid': 8, 'A10.efftag': 1})

prop('C08',
     [X.rule_raise, X.rule_tagmap_guard, X.rule_partial, X.rule_schema_index, X.rule_nonevalue, X.rule_progress,
      W.rule_content_guards, X.rule_union_attr, G.rule_iter_total, Z.rule_choice_result, Z.rule_read_size, Z.rule_bits_padding, Z.rule_real_nan, R.rule_probe_order, R.rule_real_base10_exact, R3.rule_container_cleared, X.rule_trunc, R4.rule_segment_kinds, R4.rule_strict_text_codecs, R4.rule_reflected_add_prepends, T.rule_strict],
     'Malformed input fails cleanly: every explicit raise in the decode scope is a library error (or a recorded '
     'Python-protocol raise), partial operations on wire octets are guarded, no placeholder / raw octets reach a result '
     'yield, every loop makes progress and the item decoder state graph is acyclic, the anchored format checks refuse '
     'exactly the octet values X.690 excludes.  The numeric step bound is not decided.'
     '  Also: Tables looked up with a key computed from wire octets are inside try/except or behind a membership test; string segments of mixed kind (octets / decoded objects) reach no bytes-only operation; the text codecs of the string types are strict.'
     '  Reflected addition of the string types puts the left operand first; a table keyed by a wire octet is guarded by the exception its kind raises.',
     {'A3.raise': 100, 'A3.partial': 18, 'A13.value': 20, 'A14.progress': 12, 'A14.states': 8, 'A3.tagmap': 4,
      'W.content': 15, 'A2.probe': 1, 'W.real10': 3, 'A3.segjoin': 5, 'C10.strictdec': 5, 'W.radd': 2})

prop('C09',
     [T.rule_ber_lax, T.rule_fragment_tag_ber, A.rule_a7_nested, A.rule_a6_spec, W.rule_decode_header, Z.rule_bits_prepend, Z.rule_constructed_yields, A.rule_a6_optdef, Z.rule_real_format, R3.rule_sized_length, R3.rule_method_identity, R3.rule_table_alias, R3.rule_eoo_identity, R4.rule_eoo_probe_boundary, R4.rule_segment_kinds, R4.rule_form_by_base_tag, R4.rule_zero_segments, R4.rule_required_set, R4.rule_effective_tag_recurses, R4.rule_reflected_add_prepends],
     'BER decoder stays lax where X.690 allows choice: any non-zero TRUE, constructed strings with OCTET STRING '
     'segments (nested too), indefinite lengths, long-form lengths with leading zeros, SET members looked up by tag in '
     'any position in both length forms (sibling agreement of the record loops).  Length arithmetic is not decided.'
     '  Also: The end-of-octets probe is requested only at element boundaries; the constructed BIT STRING of no segments is read like its indefinite twin; the encoding form is read from the base tag.'
     '  Reflected addition of the string types puts the left operand first (nested indefinite segments are accumulated with it); the effective tag set of a CHOICE recurses.',
     {'A1.lax': 35, 'A7.tag': 30, 'A7.nested': 4, 'A6.spec': 3, 'W.dec': 10, 'W.sized': 6, 'A5.methid': 2, 'A1.alias': 12, 'A8.eooid': 8, 'A8.probe': 9, 'A3.segjoin': 5, 'A6.form': 9, 'A6.zeroseg': 1, 'C10.reqset': 1, 'A10.efftag': 1, 'W.radd': 2})

prop('C10', [A.rule_c10, A.rule_a6_spec, X.rule_nonevalue, A.rule_c14, Z.rule_choice_result, A.rule_a6_optdef, Z.rule_constraint_denotation, Z.rule_bits_padding, R3.rule_container_cleared, R4.rule_strict_text_codecs, R4.rule_consistency_consults, R4.rule_required_set, M.rule_a9_setof, R4.rule_omit_empty_modes, R4.rule_bitstring_equality],
     'Spec-guided exits of the constructed decoders: required components present; constraints (isInconsistent) checked '
     'before the value is returned; result is an ASN.1 object built from the guiding type.  The re-encode fixpoint is not decided.'
     '  Also: The text codecs of the string types use the strict error handler; isInconsistent answers \'consistent\' only after the constraints were asked (or there are none).'
     '  BIT STRING equality compares value and length; the BER record encoder does not omit empty OPTIONAL components.',
     {'C10.req': 2, 'C10.cons': 6, 'A13.value': 20, 'C10.strictdec': 5, 'C14.consult': 4, 'C10.reqset': 1, 'A1.omit': 2, 'W.biteq': 2})

prop('C11', [M.rule_a12, G.rule_reads_confined, Z.rule_cache_reset, R.rule_eos_by_read, R3.rule_eos_poll, G.rule_retry, R4.rule_raw_read_none, R4.rule_eos_by_position_only_inmemory, Z.rule_no_next],
     'Substrate kinds are told apart only in codec/streaming.py (total dispatch, library error otherwise); the caching '
     'wrapper keeps tell()/seek() coordinates stable while the decoder holds positions; reads go through the wrapper.  '
     'Byte-for-byte refinement of the wrapper over all operation histories is not decided.'
     '  Also: A value received from a raw read() is known not to be None wherever it is used as octets.'
     '  isEndOfStream answers by position only for an in-memory BytesIO.',
     {'A12.kinds': 4, 'A12.total': 6, 'A12.origin': 1, 'A12.cache': 3, 'A12.eos': 2, 'A2.eosloop': 1, 'A12.none': 5, 'A12.eospos': 1})

prop('C12',
     [E.rule_value_pure, E.rule_spec_pure, E.rule_census, E.rule_stateless, E.rule_log_blocks, E.rule_defaults,
      G.rule_prod_on, G.rule_retry_on, G.rule_cons_on, X.rule_progress_on, Z.rule_cache_key, Z.rule_option_scope, A.rule_c04_clone, R.rule_encoder_reads, R.rule_memo_key, R3.rule_table_alias, R4.rule_derived_tables_fresh_instances],
     'Purity: encoders read the value only through accessors that do not write to it (write-effect fixpoint over the '
     'type modules); decoders mutate only objects they created; every call-time write to shared state is enumerated and '
     'classified; codec singletons are stateless and caches per call; code that runs only with logging on is effect-free '
     'and obeys the generator protocol.  Thread interleavings are argued from "no shared writes", not explored.'
     '  Module-level code of the CER / DER / native codec modules stores attributes only on codec instances it has just made, never on the instances shared with the parent codec\'s tables.',
     {'A5.value': 15, 'A5.spec': 12, 'A5.census': 8, 'A5.stateless': 40, 'A5.log': 40, 'A2.cons.log': 50, 'A5.encread': 1, 'A5.memo': 1, 'A1.alias': 12, 'A1.shared': 1})

prop('C13', [T.rule_x680, A.rule_c13, W.rule_encode_header, W.rule_decode_header, Z.rule_encode_tag_arms, Z.rule_cache_key, R4.rule_form_by_base_tag, R4.rule_bit_slice, R4.rule_set_members_keep_spec],
     'Tag algebra dataflow (explicit appends one constructed tag and refuses UNIVERSAL; implicit replaces the last tag '
     'keeping its form), comparison/hash keys cover class+number of every level, subtype() routes the tagging options, '
     'one identifier per tag prepended outermost-first, the decoder accepts only on tag equality / tag-map membership, '
     'identifier-octet guards match X.690 8.1.2.  Multi-octet identifier arithmetic is decided only up to its guards.'
     '  Also: Every payload decoder reads the encoding form from the base tag of the recovered tag set.'
     '  Under a schema the CER / DER SET encoder pairs every member with the schema\'s component type.',
     {'C13.expl': 2, 'C13.impl': 1, 'C13.cmp': 9, 'C13.sub': 2, 'C13.enc': 1, 'C13.dec': 1, 'C13.model': 3, 'A1.x680': 35, 'A6.form': 9, 'W.bitslice': 2, 'C13.setspec': 1})

prop('C14', [A.rule_c14, Z.rule_constraint_denotation, R.rule_sizespec_fold, A.rule_c04_clone, R4.rule_consistency_consults, R4.rule_adding_narrows, R4.rule_encoders_check_first, R4.rule_set_constraint_operators],
     'Single constraint funnel for scalar payloads (who-may-write + must-pass-through), derivation only extends '
     'constraints and records ancestry, encoders refuse inconsistent constructed values.  The set-theoretic denotation '
     'of the _testValue comparisons is not decided.'
     '  Also: isInconsistent of the container bases answers \'consistent\' only after the constraints were asked; adding a constraint to a union builds the intersection of the union and the operand.'
     '  `-` and `+` of value-set constraints are set difference and union.',
     {'C14.funnel': 2, 'C14.init': 4, 'C14.extend': 3, 'C14.enc': 5, 'C14.vmap': 4, 'C14.fold': 2, 'C14.consult': 4, 'C14.narrow': 4, 'C14.encall': 3, 'C14.setops': 2})

prop('C15', [T.rule_lookup_shape, T.rule_chain, T.rule_strict, W.rule_decode_header, W.rule_content_guards, Z.rule_constructed_yields, R3.rule_table_alias, Z.rule_cache_key, R4.rule_derived_tables_fresh_instances, R4.rule_strict_boolean_results, A.rule_c13],
     'Strictness switches resolved per codec x lookup path by constant evaluation of the codec tables: strict BOOLEAN '
     'accepts exactly {00, FF}, every DER string codec refuses the constructed form, DER refuses indefinite length; the '
     'refusals dominate value decoding; every nested element goes through the same item decoder (slot binding).'
     '  Also: The tag-set cache of the item decoder is keyed by everything that determines the tag set.'
     '  The strict BOOLEAN decoder yields only components built after the 00 / FF test; the DER table loop makes fresh codec instances.',
     {'A1.strict': 40, 'A1.chain': 12, 'A1.alias': 12, 'A1.shared': 1, 'A1.strictres': 1})

prop('C16', [T.rule_total_bytag, X.rule_nonevalue, T.rule_pair_ber, Z.rule_schemaless_tags, Z.rule_cache_key, R.rule_prototypes, R3.rule_encoder_by_type, R3.rule_eoo_identity, R3.rule_container_cleared, R3.rule_scalar_result_tags, R4.rule_dynamic_order, R4.rule_spec_is_callers, Z.rule_bits_prepend, R3.rule_sized_length],
     'Schemaless decoding: by-tag table total over universal types and paired with the right codec family; no '
     'None/placeholder/raw octets reach a result yield.  Leaf equality and re-encode identity are not decided.'
     '  Scalar payload decoders pass on the guiding type they were given (never the prototype) to the component constructor.',
     {'A1.total': 80, 'A13.value': 20, 'A1.proto': 60, 'A1.enctype': 60, 'A8.eooid': 8, 'C16.dynorder': 3, 'A6.specparam': 8})

prop('C17', [T.rule_total_native, A.rule_c17_contra, A.rule_a6_record_arms, A.rule_c04_default, Z.rule_native_record, M.rule_a9_dynamic, R.rule_omissions, R.rule_as_binary, R3.rule_native_scalar_value, R4.rule_segment_handover, R4.rule_items_positional, R4.rule_native_list_cleared, R4.rule_native_of_decoders, R4.rule_set_members_keep_spec, R4.rule_oid_text_arcs],
     'Native tables total over all types; in the python-value arms the OPTIONAL-absent skip is satisfiable and precedes '
     'the raising lookup; value arm and python arm take the same OPTIONAL/DEFAULT/open-type actions.  Native round trip '
     'of values is not decided.'
     '  Also: Octets (or any BIT STRING value) with a tagged spec get re-tagged segment specs like a value object; items() / values() of the record base yield one element per position (the native encoder pairs by position); the native decoder turns [] into an empty value.'
     '  The native decoder resolves SET OF / SEQUENCE OF to the list decoder and SET / SEQUENCE to the record decoder; OID text arcs reach int() unmodified.',
     {'A1.total': 55, 'A4.contra': 4, 'A6.arms': 2, 'A6.omit': 8, 'W.binstr': 2, 'W.segspec': 3, 'C17.items': 2, 'C17.clear': 1, 'A1.nativeof': 4, 'C13.setspec': 1, 'W.oidtext': 1})

prop('C18', [A.rule_a8_dec, X.rule_nonevalue, T.rule_pair_ber, Z.rule_any_capture_yields, Z.rule_option_scope, A.rule_a6_open, R.rule_opentype_map_ref, R3.rule_opentype_truthy, R3.rule_open_skips, R3.rule_open_types_flag, R3.rule_method_identity, E.rule_option_latch, R4.rule_any_catch_all],
     'Raw capture of an indefinite-length TLV is complete (header re-read <=> end-of-octets appended); raw octets are '
     'handed back only to a collecting caller; ANY resolves to the ANY codec in every by-type table.  Equality of the '
     'resolved value is not decided.'
     '  Also: The ANY decoder\'s collector identity test compares the same function object; the open-types flag does not depend on OPTIONAL / DEFAULT.'
     '  The tag map of an ANY, tagged or not, has the ANY as its default type.',
     {'A8.dec': 1, 'A13.raw': 1, 'A6.mapref': 1, 'A6.truthy': 3, 'A6.openskip': 6, 'A6.anymap': 1})

prop('C19', [S.rule_field, S.rule_pep479, S.rule_companion, S.rule_commit, S.rule_bounds, S.rule_schema_ops, A.rule_c04_clone, R.rule_position_order, R4.rule_copy_is_value, R4.rule_dynamic_order, R4.rule_schema_plugs],
     'Container state machines: methods invoked on the component store exist on its shape; no StopIteration raised in '
     'generators; CHOICE keeps the chosen index in step with the store (companion state, single writer); setters '
     'validate before they commit; instantiating readers bound the position; scalar operators reach the payload only '
     'through operations the noValue sentinel plugs.  Refinement of a list/dict model over histories is not decided.'
     '  Also: The deep copy of a SEQUENCE OF / SET OF value is a value, that of a schema object a schema object.'
     '  NoValue exempts only life-cycle / attribute hooks from the raising plug.',
     {'A10.field': 6, 'A10.pep479': 8, 'A10.companion': 2, 'A10.single': 8, 'A10.commit': 2, 'A10.bounds': 2, 'A10.schema': 60, 'A10.order': 3, 'C04.copyvalue': 2, 'C16.dynorder': 3, 'A10.plug': 1})

prop('C20', [M.rule_a11_offset, M.rule_a11_trim, Z.rule_trim_start, M.rule_a11_parse, R.rule_memo_key, R.rule_fraction_pair, R.rule_offset_division, R3.rule_time_length_last, R4.rule_offset_verbatim],
     'Time text: offset sign taken from a signed quantity, hour/minute fields within range and width (interval '
     'analysis), canonical trim removes only trailing zeros, canonical refusals present, time encoders registered in '
     'CER and DER.  Calendar arithmetic and the fraction convention (symmetric between writer and reader) are not decided.'
     '  Also: The offset parsed from the text reaches the tzinfo\'s timedelta unchanged.',
     {'A11.sign': 1, 'A11.width': 3, 'A11.trim': 1, 'A11.canon': 8, 'A5.memo': 1, 'A11.frac': 3, 'A11.div': 3, 'A11.len': 3, 'A11.tz': 1})
