"""Behavioural normal form of a function, for one purpose only: proving that a function of the current tree is
equivalent to the function of the same name on the reference tree (the tree on which the rule instances were
confirmed by reading).  When the proof succeeds the loader analyses the function in its reference form; when it
fails nothing happens and the rules see the function as it is.  A wrong "equivalent" would hide a change from every
rule, so everything here errs on the side of "not proven".

The normal form is the structured program with every local variable eliminated:

  * straight-line code is executed symbolically: a local is replaced by the expression it holds (parameters, global
    names, constants, results of earlier events, heap reads stamped with the event after which they happen);
  * *events* keep their order: calls (other than a short list of effect-free builtins), yields, attribute / item
    stores, deletes.  Expressions evaluated inside a `try` body are kept inside it (they may be what the handler is for);
  * `if`: `not`, `!=`, `is not`, `not in`, `>`/`>=` and De Morgan spellings are brought to one form; a branch that always
    leaves (return / raise / continue / break) is written as a guard followed by the rest; `a and b` guards are nested,
    `a or b` guards are sequential; where both branches go on, the values they leave in a variable are joined
    (`phi`), and a trailing event of the same shape in both branches is written once after the join;
  * loops and `try` statements are regions: the variables they assign are opaque inside (per iteration) and after,
    every way out of the region lists the values it leaves in those variables that are read again;
  * the text of messages (`raise X('...' % (a, b))`, `LOG(...)`) is dropped, the operands are kept.

Two functions with the same serialised normal form execute the same events with the same operands under the same
conditions.  Constructs outside the list (with, nested def, global, try/finally, walrus, await) make the function
unsupported: no proof.
"""
import ast

PURE_CALLS = frozenset((
    'len', 'isinstance', 'issubclass', 'ord', 'chr', 'abs', 'bool', 'type', 'callable', 'hasattr', 'int', 'float', 'str',
    'repr', 'hex', 'oct', 'bin', 'divmod', 'pow', 'round', 'range', 'min', 'max', 'id', 'hash', 'bytes', 'frozenset',
    'int2oct', 'oct2int', 'ints2octs', 'octs2ints', 'str2octs', 'octs2str', 'isOctetsType', 'isStringType', 'tuple', 'enumerate',
    'reversed', 'zip', 'sum', 'any', 'all', 'getattr'))


class Unsupported(Exception):
    pass


# ------------------------------------------------------------------------------------------------------------ IR nodes

class Node(object):
    pass


class Event(Node):
    def __init__(self, kind, args, kw=()):
        self.kind, self.args, self.kw = kind, tuple(args), tuple(kw)


class If(Node):
    def __init__(self, cond, a, b):
        self.cond, self.a, self.b = cond, a, b


def _flatten_star_terms(args):
    """f(*(X + (y, z))) -> f(*X, y, z) on terms - the loader does this on the syntax tree; the same spelling can appear only
    after a local has been substituted (`t = X + (y,); f(*t)`).  Same reading as there: X is a tuple."""
    def is_tuple(t):
        return isinstance(t, tuple) and t and t[0] == 'tuple' and not any(isinstance(x, tuple) and x and x[0] == 'star' for x in t[1:])

    def flat(t):
        if is_tuple(t):
            return list(t[1:])
        if isinstance(t, tuple) and len(t) == 4 and t[0] == 'bin' and t[1] == 'Add' and (is_tuple(t[2]) or is_tuple(t[3])):
            return flat(t[2]) + flat(t[3])
        return [('star', t)]
    out = []
    for a in args:
        if isinstance(a, tuple) and len(a) == 2 and a[0] == 'star' and isinstance(a[1], tuple) and len(a[1]) == 4 and \
                a[1][0] == 'bin' and a[1][1] == 'Add' and (is_tuple(a[1][2]) or is_tuple(a[1][3])):
            out.extend(flat(a[1]))
        else:
            out.append(a)
    return out


def _call_free(e):
    for n in ast.walk(e):
        if isinstance(n, ast.Call) and not (isinstance(n.func, ast.Name) and n.func.id in ('len', 'isinstance')):
            return False
        if isinstance(n, (ast.Yield, ast.YieldFrom, ast.Await, ast.NamedExpr, ast.Lambda, ast.Subscript)):
            return False
    return True


def _thread_kw_bundle(fn, s, nxt):
    import copy
    if not isinstance(nxt, (ast.Expr, ast.Assign, ast.Return, ast.AugAssign)):
        return None
    stars = [(c, k) for c in ast.walk(nxt) if isinstance(c, ast.Call) for k in c.keywords if k.arg is None and isinstance(k.value, ast.Name)]
    if len(stars) != 1:
        return None
    call, kw = stars[0]
    name = kw.value.id
    loads = [n for n in ast.walk(fn) if isinstance(n, ast.Name) and n.id == name and isinstance(n.ctx, ast.Load)]
    if len(loads) != 1:
        return None
    arms = _leaf_arms(s)
    going = [a for a in arms if not (a and _syn_ends(a))]
    if not going or len(going) != len(arms):
        return None
    dicts = []
    for a in arms:
        if not a:
            return None
        last = a[-1]
        if not (isinstance(last, ast.Assign) and len(last.targets) == 1 and isinstance(last.targets[0], ast.Name) and
                last.targets[0].id == name and isinstance(last.value, ast.Dict) and
                all(isinstance(k, ast.Constant) and isinstance(k.value, str) and k.value.isidentifier() for k in last.value.keys) and
                all(isinstance(v, (ast.Name, ast.Constant)) for v in last.value.values)):
            return None
        dicts.append(last.value)
    # stores to the bundle anywhere else would make it something other than these literals
    stores = [n for n in ast.walk(fn) if isinstance(n, ast.Name) and n.id == name and isinstance(n.ctx, ast.Store)]
    if len(stores) != len(arms):
        return None
    given = set(k.arg for k in call.keywords if k.arg)

    def with_call(arm, d):
        if any(k.value in given for k in d.keys):
            return None
        stmt = copy.deepcopy(nxt)
        for c in ast.walk(stmt):
            if isinstance(c, ast.Call):
                for k in list(c.keywords):
                    if k.arg is None and isinstance(k.value, ast.Name) and k.value.id == name:
                        idx = c.keywords.index(k)
                        c.keywords[idx:idx + 1] = [ast.keyword(arg=kk.value, value=copy.deepcopy(vv)) for kk, vv in zip(d.keys, d.values)]
        ast.fix_missing_locations(stmt)
        return arm[:-1] + [stmt]

    def rebuild(node, it):
        body = with_call(node.body, next(it))
        if body is None:
            return None
        if len(node.orelse) == 1 and isinstance(node.orelse[0], ast.If):
            inner = rebuild(node.orelse[0], it)
            if inner is None:
                return None
            orelse = [inner]
        else:
            orelse = with_call(node.orelse, next(it))
            if orelse is None:
                return None
        return ast.copy_location(ast.If(test=node.test, body=body, orelse=orelse), node)
    return rebuild(s, iter(dicts))


def _flag_tested(s):
    if not isinstance(s, ast.If):
        return None
    t = s.test
    if isinstance(t, ast.UnaryOp) and isinstance(t.op, ast.Not):
        t = t.operand
    return t.id if isinstance(t, ast.Name) else None


def _leaf_arms(s):
    out = [s.body]
    if len(s.orelse) == 1 and isinstance(s.orelse[0], ast.If):
        out.extend(_leaf_arms(s.orelse[0]))
    else:
        out.append(s.orelse)
    return out


def _sets_constant(s, flag):
    for arm in _leaf_arms(s):
        if arm and isinstance(arm[-1], ast.Assign) and len(arm[-1].targets) == 1 and isinstance(arm[-1].targets[0], ast.Name) and \
                arm[-1].targets[0].id == flag and isinstance(arm[-1].value, ast.Constant):
            return True
    return False


def _with_rest(s, rest):
    import copy

    def arm(b):
        b = [x for x in b if not isinstance(x, ast.Pass)]
        if b and _syn_ends(b):
            return b
        return b + [copy.deepcopy(r) for r in rest]
    if len(s.orelse) == 1 and isinstance(s.orelse[0], ast.If):
        orelse = [_with_rest(s.orelse[0], rest)]
    else:
        orelse = arm(s.orelse)
    n = ast.If(test=s.test, body=arm(s.body), orelse=orelse)
    return ast.copy_location(n, s)


# attribute names that, wherever the module under comparison stores to them, receive a freshly built container (`set()`,
# `{}`, `[]`, ...): a read of such an attribute is never None.  Set by the loader.
NONNULL_ATTRS = frozenset()


# names (as bound in the module under comparison) of generator functions every path of which yields before it finishes;
# set by the loader (sa/alpha.py nonempty_generators) after checking the definitions in the current tree
NONEMPTY = frozenset()


class Region(Node):
    """Loop or Try."""

    def __init__(self, kind):
        self.kind = kind
        self.head = ()          # loop: iterable value or while-test (seq, value)
        self.parts = []         # [(label, seq)]
        self.init = {}          # var -> value before the region
        self.assigned = []


class Term(Node):
    def __init__(self, kind, val=None, state=None):
        self.kind, self.val, self.state = kind, val, state    # state: [(region, {var: value})]


def ends(seq):
    """Does every path through the sequence leave it by a terminator?"""
    if not seq:
        return False
    last = seq[-1]
    if isinstance(last, Term):
        return True
    if isinstance(last, If):
        return ends(last.a) and ends(last.b)
    if isinstance(last, Region) and last.kind == 'try':
        parts = dict(last.parts)
        body = parts.get('body', []) + parts.get('else', [])
        return ends(body) and all(ends(s) for l, s in last.parts if l.startswith('except'))
    return False


# -------------------------------------------------------------------------------------------------------------- values
# nested tuples; first element is the tag

def V(*a):
    return tuple(a)


NONE = ('const', 'None')


def subst(v, mapping, memo=None):
    """Replace sub-values (by equality) according to mapping."""
    if memo is None:
        memo = {}
    if not isinstance(v, tuple):
        return v
    k = id(v)
    if k in memo:
        return memo[k][1]
    if v in mapping:
        r = mapping[v]
    else:
        r = tuple(subst(x, mapping, memo) for x in v)
        if r == v:
            r = v
    memo[k] = (v, r)
    return r


def mentions(v, pred, memo=None):
    if memo is None:
        memo = set()
    if not isinstance(v, tuple) or id(v) in memo:
        return False
    memo.add(id(v))
    if pred(v):
        return True
    return any(mentions(x, pred, memo) for x in v)


# --------------------------------------------------------------------------------------------------- condition algebra

_FLIPCMP = {'>': '<', '>=': '<='}
_NEGCMP = {'!=': '==', 'is not': 'is', 'not in': 'in'}


def _intconst(v):
    if isinstance(v, tuple) and v[0] == 'const':
        try:
            t = ast.literal_eval(v[1])
        except Exception:
            return None
        if type(t) is int:
            return t
    return None


def _known_int(v):
    return isinstance(v, tuple) and v and v[0] == 'pure' and v[1] in ('len', 'ord', 'oct2int')


def _boolish(v):
    if not isinstance(v, tuple) or not v:
        return False
    if v[0] == 'cmp':
        return True
    if v[0] == 'not':
        return True
    if v[0] == 'pure' and v[1] in ('isinstance', 'issubclass', 'bool', 'callable', 'hasattr'):
        return True
    return False


def _text_choice(v):
    """A value that is a string constant, or a choice between string constants: part of a message's wording."""
    if not isinstance(v, tuple) or not v:
        return False
    if v[0] == 'const':
        try:
            return isinstance(ast.literal_eval(v[1]), str)
        except Exception:
            return False
    if v[0] == 'phi':
        return _text_choice(v[2]) and _text_choice(v[3])
    return False


def _truthy_const(v):
    if isinstance(v, tuple) and v and v[0] == 'const':
        try:
            return bool(ast.literal_eval(v[1]))
        except Exception:
            return False
    return False


_LEAVES = ('param', 'glob', 'ev', 'lv', 'after', 'tv', 'item', 'excobj', 'import', 'unpack_root')


def roots(v, acc=None, memo=None):
    """Access paths a value is built from: (leaf,), (leaf, 'attr'), (leaf, 'attr', '[]') ...  A heap read looks at its
    path; an event may change what lies on, or below, the paths of the objects handed to it."""
    if acc is None:
        acc = set()
    acc.update(_paths(v, {}))
    return acc


def _paths(v, memo):
    if not isinstance(v, tuple) or not v:
        return frozenset()
    k = id(v)
    if k in memo:
        return memo[k][1]
    memo[k] = (v, frozenset())
    t = v[0]
    if t in ('param', 'glob'):
        r = frozenset([(v,)])
    elif t == 'ev':
        r = frozenset([(('ev', id(v[1])),)])
    elif t in ('lv', 'after', 'tv'):
        r = frozenset([((t, id(v[1]), v[2]),)])
    elif t == 'item':
        r = frozenset([(('item', id(v[1])),)]) | frozenset(p_ + ('[]',) for p_ in _paths(v[1].head, memo))
    elif t == 'excobj':
        r = frozenset([(('excobj', id(v[1]), v[2]),)])
    elif t == 'ver' or t == 'const':
        r = frozenset()
    elif t in ('attr', 'meth'):
        base = _paths(v[1], memo)
        r = frozenset(p_ + (v[2],) for p_ in base) if t == 'attr' else base
    elif t == 'sub':
        base = _paths(v[1], memo)
        r = frozenset(p_ + ('[]',) for p_ in base) | _paths(v[2], memo)
    else:
        acc = set()
        for x in (v[1:] if isinstance(t, str) else v):
            if isinstance(x, tuple):
                acc |= _paths(x, memo)
        r = frozenset(acc)
    memo[k] = (v, r)
    return r


def _related(p, q):
    n = min(len(p), len(q))
    return p[:n] == q[:n]


def version_in(hist, rts):
    """Version of a heap read of something built from the roots `rts`: the last event that may have changed it."""
    for token, touched in reversed(hist):
        if touched is None:
            return token
        if touched and rts:
            if touched & rts or any(_related(p_, q_) for p_ in rts for q_ in touched):
                return token
    return hist[0][0]


def rebase(v, hf, ht, memo=None):
    """A value whose heap reads are current in history hf, re-read in history ht (same reads, versions of ht); reads
    that were not current in hf (older values) stay what they are."""
    if memo is None:
        memo = {}
    if not isinstance(v, tuple) or not v:
        return v
    k = id(v)
    if k in memo:
        return memo[k][1]
    t = v[0]
    if t in ('attr', 'sub', 'pure', 'comp') and isinstance(v[-1], tuple) and v[-1] and v[-1][0] == 'ver':
        kids = tuple(rebase(x, hf, ht, memo) for x in v[1:-1])
        if v[-1] == version_in(hf, _paths(v[:-1], {})):
            r = (t,) + kids + (version_in(ht, _paths((t,) + kids, {})),)
        else:
            r = (t,) + kids + (v[-1],)
    elif t in ('ev', 'ver', 'const', 'glob', 'param', 'lv', 'after', 'tv', 'item', 'excobj'):
        r = v
    else:
        r = tuple(rebase(x, hf, ht, memo) if isinstance(x, tuple) else x for x in v)
    if r == v:
        r = v
    memo[k] = (v, r)
    return r


def mkphi(c, p, q):
    """phi(c, phi(c, a, b), d) = phi(c, a, d): the same condition (same reads, same versions) decides both."""
    if isinstance(p, tuple) and p and p[0] == 'phi' and p[1] == c:
        p = p[2]
    if isinstance(q, tuple) and q and q[0] == 'phi' and q[1] == c:
        q = q[3]
    if p == q:
        return p
    return ('phi', c, p, q)


def fold(op, l, r):
    """x + 1 - 1 -> x: integer literals added to / subtracted from the same term are combined."""
    if op in ('Add', 'Sub'):
        k = _intconst(r)
        if k is not None:
            if op == 'Sub':
                k = -k
            if l[0] == 'bin' and l[1] in ('Add', 'Sub') and _intconst(l[3]) is not None and _intconst(l[2]) is None:
                k2 = _intconst(l[3])
                k += k2 if l[1] == 'Add' else -k2
                l = l[2]
            if k == 0 and _intconst(l) is None and l[0] in ('bin', 'after', 'lv', 'pure'):
                return l
            if _intconst(l) is not None:
                return ('const', repr(_intconst(l) + k))
            return ('bin', 'Add', l, ('const', repr(k))) if k >= 0 else ('bin', 'Sub', l, ('const', repr(-k)))
    if op == 'Mult':
        if _intconst(r) == -1 and _intconst(l) is None:
            return ('un', 'USub', l)
        if _intconst(l) == -1 and _intconst(r) is None:
            return ('un', 'USub', r)
    return ('bin', op, l, r)


def skey(v):
    """Structural sort key of a value (events by kind, not by identity)."""
    if isinstance(v, tuple):
        return '(' + ','.join(skey(x) for x in v) + ')'
    if isinstance(v, Node):
        return '<%s>' % getattr(v, 'kind', type(v).__name__)
    return repr(v)


def _has_seq(v, memo=None):
    """Contains an embedded event sequence or an item lookup (`x[i]` on the library's containers instantiates
    components: not something whose place in a condition may be changed)."""
    if memo is None:
        memo = set()
    if not isinstance(v, tuple) or id(v) in memo:
        return False
    memo.add(id(v))
    if v and v[0] in ('seq', 'sub'):
        return True
    return any(_has_seq(x, memo) for x in v)


def canon_cond(v):
    """-> (value, negated)"""
    if not isinstance(v, tuple):
        return v, False
    if v[0] == 'not':
        c, n = canon_cond(v[1])
        return c, not n
    if v[0] == 'cmp':
        op, a, b = v[1], v[2], v[3]
        neg = False
        if op in _NEGCMP:
            op, neg = _NEGCMP[op], True
        if op in _FLIPCMP:
            op, a, b = _FLIPCMP[op], b, a
        if op in ('in',) and b[0] == 'tuple' and len(b) > 1 and all(x[0] == 'const' for x in b[1:]):
            # x in (c1, c2)  ==  x == c1 or x == c2
            c, n = canon_cond(('or',) + tuple(('cmp', '==', a, x) for x in b[1:]))
            return c, (n != neg)
        if op == '<=' and _intconst(a) is None and _intconst(b) is None and (_known_int(a) or _known_int(b)):
            # numbers are totally ordered:  a <= b  ==  not (b < a)
            return ('cmp', '<', b, a), not neg
        if op in ('<', '<='):
            ka, kb = _intconst(a), _intconst(b)
            if kb is not None and ka is None:
                if op == '<=':
                    op, b = '<', ('const', repr(kb + 1))
            elif ka is not None and kb is None:
                # K < a  ==  not (a < K+1);  K <= a  ==  not (a < K)
                k = ka + 1 if op == '<' else ka
                op, a, b, neg = '<', b, ('const', repr(k)), not neg
        if op in ('==', 'is') and a[0] == 'const' and b[0] != 'const':
            a, b = b, a
        return ('cmp', op, a, b), neg
    if v[0] == 'phi':
        a, na = canon_cond(v[2])
        b, nb = canon_cond(v[3])
        if na == nb:
            return mkphi(v[1], a, b), na
        return mkphi(v[1], cond_value(a, na), cond_value(b, nb)), False
    if v[0] in ('and', 'or'):
        items = []
        for x in v[1:]:
            c, n = canon_cond(x)
            if v[0] == 'or':
                n = not n
            if c[0] == 'AND' and not n:
                items.extend(c[1:])
            else:
                items.append((c, n))
        if not any(_has_seq(c) for c, n in items):
            items.sort(key=lambda cn: (skey(cn[0]), cn[1]))      # effect-free conjuncts: the order is immaterial
        r = ('AND',) + tuple(items)
        return r, v[0] == 'or'
    return v, False


def cond_value(c, neg):
    return ('not', c) if neg else c


# ------------------------------------------------------------------------------------------------------------ executor

class State(object):
    def __init__(self, env, ver):
        self.env = env
        self.hist = [(ver, None)]     # (version token, roots the event may have changed; None = anything)
        self.in_try = 0
        self.handler_exc = None
        self.try_reads = frozenset()
        self.known = {}        # canonical condition value -> truth, on the path that leads here

    def barrier(self, token):
        self.hist.append((token, None))

    def copy(self):
        s = State(dict(self.env), None)
        s.hist = list(self.hist)
        s.in_try = self.in_try
        s.handler_exc = self.handler_exc
        s.try_reads = self.try_reads
        s.known = dict(self.known)
        return s


_SCOPES = (ast.FunctionDef, ast.AsyncFunctionDef, ast.ClassDef)
_CMPOPS = {ast.Eq: '==', ast.NotEq: '!=', ast.Lt: '<', ast.LtE: '<=', ast.Gt: '>', ast.GtE: '>=', ast.Is: 'is',
           ast.IsNot: 'is not', ast.In: 'in', ast.NotIn: 'not in'}


def _stored_names(stmts):
    out = []

    def rec(n):
        if isinstance(n, _SCOPES) or isinstance(n, ast.Lambda):
            return
        if isinstance(n, (ast.ListComp, ast.SetComp, ast.DictComp, ast.GeneratorExp)):
            return
        if isinstance(n, ast.Name) and isinstance(n.ctx, (ast.Store, ast.Del)) and n.id not in out:
            out.append(n.id)
        if isinstance(n, ast.ExceptHandler) and n.name and n.name not in out:
            out.append(n.name)
        for c in ast.iter_child_nodes(n):
            rec(c)
    for s in stmts:
        rec(s)
    return out


def _syn_ends(block):
    """Syntactic: every path through the block ends in return / raise / continue / break."""
    if not block:
        return False
    last = block[-1]
    if isinstance(last, (ast.Return, ast.Raise, ast.Continue, ast.Break)):
        return True
    if isinstance(last, ast.If):
        return bool(last.orelse) and _syn_ends(last.body) and _syn_ends(last.orelse)
    if isinstance(last, ast.Try):
        if last.finalbody:
            return False
        return _syn_ends(last.body + last.orelse) and all(_syn_ends(h.body) for h in last.handlers)
    return False


class Exec(object):
    def __init__(self, fn, msgs=True):
        self.fn = fn
        self.mask_messages = msgs
        a = fn.args
        self.params = [x.arg for x in a.posonlyargs + a.args + a.kwonlyargs]
        if a.vararg:
            self.params.append(a.vararg.arg)
        if a.kwarg:
            self.params.append(a.kwarg.arg)
        self.locals = set(self.params) | set(_stored_names(fn.body))
        for n in ast.walk(fn):
            if n is not fn and isinstance(n, _SCOPES):
                raise Unsupported('nested definition')
            if isinstance(n, (ast.Global, ast.Nonlocal, ast.With, ast.AsyncWith, ast.AsyncFor, ast.Await, ast.NamedExpr,
                              ast.YieldFrom)) or type(n).__name__ in ('Match', 'TryStar'):
                raise Unsupported(type(n).__name__)
            if isinstance(n, ast.Try) and n.finalbody:
                raise Unsupported('finally')
        self.regions = []   # stack of open regions (loops / tries) with their assigned variables

    # ---------------------------------------------------------------------------------------------------- entry

    def run(self):
        env = dict((p, ('param', p)) for p in self.params)
        st = State(env, ('ver', 'entry'))
        body = list(self.fn.body)
        seq = self.block(body + [ast.Return(value=None)], st)
        return seq

    # ---------------------------------------------------------------------------------------------- expressions

    def ev_cond(self, e, st, out):
        """A test (if / while / conditional expression): and / or keep their short-circuit form for the guard algebra."""
        self._cond_ctx = True
        try:
            return self.ev(e, st, out)
        finally:
            self._cond_ctx = False

    def ev(self, e, st, out):
        """Evaluate expression e in state st; events are appended to out.  Returns the value."""
        cond_ctx, self._cond_ctx = getattr(self, '_cond_ctx', False), False
        if cond_ctx and isinstance(e, ast.BoolOp):
            vals = [self.ev_cond(e.values[0], st, out)]
            for x in e.values[1:]:
                inner = []
                s2 = st.copy()
                self._cond_ctx = True
                v = self.ev(x, s2, inner)
                self._cond_ctx = False
                if inner:
                    st.hist.extend(s2.hist[len(st.hist):])
                    v = ('seq', tuple(inner), v)
                vals.append(v)
            return ('and' if isinstance(e.op, ast.And) else 'or',) + tuple(vals)
        if cond_ctx and isinstance(e, ast.UnaryOp) and isinstance(e.op, ast.Not):
            return ('not', self.ev_cond(e.operand, st, out))
        if isinstance(e, ast.Constant):
            return ('const', repr(e.value))
        if isinstance(e, ast.Name):
            if e.id in self.locals:
                v = st.env.get(e.id)
                if v is None:
                    return ('undef', e.id) if False else ('unbound',)
                return v
            return ('glob', e.id)
        if isinstance(e, ast.Attribute):
            b = self.ev(e.value, st, out)
            return self.lift(lambda x: ('attr', x, e.attr, self.vfor(st, ('attr', x, e.attr))), b)
        if isinstance(e, ast.Subscript):
            b = self.ev(e.value, st, out)
            i = self.ev_slice(e.slice, st, out)
            k = _intconst(i)
            if b[0] == 'tuple' and k is not None and 0 <= k < len(b) - 1 and not any(x[0] == 'star' for x in b[1:]):
                return b[1 + k]
            return self.lift(lambda x, y: ('sub', x, y, self.vfor(st, ('sub', x, y))), b, i)
        if isinstance(e, ast.Tuple) or isinstance(e, ast.List):
            items = []
            for x in e.elts:
                if isinstance(x, ast.Starred):
                    items.append(('star', self.ev(x.value, st, out)))
                else:
                    items.append(self.ev(x, st, out))
            if isinstance(e, ast.Tuple):
                return ('tuple',) + tuple(items)
            return self.emit(Event('newlist', items), st, out)      # a fresh mutable object has an identity
        if isinstance(e, ast.Set):
            return self.emit(Event('newset', [self.ev(x, st, out) for x in e.elts]), st, out)
        if isinstance(e, ast.Dict):
            items = []
            for k, v in zip(e.keys, e.values):
                items.append((self.ev(k, st, out) if k is not None else ('dstar',), self.ev(v, st, out)))
            return self.emit(Event('newdict', [('tuple',) + tuple(('tuple', k, v) for k, v in items)]), st, out)
        if isinstance(e, ast.UnaryOp):
            v = self.ev(e.operand, st, out)
            if isinstance(e.op, ast.Not):
                return ('not', v)
            if isinstance(e.op, ast.USub) and v[0] == 'const':
                try:
                    t = ast.literal_eval(v[1])
                    if type(t) in (int, float):
                        return ('const', repr(-t))
                except Exception:
                    pass
            return ('un', type(e.op).__name__, v)
        if isinstance(e, ast.BinOp):
            l = self.ev(e.left, st, out)
            r = self.ev(e.right, st, out)
            opn = type(e.op).__name__
            return self.lift(lambda x, y: fold(opn, x, y), l, r)
        if isinstance(e, ast.Compare):
            l = self.ev(e.left, st, out)
            parts = []
            for op, c in zip(e.ops, e.comparators):
                if parts and self.has_event(c):
                    raise Unsupported('event in chained comparison')
                r = self.ev(c, st, out)
                cop = _CMPOPS[type(op)]
                parts.append(self.lift(lambda x, y: ('cmp', cop, x, y), l, r) if len(e.ops) == 1 else ('cmp', cop, l, r))
                l = r
            if len(parts) == 1:
                return parts[0]
            return ('and',) + tuple(parts)
        if isinstance(e, ast.BoolOp):
            vals = [self.ev(e.values[0], st, out)]
            for x in e.values[1:]:
                vals.append(self.ev_guarded(x, st))
            r = ('and' if isinstance(e.op, ast.And) else 'or',) + tuple(vals)
            if len(r) == 3 and _boolish(r[1]) and r[2][0] != 'seq':
                # b and y = (y if b else False), b or y = (True if b else y)  for a genuine boolean b
                cc, neg = canon_cond(r[1])
                x_, y_ = (r[2], ('const', 'False')) if r[0] == 'and' else (('const', 'True'), r[2])
                if neg:
                    x_, y_ = y_, x_
                return mkphi(cc, x_, y_)
            if r[0] == 'or' and len(r) == 3 and r[1][0] == 'phi' and r[2][0] != 'seq':
                # (K if c else False) or b  ==  K if c else b   for a truthy constant K
                if _truthy_const(r[1][2]) and r[1][3] == ('const', 'False'):
                    return mkphi(r[1][1], r[1][2], r[2])
                if _truthy_const(r[1][3]) and r[1][2] == ('const', 'False'):
                    return mkphi(r[1][1], r[2], r[1][3])
            if r[0] == 'or' and len(r) == 3 and r[1][0] == 'and' and len(r[1]) == 3 and _truthy_const(r[1][2]):
                # `c and K or b` with a truthy constant K  ==  `K if c else b`
                cc, neg = canon_cond(r[1][1])
                a_, b_ = r[1][2], r[2]
                if neg:
                    a_, b_ = b_, a_
                return ('phi', cc, a_, b_)
            return r
        if isinstance(e, ast.IfExp):
            c = self.ev_cond(e.test, st, out)
            a = self.ev_guarded(e.body, st)
            b = self.ev_guarded(e.orelse, st)
            cc, neg = canon_cond(c)
            if neg:
                a, b = b, a
            if cc in st.known:
                return a if st.known[cc] else b
            return mkphi(cc, a, b)
        if isinstance(e, ast.Call):
            return self.ev_call(e, st, out)
        if isinstance(e, ast.Yield):
            v = self.ev(e.value, st, out) if e.value is not None else NONE
            return self.emit(Event('yield', [v]), st, out)
        if isinstance(e, ast.JoinedStr):
            vals = []
            for x in e.values:
                if isinstance(x, ast.FormattedValue):
                    vals.append(('fmt', self.ev(x.value, st, out), x.conversion,
                                 self.ev(x.format_spec, st, out) if x.format_spec is not None else NONE))
                else:
                    vals.append(self.ev(x, st, out))
            return ('fstr',) + tuple(vals)
        if isinstance(e, ast.Slice):
            return self.ev_slice(e, st, out)
        if isinstance(e, (ast.ListComp, ast.SetComp, ast.DictComp, ast.GeneratorExp, ast.Lambda)):
            return self.ev_scope(e, st, out)
        if isinstance(e, ast.Starred):
            return ('star', self.ev(e.value, st, out))
        raise Unsupported('expression %s' % type(e).__name__)

    def ev_slice(self, s, st, out):
        if isinstance(s, ast.Slice):
            return ('slice',) + tuple(self.ev(x, st, out) if x is not None else NONE for x in (s.lower, s.upper, s.step))
        return self.ev(s, st, out)

    def has_event(self, e):
        for n in ast.walk(e):
            if isinstance(n, ast.Yield):
                return True
            if isinstance(n, ast.Call) and not self.is_pure_call(n):
                return True
        return False

    def is_pure_call(self, c):
        return isinstance(c.func, ast.Name) and c.func.id in PURE_CALLS and c.func.id not in self.locals and \
            not any(isinstance(a, ast.GeneratorExp) for a in c.args)

    def ev_guarded(self, e, st):
        """Operand evaluated only on some paths (and/or/ifexp): events stay inside the value."""
        inner = []
        s2 = st.copy()
        v = self.ev(e, s2, inner)
        if inner:
            st.hist.extend(s2.hist[len(st.hist):])     # afterwards: these events may have happened
            return ('seq', tuple(inner), v)
        return v

    def emit(self, evn, st, out):
        out.append(evn)
        if evn.kind == 'yield':
            evn.touched = None                 # the consumer runs: anything may change
        else:
            t = set()
            for a in evn.args:
                roots(a, t, set())
            for k, a in evn.kw:
                roots(a, t, set())
            evn.touched = frozenset(t)
        st.hist.append((('ver', evn), evn.touched))
        return ('ev', evn)

    def vfor(self, st, *vals):
        r = set()
        for v in vals:
            roots(v, r, set())
        return version_in(st.hist, r)

    def lift(self, build, *ops):
        """A pure operation on a joined value is the join of the operation: op(phi(c, a, b)) = phi(c, op(a), op(b))."""
        for i, o in enumerate(ops):
            if isinstance(o, tuple) and o and o[0] == 'phi':
                rest = ops[:i], ops[i + 1:]
                x = self.lift(build, *(rest[0] + (o[2],) + rest[1]))
                y = self.lift(build, *(rest[0] + (o[3],) + rest[1]))
                return mkphi(o[1], x, y)
        return build(*ops)

    def msg(self, e, st, out):
        """Message operand of raise / LOG: the text is dropped, the operands stay (except operands that only choose
        between pieces of text)."""
        v = self.msg0(e, st, out)
        if isinstance(v, tuple) and v and v[0] == 'msg':
            v = ('msg',) + tuple(x for x in v[1:] if not _text_choice(x))
        return v

    def msg0(self, e, st, out):
        if isinstance(e, ast.Constant) and isinstance(e.value, str):
            return ('msg',)
        if isinstance(e, ast.BinOp) and isinstance(e.op, ast.Mod) and isinstance(e.left, ast.Constant) and isinstance(e.left.value, str):
            r = e.right
            ops = r.elts if isinstance(r, ast.Tuple) else [r]
            return ('msg',) + tuple(self.ev(x, st, out) for x in ops)
        if isinstance(e, ast.Call) and isinstance(e.func, ast.Attribute) and e.func.attr == 'format' and \
                isinstance(e.func.value, ast.Constant) and isinstance(e.func.value.value, str) and not e.keywords:
            return ('msg',) + tuple(self.ev(x, st, out) for x in e.args)
        if isinstance(e, ast.JoinedStr):
            return ('msg',) + tuple(self.ev(x.value, st, out) for x in e.values if isinstance(x, ast.FormattedValue))
        if isinstance(e, ast.BinOp) and isinstance(e.op, ast.Add):
            l = self.msg0(e.left, st, out)
            r = self.msg0(e.right, st, out)
            if l[0] == 'msg' and r[0] == 'msg':
                return ('msg',) + l[1:] + r[1:]
            if l[0] == 'msg' or r[0] == 'msg':
                return ('msg',) + (l[1:] if l[0] == 'msg' else (l,)) + (r[1:] if r[0] == 'msg' else (r,))
            return ('bin', 'Add', l, r)
        return self.ev(e, st, out)

    def ev_call(self, e, st, out):
        is_log = isinstance(e.func, ast.Name) and e.func.id == 'LOG'
        if getattr(st, 'handler_exc', None) is not None and not e.args and not e.keywords and ast.unparse(e.func) == 'sys.exc_info' \
                and 'sys' not in self.locals:
            x = st.handler_exc
            return ('tuple', ('pure', 'type', (x,), self.vfor(st, x)), x, ('attr', x, '__traceback__', self.vfor(st, x)))
        if self.is_pure_call(e) and not e.keywords:
            args = tuple(self.ev(a, st, out) for a in e.args)
            return ('pure', e.func.id, args, self.vfor(st, args))
        if isinstance(e.func, ast.Attribute):
            # the method looked up on the receiver: which function that is does not change while the caller runs
            f = ('meth', self.ev(e.func.value, st, out), e.func.attr)
        else:
            f = self.ev(e.func, st, out)
        args = []
        for a in e.args:
            if is_log and self.mask_messages:
                args.append(self.msg(a, st, out))
            else:
                args.append(self.ev(a, st, out))
        args = _flatten_star_terms(args)
        kw = []
        for k in e.keywords:
            kw.append((k.arg or '**', self.ev(k.value, st, out)))
        return self.emit(Event('call', [f] + args, kw), st, out)

    def ev_scope(self, e, st, out):
        """Comprehension / lambda: own scope; outer locals it reads are captured by value."""
        bound = set()
        for n in ast.walk(e):
            if isinstance(n, ast.comprehension):
                for t in ast.walk(n.target):
                    if isinstance(t, ast.Name):
                        bound.add(t.id)
            if isinstance(n, ast.Lambda):
                a = n.args
                bound.update(x.arg for x in a.posonlyargs + a.args + a.kwonlyargs)
                if a.vararg:
                    bound.add(a.vararg.arg)
                if a.kwarg:
                    bound.add(a.kwarg.arg)
        clone = ast.parse(ast.unparse(e), mode='eval').body
        cap, bnames = [], {}
        capidx = {}
        for n in ast.walk(clone):
            if isinstance(n, ast.Name):
                if n.id in bound:
                    n.id = bnames.setdefault(n.id, '_c%d' % len(bnames))
                elif n.id in self.locals:
                    if n.id not in capidx:
                        capidx[n.id] = len(cap)
                        cap.append(st.env.get(n.id, ('unbound',)))
                    n.id = '_L%d' % capidx[n.id]
            elif isinstance(n, ast.arg) and n.arg in bound:
                n.arg = bnames.setdefault(n.arg, '_c%d' % len(bnames))
        src = ast.unparse(clone)
        eventful = any(isinstance(n, ast.Call) and not (isinstance(n.func, ast.Name) and n.func.id in PURE_CALLS)
                       for n in ast.walk(e)) and not isinstance(e, ast.Lambda)
        if not isinstance(e, ast.Lambda):
            eventful = True    # a fresh object (list/set/dict/generator): it has an identity and a place
        if eventful:
            return self.emit(Event('comp', [('src', src)] + cap), st, out)
        return ('comp', src, tuple(cap), self.vfor(st, tuple(cap)))

    # ------------------------------------------------------------------------------------------------ statements

    def block(self, stmts, st):
        """Sequence of IR nodes for the statements; st is updated.  Stops after a terminator."""
        seq = []
        i = 0
        while i < len(stmts):
            s = stmts[i]
            rest = stmts[i + 1:]
            low = self.lower(s)
            if low is not None:
                stmts = stmts[:i] + low + rest
                continue
            if isinstance(s, ast.Assign) and len(s.targets) == 1 and isinstance(s.targets[0], ast.Name) and rest and \
                    isinstance(s.value, (ast.BoolOp, ast.Compare, ast.UnaryOp)) and _flag_tested(rest[0]) == s.targets[0].id and \
                    _call_free(s.value) and not getattr(rest[0], '_named', False) and \
                    not any(isinstance(n, ast.Name) and n.id == s.targets[0].id for n in ast.walk(s.value)):
                # `flag = <call-free condition>` tested by the next statement: the test reads the condition itself
                import copy
                t0 = rest[0]
                e = copy.deepcopy(s.value)
                if isinstance(t0.test, ast.UnaryOp):
                    e = ast.UnaryOp(op=ast.Not(), operand=e)
                t1 = ast.copy_location(ast.If(test=ast.copy_location(e, t0.test), body=t0.body, orelse=t0.orelse), t0)
                ast.fix_missing_locations(t1)
                t1._named = True
                stmts = stmts[:i + 1] + [t1] + rest[1:]
                rest = stmts[i + 1:]
            if isinstance(s, ast.If) and rest and not getattr(s, '_bundled', False):
                # arms that end in `opts = {<literal keys>: ...}` followed by one call taking `**opts` (the only use of `opts`):
                # the call is written into each arm with the keywords spelt out
                s2 = _thread_kw_bundle(self.fn, s, rest[0])
                if s2 is not None:
                    s2._bundled = True
                    stmts = stmts[:i] + [s2] + rest[1:]
                    continue
            if isinstance(s, ast.If) and rest and len(rest) <= 4 and not getattr(s, '_flagged', False) and \
                    not any(isinstance(x, (ast.For, ast.While, ast.Try, ast.With)) for r_ in rest for x in ast.walk(r_)):
                # arms that end in `flag = <constant>` followed by `if flag:`: the short rest of the block is written into
                # every arm that goes on (tail duplication), where the constant decides the test - a local flag that only
                # carries "which arm was it" to a shared tail and the same decisions taken inside the arms are one form
                flag = _flag_tested(rest[0])
                if flag is not None and _sets_constant(s, flag):
                    s2 = _with_rest(s, rest)
                    s2._flagged = True
                    stmts = stmts[:i] + [s2]
                    continue
            if isinstance(s, ast.If):
                done = self.do_if(s, rest, st, seq)
                if done:
                    return seq
                i += 1
                continue
            if isinstance(s, ast.Try) and not s.finalbody and rest and len(rest) <= 4 and \
                    not all(_syn_ends(h.body) for h in s.handlers) and not getattr(s, '_threaded', False) and \
                    not any(isinstance(x, (ast.For, ast.While, ast.Try)) for r_ in rest for x in ast.walk(r_)) and \
                    not any(h.name and any(isinstance(n, ast.Name) and n.id == h.name for r_ in rest for n in ast.walk(r_)) for h in s.handlers):
                # a short rest of the block is what every way out of the statement continues with: written into each way
                # (handler that goes on, no-exception path), so that a flag set differently on the two ways is resolved
                hs = [h if _syn_ends(h.body) else ast.ExceptHandler(type=h.type, name=h.name,
                                                                     body=[x for x in h.body if not isinstance(x, ast.Pass)] + rest)
                      for h in s.handlers]
                t2 = ast.Try(body=s.body, handlers=hs, orelse=list(s.orelse) + rest, finalbody=[])
                t2._threaded = True
                stmts = stmts[:i] + [t2]
                continue
            if isinstance(s, ast.Try) and s.orelse and not s.finalbody:
                # `else` of a try = what follows it on the no-exception path.  Two spellings are brought to one:
                #   every handler leaves           -> the else part is simply what comes next
                #   the else part always leaves    -> the handlers that go on continue with the rest of the block
                hs_end = all(_syn_ends(h.body) for h in s.handlers)
                if not hs_end and not _syn_ends(s.orelse) and len(rest) == 1 and isinstance(rest[0], (ast.Continue, ast.Break, ast.Return)) \
                        and (not isinstance(rest[0], ast.Return) or rest[0].value is None):
                    # nothing but a bare terminator follows: it ends every way out of the statement
                    hs = [h if _syn_ends(h.body) else ast.ExceptHandler(type=h.type, name=h.name,
                                                                         body=[x for x in h.body if not isinstance(x, ast.Pass)] + rest)
                          for h in s.handlers]
                    t2 = ast.Try(body=s.body, handlers=hs, orelse=list(s.orelse) + rest, finalbody=[])
                    stmts = stmts[:i] + [t2]
                    continue
                if hs_end:
                    t2 = ast.Try(body=s.body, handlers=s.handlers, orelse=[], finalbody=[])
                    stmts = stmts[:i] + [t2] + list(s.orelse) + rest
                    continue
                names = set(h.name for h in s.handlers if h.name)
                if _syn_ends(s.orelse) and not any(isinstance(n, ast.Name) and n.id in names for r in rest for n in ast.walk(r)):
                    hs = []
                    for h in s.handlers:
                        if _syn_ends(h.body):
                            hs.append(h)
                        else:
                            hs.append(ast.ExceptHandler(type=h.type, name=h.name, body=[x for x in h.body if not isinstance(x, ast.Pass)] + rest))
                    t2 = ast.Try(body=s.body, handlers=hs, orelse=[], finalbody=[])
                    stmts = stmts[:i] + [t2] + list(s.orelse)
                    continue
            self.stmt(s, st, seq)
            if seq and isinstance(seq[-1], Term):
                return seq
            if seq and ends(seq):
                return seq
            i += 1
        return seq

    def bind(self, target, value, st, out):
        if isinstance(target, ast.Name):
            if target.id in self.locals:
                if st.in_try and (value[0] not in ('const', 'glob', 'param', 'ev') or target.id in st.try_reads):
                    value = self.emit(Event('eval', [value]), st, out)
                st.env[target.id] = value
            else:
                raise Unsupported('store to non-local name')
            return
        if isinstance(target, ast.Attribute):
            b = self.ev(target.value, st, out)
            self.emit(Event('setattr', [b, ('const', repr(target.attr)), value]), st, out)
            return
        if isinstance(target, ast.Subscript):
            b = self.ev(target.value, st, out)
            i = self.ev_slice(target.slice, st, out)
            self.emit(Event('setitem', [b, i, value]), st, out)
            return
        if isinstance(target, (ast.Tuple, ast.List)):
            n = len(target.elts)
            if any(isinstance(t, ast.Starred) for t in target.elts):
                raise Unsupported('starred target')
            if value[0] in ('tuple', 'list') and len(value) - 1 == n and not any(isinstance(x, tuple) and x and x[0] == 'star' for x in value[1:]):
                for t, v in zip(target.elts, value[1:]):
                    self.bind(t, v, st, out)
            else:
                for k, t in enumerate(target.elts):
                    self.bind(t, ('unpack', value, k, n), st, out)
            return
        raise Unsupported('target %s' % type(target).__name__)

    def find_ifexp(self, expr):
        """First conditional expression with an event in one of its arms that is evaluated unconditionally and before any
        other event of the expression (so that it can be computed by an `if` statement placed in front)."""
        found = []

        def rec(n):
            # returns False to stop (an event was met, or the place is only conditionally evaluated)
            if found:
                return False
            if isinstance(n, ast.IfExp):
                if self.has_event(n.body) or self.has_event(n.orelse):
                    if not self.has_event(n.test):
                        found.append(n)
                    return False
                return rec(n.test) and not (self.has_event(n.body) or self.has_event(n.orelse))
            if isinstance(n, ast.BoolOp):
                if not rec(n.values[0]):
                    return False
                return not any(self.has_event(v) for v in n.values[1:])
            if isinstance(n, (ast.Lambda, ast.ListComp, ast.SetComp, ast.DictComp, ast.GeneratorExp)):
                return not self.has_event(n)
            if isinstance(n, ast.Call):
                for c in [n.func] + list(n.args) + [k.value for k in n.keywords]:
                    if not rec(c):
                        return False
                return self.is_pure_call(n)
            if isinstance(n, ast.Yield):
                if n.value is not None and not rec(n.value):
                    return False
                return False
            for c in ast.iter_child_nodes(n):
                if isinstance(c, ast.expr) and not rec(c):
                    return False
            return True
        rec(expr)
        return found[0] if found else None

    def lower(self, s):
        """`x = f(a) if c else g(b)` -> `if c: t = f(a) else: t = g(b)`; `x = t` (also inside a larger expression)."""
        if isinstance(s, (ast.Assign, ast.AugAssign, ast.Return, ast.Expr, ast.AnnAssign)) and getattr(s, 'value', None) is not None:
            ie = self.find_ifexp(s.value)
            if ie is not None:
                self._tmp = getattr(self, '_tmp', 0) + 1
                name = '$t%d' % self._tmp
                self.locals.add(name)
                pre = ast.If(test=ie.test,
                             body=[ast.Assign(targets=[ast.Name(id=name, ctx=ast.Store())], value=ie.body)],
                             orelse=[ast.Assign(targets=[ast.Name(id=name, ctx=ast.Store())], value=ie.orelse)])
                ie.__class__ = ast.Name
                ie.__dict__.clear()
                ie.__dict__.update({'id': name, 'ctx': ast.Load()})
                return [pre, s]
        return None

    def stmt(self, s, st, seq):
        if isinstance(s, ast.Expr):
            if isinstance(s.value, ast.Constant):
                return
            v = self.ev(s.value, st, seq)
            if st.in_try and v[0] not in ('const', 'glob', 'param', 'ev'):
                self.emit(Event('eval', [v]), st, seq)
            return
        if isinstance(s, ast.Pass):
            return
        if isinstance(s, ast.Assign):
            v = self.ev(s.value, st, seq)
            for t in s.targets:
                self.bind(t, v, st, seq)
            return
        if isinstance(s, ast.AnnAssign):
            if s.value is not None:
                self.bind(s.target, self.ev(s.value, st, seq), st, seq)
            return
        if isinstance(s, ast.AugAssign):
            t = s.target
            if isinstance(t, ast.Name):
                cur = self.ev(ast.Name(id=t.id, ctx=ast.Load()), st, seq)
                v = self.ev(s.value, st, seq)
                if v[0] == 'const' or cur[0] == 'const':
                    self.bind(t, fold(type(s.op).__name__, cur, v), st, seq)
                else:
                    self.bind(t, ('ibin', type(s.op).__name__, cur, v), st, seq)
            elif isinstance(t, ast.Attribute):
                b = self.ev(t.value, st, seq)
                cur = ('attr', b, t.attr, self.vfor(st, ('attr', b, t.attr)))
                v = self.ev(s.value, st, seq)
                self.emit(Event('setattr', [b, ('const', repr(t.attr)), ('ibin', type(s.op).__name__, cur, v)]), st, seq)
            elif isinstance(t, ast.Subscript):
                b = self.ev(t.value, st, seq)
                i = self.ev_slice(t.slice, st, seq)
                cur = ('sub', b, i, self.vfor(st, ('sub', b, i)))
                v = self.ev(s.value, st, seq)
                self.emit(Event('setitem', [b, i, ('ibin', type(s.op).__name__, cur, v)]), st, seq)
            else:
                raise Unsupported('augassign target')
            return
        if isinstance(s, ast.Return):
            v = self.ev(s.value, st, seq) if s.value is not None else NONE
            seq.append(Term('return', v, None))
            return
        if isinstance(s, ast.Raise):
            if s.exc is None:
                seq.append(Term('raise', ('reraise',)))
                return
            e = s.exc
            if isinstance(e, ast.Call) and self.mask_messages:
                f = self.ev(e.func, st, seq)
                args = [self.msg(a, st, seq) for a in e.args]
                kw = [(k.arg or '**', self.ev(k.value, st, seq)) for k in e.keywords]
                v = ('newexc', f, ('tuple',) + tuple(args), ('tuple',) + tuple(('tuple', ('const', repr(k)), x) for k, x in kw))
            else:
                v = self.ev(e, st, seq)
            c = self.ev(s.cause, st, seq) if s.cause is not None else NONE
            seq.append(Term('raise', ('raise', v, c)))
            return
        if isinstance(s, ast.Continue):
            seq.append(Term('continue', None, self.exit_state(st, 'loop')))
            return
        if isinstance(s, ast.Break):
            seq.append(Term('break', None, self.exit_state(st, 'loop')))
            return
        if isinstance(s, ast.Delete):
            for t in s.targets:
                if isinstance(t, ast.Name):
                    st.env[t.id] = ('unbound',)
                elif isinstance(t, ast.Subscript):
                    b = self.ev(t.value, st, seq)
                    i = self.ev_slice(t.slice, st, seq)
                    self.emit(Event('delitem', [b, i]), st, seq)
                elif isinstance(t, ast.Attribute):
                    b = self.ev(t.value, st, seq)
                    self.emit(Event('delattr', [b, ('const', repr(t.attr))]), st, seq)
                else:
                    raise Unsupported('del target')
            return
        if isinstance(s, ast.Assert):
            test = ast.UnaryOp(op=ast.Not(), operand=s.test)
            exc = ast.Call(func=ast.Name(id='AssertionError', ctx=ast.Load()), args=[s.msg] if s.msg else [], keywords=[])
            self.do_if(ast.If(test=test, body=[ast.Raise(exc=exc, cause=None)], orelse=[]), [], st, seq, absorb=False)
            return
        if isinstance(s, (ast.For, ast.While)):
            self.do_loop(s, st, seq)
            return
        if isinstance(s, ast.Try):
            self.do_try(s, st, seq)
            return
        if isinstance(s, (ast.Import, ast.ImportFrom)):
            for a in s.names:
                nm = (a.asname or a.name).split('.')[0]
                st.env[nm] = ('import', getattr(s, 'module', None) or '', a.name, getattr(s, 'level', 0))
            return
        raise Unsupported('statement %s' % type(s).__name__)

    # -------------------------------------------------------------------------------------------------- regions

    def exit_state(self, st, upto):
        """Values of the variables of every open region that this exit leaves (innermost first).  `upto`: 'loop' = up to
        and including the innermost loop; None = all."""
        out = []
        for r in reversed(self.regions):
            out.append((r, dict((v, st.env.get(v, ('unbound',))) for v in r.assigned)))
            if upto == 'loop' and r.kind in ('for', 'while'):
                break
        return out

    def do_loop(self, s, st, seq):
        r = Region('for' if isinstance(s, ast.For) else 'while')
        if isinstance(s, ast.For):
            it = self.ev(s.iter, st, seq)
            r.head = ('iter', it)
            r.assigned = _stored_names([s])
            for t in ast.walk(s.target):
                if not isinstance(t, (ast.Name, ast.Tuple, ast.List, ast.expr_context)):
                    raise Unsupported('for target')
        else:
            r.head = ('while',)
            r.assigned = _stored_names(s.body + s.orelse)
        r.init = dict((v, st.env.get(v, ('unbound',))) for v in r.assigned)
        if isinstance(s, ast.For) and isinstance(s.iter, ast.Call) and isinstance(s.iter.func, ast.Name) and s.iter.func.id in NONEMPTY:
            # the iterator yields at least once before it finishes (checked on the current tree by the loader): the loop
            # target is bound by the loop whatever it held before
            for t in ast.walk(s.target):
                if isinstance(t, ast.Name):
                    r.init[t.id] = ('unbound',)
        inner = st.copy()
        inner.hist = [(('ver', r, 'in'), None)]
        for v in r.assigned:
            inner.env[v] = ('lv', r, v)
        self.regions.append(r)
        body = []
        if isinstance(s, ast.For):
            self.bind(s.target, ('item', r), inner, body)
        else:
            tv = self.ev_cond(s.test, inner, body)
            if tv != ('const', 'True'):
                # while c: B   ==   loop: if not c: break; B
                c, neg = canon_cond(tv)
                body.append(If(cond_value(c, not neg), [Term('break', None, self.exit_state(inner, 'loop'))], []))
        body.extend(self.block(list(s.body) + [ast.Continue()], inner))
        r.parts.append(('body', body))
        self.regions.pop()
        st.barrier(('ver', r))
        for v in r.assigned:
            st.env[v] = ('after', r, v)
        seq.append(r)
        if s.orelse:
            # runs when the loop ends without break: only the form that always leaves is supported
            ost = st.copy()
            oseq = self.block(list(s.orelse), ost)
            if not ends(oseq):
                raise Unsupported('loop else that falls through')
            r.parts.append(('else', oseq))

    def do_try(self, s, st, seq):
        r = Region('try')
        r.assigned = _stored_names(s.body + s.orelse)
        r.init = {}
        entry = st.copy()
        bst = st.copy()
        bst.in_try += 1
        reads = set()
        for h in s.handlers:
            for n in ast.walk(h):
                if isinstance(n, ast.Name) and isinstance(n.ctx, ast.Load):
                    reads.add(n.id)
        bst.try_reads = frozenset(bst.try_reads | reads)
        body = self.block(list(s.body), bst)
        bst.in_try -= 1
        bst.try_reads = st.try_reads
        body_else = []
        if s.orelse and not ends(body):
            body_else = self.block(list(s.orelse), bst)
        r.parts.append(('body', body))
        if s.orelse:
            r.parts.append(('else', body_else))
        falls = []
        if not ends(body + body_else):
            falls.append(bst)
        for k, h in enumerate(s.handlers):
            hst = entry.copy()
            hst.barrier(('ver', r, 'h%d' % k))
            for v in r.assigned:
                hst.env[v] = ('tv', r, v)
            hseq = []
            tv = self.ev(h.type, hst, hseq) if h.type is not None else ('const', 'BaseException')
            if hseq:
                raise Unsupported('event in except clause')
            hst.handler_exc = ('excobj', r, k)
            if h.name:
                hst.env[h.name] = ('excobj', r, k)
            hbody = self.block(list(h.body), hst)
            hst.handler_exc = st.handler_exc
            r.parts.append(('except%d' % k, [('HANDLER', tv)] + hbody))
            if not ends(hbody):
                if h.name:
                    hst.env[h.name] = ('unbound',)
                falls.append(hst)
        seq.append(r)
        if not falls:
            return
        if len(falls) == 1:
            st.env = falls[0].env
            st.hist = list(falls[0].hist)
            st.barrier(('ver', r))
            return
        st.barrier(('ver', r))
        # several ways to go on: the values differ by the way taken
        names = set()
        for f in falls:
            names.update(f.env)
        env = {}
        for v in names:
            vals = [f.env.get(v, ('unbound',)) for f in falls]
            if all(x == vals[0] for x in vals):
                env[v] = vals[0]
            else:
                env[v] = ('tryjoin', r, ('tuple',) + tuple(vals))
        st.env = env

    # ------------------------------------------------------------------------------------------------------- if

    def do_if(self, s, rest, st, seq, absorb=True):
        """Returns True when the rest of the block has been consumed."""
        c0 = self.ev_cond(s.test, st, seq)
        c, neg = canon_cond(c0)
        body, orelse = list(s.body), list(s.orelse)
        consumed = False
        if absorb:
            be, oe = _syn_ends(body), _syn_ends(orelse)
            if be and not oe:
                orelse = orelse + rest
                consumed = True
            elif oe and not be:
                body = body + rest
                consumed = True
            elif be and oe:
                consumed = True
            elif len(rest) == 1 and isinstance(rest[0], (ast.Continue, ast.Break, ast.Return)) and \
                    (not isinstance(rest[0], ast.Return) or rest[0].value is None or not self.has_event(rest[0].value)):
                body = body + rest
                orelse = orelse + rest
                consumed = True
        if neg:
            body, orelse = orelse, body
        self.branch(c, body, orelse, st, seq)
        return consumed

    def branch(self, c, body, orelse, st, seq):
        """c is canonical (not negated): `if c: body else: orelse`, given as statement lists."""
        if c[0] == 'AND':
            items = c[1:]
            # nested form when the else side is empty or a short exit; otherwise the conjunction stays a value
            a_st = None
            small_exit = _syn_ends(orelse) and len(orelse) <= 2 and not any(isinstance(x, (ast.If, ast.For, ast.While, ast.Try)) for x in orelse)
            if not orelse or small_exit:
                self.nested(list(items), body, orelse, st, seq)
                return
        if c in st.known:
            # the same condition (same reads at the same versions) was decided on the way here
            seq.extend(self.block(body if st.known[c] else orelse, st))
            return
        if c[0] == 'const' and c[1] in ('True', 'False', 'None', '0', '1'):
            seq.extend(self.block(body if c[1] in ('True', '1') else orelse, st))
            return
        if c[0] == 'cmp' and c[1] == 'is' and c[3] == ('const', 'None') and c[2][0] == 'attr' and c[2][2] in NONNULL_ATTRS:
            # the attribute only ever holds a container built on the spot: not None
            seq.extend(self.block(orelse, st))
            return
        if c[0] == 'cmp' and c[1] in ('is', '==') and c[2][0] == 'const' and c[3][0] == 'const':
            # two literals: decided here (`p = None; if p is None:` after a default argument has been bound)
            x, y = c[2][1], c[3][1]
            sing = ('None', 'True', 'False')
            verdict = None
            if c[1] == 'is' and x in sing and y in sing:
                verdict = x == y
            elif c[1] == '==' and x == y:
                verdict = True
            elif c[1] == '==' and _intconst(c[2]) is not None and _intconst(c[3]) is not None and x not in sing and y not in sing:
                verdict = _intconst(c[2]) == _intconst(c[3])
            if verdict is not None:
                seq.extend(self.block(body if verdict else orelse, st))
                return
        sa, sb = st.copy(), st.copy()
        sa.known[c] = True
        sb.known[c] = False
        a = self.block(body, sa)
        b = self.block(orelse, sb)
        self.join(c, a, sa, b, sb, st, seq)

    def nested(self, items, body, orelse, st, seq):
        (c, neg) = items[0]
        if c in st.known:
            truth = st.known[c] != neg
            if not truth:
                seq.extend(self.block(orelse, st))
            elif len(items) == 1:
                seq.extend(self.block(body, st))
            else:
                self.nested(items[1:], body, orelse, st, seq)
            return
        sa, sb = st.copy(), st.copy()
        sa.known[c] = True
        sb.known[c] = False
        if len(items) == 1:
            if neg:
                a = self.block(orelse, sa)
                b = self.block(body, sb)
            else:
                a = self.block(body, sa)
                b = self.block(orelse, sb)
            self.join(c, a, sa, b, sb, st, seq)
            return
        if neg:
            a = self.block(orelse, sa)
            b = []
            self.nested(items[1:], body, orelse, sb, b)
        else:
            a = []
            self.nested(items[1:], body, orelse, sa, a)
            b = self.block(orelse, sb)
        self.join(c, a, sa, b, sb, st, seq)

    def join(self, c, a, sa, b, sb, st, seq):
        """Append `if c: a else: b` in canonical form.  What both branches end with (the same kind of terminator, events
        of the same shape) is written once after the `if`, operands joined by phi; a branch that leaves becomes a guard."""
        pre = list(st.hist)
        ta_, tb_ = None, None
        if a and b and isinstance(a[-1], Term) and isinstance(b[-1], Term) and self.same_term(a[-1], b[-1]):
            ta_, tb_ = a.pop(), b.pop()
        ea, eb = ends(a), ends(b)
        if ta_ is None and (ea or eb):
            if ea:
                seq.append(If(c, a, []))
                seq.extend(b)
                st.env, st.hist, st.known = sb.env, sb.hist, sb.known
            else:
                seq.append(If(('not', c), b, []))
                seq.extend(a)
                st.env, st.hist, st.known = sa.env, sa.hist, sa.known
            return
        if ea or eb:
            # a common terminator was taken off but one side still always leaves earlier: put it back, guard form
            a.append(ta_)
            b.append(tb_)
            seq.append(If(c, a, []))
            seq.extend(b)
            st.env, st.hist, st.known = sb.env, sb.hist, sb.known
            return
        node = If(c, a, b)
        sunk = []
        while a and b and isinstance(a[-1], Event) and isinstance(b[-1], Event) and self.mergeable(a[-1], b[-1]):
            sunk.append((a.pop(), b.pop()))
        sunk.reverse()
        ha = [e for e in sa.hist if not any(e[0] == ('ver', x) for x, _ in sunk)]
        hb = [e for e in sb.hist if not any(e[0] == ('ver', y) for _, y in sunk)]
        extra = ha[len(pre):] + hb[len(pre):]
        hj = list(pre)
        if a or b:
            seq.append(node)
        if extra:
            touched = None
            if all(t is not None for _, t in extra):
                touched = frozenset().union(*[t for _, t in extra]) if extra else frozenset()
            hj.append((('ver', node), touched))
        ma, mb = {}, {}        # results / versions of events that were merged
        for x, y in sunk:
            args = [self.phi2(c, p, q, ma, mb, ha, hb, hj) for p, q in zip(x.args, y.args)]
            kw = [(k1, self.phi2(c, p, q, ma, mb, ha, hb, hj)) for (k1, p), (k2, q) in zip(x.kw, y.kw)]
            m = Event(x.kind, args, kw)
            seq.append(m)
            ma[('ev', x)] = ('ev', m)
            mb[('ev', y)] = ('ev', m)
            ma[('ver', x)] = ('ver', m)
            mb[('ver', y)] = ('ver', m)
            if x.kind == 'yield':
                m.touched = None
            else:
                t = set()
                for v in list(args) + [v for _, v in kw]:
                    roots(v, t, set())
                m.touched = frozenset(t)
            ha = ha + [(('ver', m), m.touched)]
            hb = hb + [(('ver', m), m.touched)]
            hj = hj + [(('ver', m), m.touched)]
        if ta_ is not None:
            val = None
            if ta_.val is not None or tb_.val is not None:
                val = self.phi2(c, ta_.val, tb_.val, ma, mb, ha, hb, hj)
            state = None
            if ta_.state is not None:
                state = []
                for (r, dx), (_, dy) in zip(ta_.state, tb_.state):
                    state.append((r, dict((v, self.phi2(c, dx[v], dy[v], ma, mb, ha, hb, hj)) for v in dx)))
            seq.append(Term(ta_.kind, val, state))
            return
        env = {}
        for v in set(sa.env) | set(sb.env):
            env[v] = self.phi2(c, sa.env.get(v, ('unbound',)), sb.env.get(v, ('unbound',)), ma, mb, ha, hb, hj)
        st.env = env
        st.hist = hj

    def phi2(self, c, p, q, ma, mb, ha, hb, hj):
        if ma:
            p = subst(p, ma)
        if mb:
            q = subst(q, mb)
        if p == q:
            return p
        # a read that is current at the end of its branch is the same read made after the join
        p2, q2 = rebase(p, ha, hj), rebase(q, hb, hj)
        if p2 == q2:
            return p2
        return mkphi(c, p, q)

    def same_term(self, x, y):
        if x.kind != y.kind:
            return False
        sx, sy = x.state or [], y.state or []
        if [r for r, _ in sx] != [r for r, _ in sy]:
            return False
        if x.kind == 'raise':
            return x.val[0] == y.val[0]
        return True

    def phi(self, c, p, q):
        return mkphi(c, p, q)

    def mergeable(self, x, y):
        if x.kind != y.kind or len(x.args) != len(y.args) or [k for k, _ in x.kw] != [k for k, _ in y.kw]:
            return False
        if x.kind == 'setattr' and x.args[1] != y.args[1]:
            return False
        if x.kind in ('yield', 'eval', 'comp'):
            return x.kind == 'yield'
        return True


# ------------------------------------------------------------------------------------------------------- serialisation

class Printer(object):
    """Canonical text.  Region variables that nothing reads are left out; the others are numbered by first use."""

    def __init__(self, seq):
        self.seq = seq
        self.ids = {}         # node -> number
        self.varids = {}      # (region, var) -> number
        self.lines = []
        self.live = None

    # ---- liveness of region variables: which (region, var) placeholders are read anywhere
    def compute_live(self):
        used = set()
        pending = []          # (region, var, value) from exit states and inits

        def scan_value(v, acc, memo):
            if not isinstance(v, tuple) or id(v) in memo:
                if isinstance(v, Node):
                    pass
                return
            memo.add(id(v))
            if v and v[0] in ('lv', 'after', 'tv') and isinstance(v[1], Region):
                acc.add((v[1], v[2]))
                return
            if v and v[0] == 'seq':
                for e in v[1]:
                    scan_node(e, acc, memo)
                scan_value(v[2], acc, memo)
                return
            for x in v:
                if isinstance(x, tuple):
                    scan_value(x, acc, memo)
                elif isinstance(x, Node):
                    pass

        def scan_node(n, acc, memo):
            if isinstance(n, tuple):
                scan_value(n, acc, memo)
                return
            if isinstance(n, Event):
                for a in n.args:
                    scan_value(a, acc, memo)
                for k, a in n.kw:
                    scan_value(a, acc, memo)
            elif isinstance(n, If):
                scan_value(n.cond, acc, memo)
                for x in n.a + n.b:
                    scan_node(x, acc, memo)
            elif isinstance(n, Region):
                scan_value(n.head, acc, memo)
                for v, val in n.init.items():
                    pending.append((n, v, val))
                for l, s in n.parts:
                    for x in s:
                        scan_node(x, acc, memo)
            elif isinstance(n, Term):
                if n.val is not None:
                    scan_value(n.val, acc, memo)
                for r, d in (n.state or []):
                    for v, val in d.items():
                        pending.append((r, v, val))

        memo = set()
        for n in self.seq:
            scan_node(n, used, memo)
        changed = True
        while changed:
            changed = False
            for r, v, val in pending:
                if (r, v) in used:
                    acc = set()
                    scan_value(val, acc, set())
                    if not acc <= used:
                        used |= acc
                        changed = True
        self.live = used

    def nid(self, n):
        if n not in self.ids:
            self.ids[n] = len(self.ids) + 1
        return self.ids[n]

    def vid(self, r, v):
        k = (r, v)
        if k not in self.varids:
            self.varids[k] = len(self.varids) + 1
        return self.varids[k]

    def val(self, v):
        if not isinstance(v, tuple):
            if isinstance(v, Node):
                return '<%d>' % self.nid(v)
            return repr(v)
        if not v:
            return '()'
        t = v[0]
        if not isinstance(t, str):
            return '[%s]' % ', '.join(self.val(x) for x in v)
        if t == 'const':
            return v[1]
        if t == 'glob':
            return 'G:' + v[1]
        if t == 'param':
            return 'P:' + v[1]
        if t == 'ev':
            return '#%d' % self.nid(v[1])
        if t == 'ver':
            if v[1] == 'entry':
                return '@0'
            return '@%d%s' % (self.nid(v[1]), v[2] if len(v) > 2 else '')
        if t in ('lv', 'after', 'tv'):
            return '%s%d.%d' % (t, self.nid(v[1]), self.vid(v[1], v[2]))
        if t == 'item':
            return 'item%d' % self.nid(v[1])
        if t == 'excobj':
            return 'exc%d.%d' % (self.nid(v[1]), v[2])
        if t == 'tryjoin':
            return 'tryjoin%d%s' % (self.nid(v[1]), self.val(v[2]))
        if t == 'seq':
            inner = Printer([])
            inner.ids, inner.varids, inner.live = self.ids, self.varids, self.live
            for e in v[1]:
                inner.node(e, 0)
            return 'seq{%s => %s}' % ('; '.join(x.strip() for x in inner.lines), self.val(v[2]))
        return '%s(%s)' % (t, ', '.join(self.val(x) for x in v[1:]))

    def state(self, st):
        parts = []
        for r, d in (st or []):
            items = [(v, val) for v, val in d.items() if (r, v) in self.live]
            # number by first use elsewhere; variables first met here get their numbers in order of their values' text
            known = sorted((self.varids[(r, v)], v, val) for v, val in items if (r, v) in self.varids)
            fresh = [(v, val) for v, val in items if (r, v) not in self.varids]
            fresh.sort(key=lambda x: self.val_preview(x[1]))
            txt = []
            for _, v, val in known:
                txt.append('%d=%s' % (self.varids[(r, v)], self.val(val)))
            for v, val in fresh:
                t = self.val(val)
                txt.append('%d=%s' % (self.vid(r, v), t))
            parts.append('<%d>{%s}' % (self.nid(r), ', '.join(txt)))
        return ' '.join(parts)

    def val_preview(self, v):
        p = Printer([])
        p.ids, p.varids, p.live = dict(self.ids), dict(self.varids), self.live
        return p.val(v)

    def node(self, n, ind):
        pad = '  ' * ind
        if isinstance(n, tuple):
            if n and n[0] == 'HANDLER':
                self.lines.append(pad + 'handler %s' % self.val(n[1]))
            else:
                self.lines.append(pad + 'value %s' % self.val(n))
            return
        if isinstance(n, Event):
            args = ', '.join(self.val(a) for a in n.args)
            kw = ', '.join('%s=%s' % (k, self.val(a)) for k, a in n.kw)
            txt = '%s(%s%s)' % (n.kind, args, (', ' + kw) if kw else '')
            self.lines.append(pad + '#%d = %s' % (self.nid(n), txt))
        elif isinstance(n, If):
            self.lines.append(pad + 'if<%d> %s:' % (self.nid(n), self.val(n.cond)))
            for x in n.a:
                self.node(x, ind + 1)
            if n.b:
                self.lines.append(pad + 'else:')
                for x in n.b:
                    self.node(x, ind + 1)
        elif isinstance(n, Region):
            i = self.nid(n)
            self.lines.append(pad + '%s<%d> %s:' % (n.kind, i, self.val(n.head)))
            init_line_at = len(self.lines)
            for l, s in n.parts:
                self.lines.append(pad + ' %s:' % l)
                for x in s:
                    self.node(x, ind + 1)
            items = sorted((self.varids[(n, v)], self.val(val)) for v, val in n.init.items() if (n, v) in self.live and (n, v) in self.varids)
            self.lines.insert(init_line_at, pad + ' init {%s}' % ', '.join('%d=%s' % x for x in items))
        elif isinstance(n, Term):
            t = n.kind
            if n.kind in ('return', 'raise') and n.val is not None:
                t += ' ' + self.val(n.val)
            stt = self.state(n.state)
            if n.kind in ('continue', 'break') or stt:
                t += ' ' + stt
            self.lines.append(pad + t)

    def text(self):
        self.compute_live()
        for n in self.seq:
            self.node(n, 0)
        return '\n'.join(self.lines)


def signature(fn):
    a = fn.args
    parts = [x.arg for x in a.posonlyargs] + ['/'] + [x.arg for x in a.args]
    parts.append('*' + (a.vararg.arg if a.vararg else ''))
    parts += [x.arg for x in a.kwonlyargs]
    parts.append('**' + (a.kwarg.arg if a.kwarg else ''))
    defaults = [ast.unparse(d) for d in a.defaults] + [ast.unparse(d) if d is not None else '-' for d in a.kw_defaults]
    decos = [ast.unparse(d) for d in fn.decorator_list]
    return 'def %s(%s) defaults=%s decorators=%s' % (fn.name, ', '.join(parts), defaults, decos)


def _mentions_value(v, target, memo):
    if v == target:
        return True
    if isinstance(v, tuple):
        if id(v) in memo:
            return False
        memo.add(id(v))
        return any(_mentions_value(x, target, memo) for x in v)
    return False


_KW_READS = ('pop', 'get', 'items', 'keys', 'values', 'copy', '__contains__')


def _hoist_kwargs(seq, kw):
    """The function's own `**kwargs` dict is fresh and, as long as it is only read through pop / get / items / keys /
    values / copy / `in` / `**`, invisible to everything the function calls.  `kwargs.pop(<literal>, <default>)` and
    `kwargs.get(<literal>[, <default>])` cannot raise and touch nothing else: within a straight-line run they are moved in
    front of preceding events that do not involve `kwargs` - the order in which options are picked out of `kwargs`
    relative to unrelated calls is not behaviour."""
    target = ('param', kw)

    def total(n):
        if not (isinstance(n, Event) and n.kind == 'call' and not n.kw and n.args):
            return False
        f = n.args[0]
        if not (isinstance(f, tuple) and len(f) == 3 and f[0] == 'meth' and f[1] == target and f[2] in ('pop', 'get')):
            return False
        rest = n.args[1:]
        if not rest or rest[0][0] != 'const' or any(_mentions_value(a, target, set()) for a in rest):
            return False
        return len(rest) == 2 if f[2] == 'pop' else len(rest) in (1, 2)

    # is kwargs used in any way that could make it visible elsewhere?
    escapes = []

    def scan_value(v, memo, holder):
        if not isinstance(v, tuple) or id(v) in memo:
            return
        memo.add(id(v))
        if v == target:
            escapes.append(holder)
            return
        if len(v) == 3 and v[0] == 'meth' and v[1] == target and v[2] in _KW_READS:
            return
        if v and v[0] in ('cmp',) and len(v) == 4 and v[1] in ('in', 'not in') and v[3] == target:
            scan_value(v[2], memo, holder)
            return
        for x in v:
            scan_value(x, memo, holder)

    def scan(nodes):
        for n in nodes:
            if isinstance(n, Event):
                memo = set()
                for a in n.args:
                    scan_value(a, memo, n)
                for k, a in n.kw:
                    if k == '**' and a == target:
                        continue
                    scan_value(a, memo, n)
            elif isinstance(n, If):
                scan_value(n.cond, set(), n)
                scan(n.a)
                scan(n.b)
            elif isinstance(n, Region):
                scan_value(n.head, set(), n)
                for v in n.init.values():
                    scan_value(v, set(), n)
                for l, part in n.parts:
                    scan([x for x in part if isinstance(x, Node)])
            elif isinstance(n, Term):
                if n.val is not None:
                    scan_value(n.val, set(), n)
                for r, d in (n.state or []):
                    for v in d.values():
                        scan_value(v, set(), n)
    scan(seq)
    if escapes:
        return seq

    def walk(nodes):
        i = 0
        while i < len(nodes):
            n = nodes[i]
            if isinstance(n, If):
                walk(n.a)
                walk(n.b)
            elif isinstance(n, Region):
                for l, part in n.parts:
                    walk(part)
            elif total(n):
                j = i
                while j > 0:
                    p = nodes[j - 1]
                    if not isinstance(p, Event) or p.kind == 'yield':
                        break
                    if any(_mentions_value(a, target, set()) for a in p.args) or any(_mentions_value(a, target, set()) for k, a in p.kw):
                        break
                    nodes[j - 1], nodes[j] = nodes[j], nodes[j - 1]
                    j -= 1
            i += 1
    walk(seq)
    return seq


def normal_form(fn):
    """Canonical text of the function's behaviour, or raises Unsupported."""
    ex = Exec(fn)
    seq = ex.run()
    if fn.args.kwarg is not None:
        seq = _hoist_kwargs(seq, fn.args.kwarg.arg)
    return signature(fn) + '\n' + Printer(seq).text()


def equivalent(cur, ref):
    """Proven equivalent?  (bool, reason)"""
    try:
        a = normal_form(cur)
        b = normal_form(ref)
    except Unsupported as e:
        return False, 'unsupported: %s' % e
    except RecursionError:
        return False, 'too deep'
    if a == b:
        return True, ''
    return False, 'normal forms differ'
