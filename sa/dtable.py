"""Decision tables of small selection regions.

A region is a list of statements that, depending on boolean conditions, assign an expression to one of a few target
variables (or raise).  Two regions that look different (if/elif chains vs merged conditions, explaining variables, aliases
for a repeated subscript) are compared by their tables: every valuation of the atomic conditions is mapped to the
(normalised) expression each target ends up with.  Conditions are propositional combinations (`and`, `or`, `not`) of
atoms; an atom is any other expression, identified by its normalised text after local aliases have been substituted.
This is a finite symbolic evaluation of extracted statements, not an execution of the analysed code.
"""
import ast
import itertools

from sa.model import norm


class Unknown(Exception):
    pass


def _pure(e):
    if isinstance(e, (ast.Name, ast.Constant)):
        return True
    if isinstance(e, ast.Attribute):
        return _pure(e.value)
    if isinstance(e, ast.Subscript):
        return _pure(e.value) and _pure(e.slice)
    if isinstance(e, (ast.BoolOp,)):
        return all(_pure(v) for v in e.values)
    if isinstance(e, ast.UnaryOp):
        return _pure(e.operand)
    if isinstance(e, ast.Compare):
        return _pure(e.left) and all(_pure(c) for c in e.comparators)
    if isinstance(e, ast.Call):
        return isinstance(e.func, ast.Name) and e.func.id in ('len', 'isinstance') and all(_pure(a) for a in e.args)
    return False


def _subst(e, env):
    """Clone of e with local aliases replaced by their defining expressions."""
    t = ast.parse(ast.unparse(e), mode='eval').body

    class R(ast.NodeTransformer):
        def visit_Name(self, n):
            if isinstance(n.ctx, ast.Load) and n.id in env:
                return ast.parse(ast.unparse(env[n.id]), mode='eval').body
            return n
    for _ in range(4):
        t = R().visit(t)
    return t


def _atoms(e, out):
    if isinstance(e, ast.BoolOp):
        for v in e.values:
            _atoms(v, out)
    elif isinstance(e, ast.UnaryOp) and isinstance(e.op, ast.Not):
        _atoms(e.operand, out)
    else:
        out.add(norm(e))


def _evalb(e, val):
    if isinstance(e, ast.BoolOp):
        vs = [_evalb(v, val) for v in e.values]
        return all(vs) if isinstance(e.op, ast.And) else any(vs)
    if isinstance(e, ast.UnaryOp) and isinstance(e.op, ast.Not):
        return not _evalb(e.operand, val)
    return val[norm(e)]


def _run(stmts, targets, val, env, result, atoms):
    """Returns False when a raise / jump ended the region."""
    for s in stmts:
        if isinstance(s, ast.Expr) and isinstance(s.value, ast.Constant):
            continue
        if isinstance(s, ast.If):
            t = _subst(s.test, env)
            if isinstance(t, ast.Name) and t.id == 'LOG':
                continue
            if val is None:
                _atoms(t, atoms)
                e1, e2 = dict(env), dict(env)
                _run(s.body, targets, None, e1, result, atoms)
                _run(s.orelse, targets, None, e2, result, atoms)
                for k in set(e1) | set(e2):
                    if k in e1 and k in e2 and norm(e1[k]) == norm(e2[k]):
                        env[k] = e1[k]
                    else:
                        env.pop(k, None)
                continue
            if not _run(s.body if _evalb(t, val) else s.orelse, targets, val, env, result, atoms):
                return False
        elif isinstance(s, ast.Try):
            if not _run(s.body, targets, val, env, result, atoms):
                return False
        elif isinstance(s, ast.Assign) and len(s.targets) == 1 and isinstance(s.targets[0], ast.Name):
            name = s.targets[0].id
            v = _subst(s.value, env)
            if name in targets:
                result[name] = norm(v)
                env.pop(name, None)
            elif _pure(s.value):
                env[name] = v
            else:
                env.pop(name, None)
        elif isinstance(s, ast.Raise):
            result['raise'] = norm(s.exc.func if isinstance(s.exc, ast.Call) else s.exc) if s.exc is not None else 'raise'
            return False
        elif isinstance(s, (ast.Continue, ast.Break, ast.Return)):
            result['jump'] = type(s).__name__
            return False
        elif isinstance(s, (ast.AugAssign, ast.Expr, ast.Pass)):
            if isinstance(s, ast.AugAssign) and isinstance(s.target, ast.Name) and s.target.id in targets:
                raise Unknown('augmented assignment to %s' % s.target.id)
            continue
        else:
            raise Unknown(type(s).__name__)
    return True


def table(stmts, targets, rename=None, max_atoms=10, aliases=None):
    """{frozenset(true atoms): {target: expr text}} and the sorted atom list."""
    atoms = set()
    _run(stmts, targets, None, dict(aliases or {}), {}, atoms)
    atoms = sorted(atoms)
    if len(atoms) > max_atoms:
        raise Unknown('%d atomic conditions' % len(atoms))
    out = {}
    for bits in itertools.product((False, True), repeat=len(atoms)):
        val = dict(zip(atoms, bits))
        res = {}
        _run(stmts, targets, val, dict(aliases or {}), res, set())
        if rename:
            res = dict((rename.get(k, k), v) for k, v in res.items())
        out[frozenset(a for a in atoms if val[a])] = res
    return out, atoms


def single_aliases(stmts, exclude=()):
    """Locals bound exactly once in `stmts` (at any depth) to a call-free expression: usable as aliases everywhere."""
    seen = {}
    for s in stmts:
        for n in ast.walk(s):
            if isinstance(n, ast.Name) and isinstance(n.ctx, ast.Store):
                seen[n.id] = seen.get(n.id, 0) + 1
    out = {}
    for s in stmts:
        for n in ast.walk(s):
            if isinstance(n, ast.Assign) and len(n.targets) == 1 and isinstance(n.targets[0], ast.Name):
                v = n.targets[0].id
                if seen.get(v) == 1 and v not in exclude and _pure(n.value) and not isinstance(n.value, ast.Constant):
                    out[v] = n.value
    return out


def project(tab, atoms, onto):
    """Table over the atom subset `onto`, or None if the result depends on an atom outside it."""
    out = {}
    for key, res in tab.items():
        k = frozenset(a for a in key if a in onto)
        r = tuple(sorted(res.items()))
        if k in out and out[k] != r:
            return None
        out[k] = r
    return out
