"""Command line driver:  ./check <Cnn> [--tier quick|thorough] [--replay file] [--repo dir]

exit 0  every obligation discharged or listed in known_findings.json
exit 1  at least one undischarged obligation that is not a listed finding
        (a line `VIOLATION property=<id> replay=<path>` is printed for each)
exit 2  ANALYSIS-ERROR: the analyser could not decide (parse failure, vanished
        anchor, unrecognised shape, instance count below the confirmed minimum)
"""
import json
import os
import sys
import time
import traceback


def main(argv):
    args = list(argv)
    if not args:
        print(__doc__)
        return 2
    pid = args.pop(0)
    tier = os.environ.get('VERIF_TIER', 'quick') or 'quick'
    replay = None
    repo = None
    while args:
        a = args.pop(0)
        if a == '--tier':
            tier = args.pop(0)
        elif a == '--replay':
            replay = args.pop(0)
        elif a == '--repo':
            repo = args.pop(0)
        else:
            print('ANALYSIS-ERROR: unknown argument %s' % a)
            return 2
    if tier not in ('quick', 'thorough'):
        tier = 'quick'
    if repo:
        os.environ['PYASN1_REPO'] = repo
    try:
        from sa import core, props
        from sa.model import AnalysisError
    except Exception:
        traceback.print_exc()
        print('ANALYSIS-ERROR: analyser failed to import')
        return 2
    if pid == 'all':
        rc = 0
        for p in sorted(props.PROPS):
            r = main([p, '--tier', tier] + (['--repo', repo] if repo else []))
            rc = max(rc, r)
        return rc
    if pid not in props.PROPS:
        print('ANALYSIS-ERROR: unknown property %s' % pid)
        return 2
    spec = props.PROPS[pid]
    try:
        rc, ev, lines, ctx = core.run_property(pid, spec, tier, repo)
        if rc == 2 and replay is None:
            for l in lines:
                print(l)
            return 2
        if tier == 'thorough' and replay is None:
            from sa import selftest
            st = selftest.run(pid, spec)
            ev['coverage']['selftest'] = st['summary']
            lines.extend(st['lines'])
            if st['broken']:
                for l in lines:
                    print(l)
                print('ANALYSIS-ERROR: checker self-validation failed for %s: %s' % (pid, st['broken']))
                return 2
            ev['wall_s'] = round(ev['wall_s'] + st['wall_s'], 3)
    except AnalysisError as e:
        print('ANALYSIS-ERROR: property=%s %s' % (pid, e))
        return 2
    except Exception:
        traceback.print_exc()
        print('ANALYSIS-ERROR: property=%s internal error in the analyser' % pid)
        return 2
    if replay is not None:
        try:
            with open(replay) as fh:
                want = json.load(fh)['obligation']
        except Exception as e:
            print('ANALYSIS-ERROR: cannot read replay file %s: %s' % (replay, e))
            return 2
        hit = [o for o in ctx.obs if (o.rule, o.func, o.key) == (want['rule'], want['func'], want['key'])]
        if not hit:
            print('REPLAY: obligation %s/%s/[%s] no longer exists in the tree' % (want['rule'], want['func'], want['key']))
            return 0
        bad = [o for o in hit if not o.ok]
        for o in hit:
            print('REPLAY: %s %s [%s] at %s -> %s: %s' % (o.rule, o.func, o.key, o.site, 'ok' if o.ok else 'FAILS', o.detail))
        if bad:
            print('VIOLATION property=%s replay=%s' % (pid, replay))
            return 1
        return 0
    target = repo or os.environ.get('PYASN1_REPO') or '/repo'
    if os.path.realpath(target) == os.path.realpath('/repo'):
        core.write_evidence(pid, ev)       # evidence describes /repo itself; runs on scratch copies (--repo) leave it alone
    print('property %s tier=%s obligations=%d discharged=%d wall=%.2fs digest=%s' % (
        pid, tier, ev['coverage']['obligations'], ev['coverage']['discharged'], ev['wall_s'],
        ev['coverage']['source_digest'][:12]))
    for l in lines:
        print(l)
    return rc


if __name__ == '__main__':
    sys.exit(main(sys.argv[1:]))
