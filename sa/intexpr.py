"""Evaluation of *pure integer guard expressions* over finite domains.

Used to characterise a guard by the set of octet values it accepts
(e.g. `firstOctet < 128`, `fo & 0x80`, `byte == 0xff`).  Only arithmetic,
bitwise, comparison and boolean operators on ints are interpreted; any other
construct raises NotPure, and the calling rule reports an analysis error.
This is a truth-table computation on an extracted expression, not an
execution of pyasn1 code.
"""
import ast


class NotPure(Exception):
    pass


IDENTITY_CALLS = ('oct2int', 'ord', 'int')


def ev(e, env, resolver=None):
    if isinstance(e, ast.Constant):
        if isinstance(e.value, (int, bool)) or e.value is None:
            return e.value
        raise NotPure('constant %r' % (e.value,))
    if isinstance(e, ast.Name):
        if e.id in env:
            return env[e.id]
        if resolver is not None:
            v = resolver(e)
            if isinstance(v, (int, bool)):
                return v
        raise NotPure('name %s' % e.id)
    if isinstance(e, ast.Attribute):
        if resolver is not None:
            v = resolver(e)
            if isinstance(v, (int, bool)) or (isinstance(v, (dict, tuple)) and v.__class__ in (dict, tuple)):
                return v
        raise NotPure('attribute %s' % ast.unparse(e))
    if isinstance(e, ast.Tuple):
        return tuple(ev(x, env, resolver) for x in e.elts)
    if isinstance(e, ast.Subscript):
        b = ev(e.value, env, resolver)
        if isinstance(b, dict) and not isinstance(e.slice, ast.Slice):
            try:
                return b[ev(e.slice, env, resolver)]
            except Exception as x:
                raise NotPure('lookup: %s' % x)
        if not isinstance(b, tuple):
            raise NotPure('subscript of a non-tuple')
        if isinstance(e.slice, ast.Slice):
            lo, hi, st = [ev(x, env, resolver) if x is not None else None for x in (e.slice.lower, e.slice.upper, e.slice.step)]
            return b[lo:hi:st]
        i = ev(e.slice, env, resolver)
        try:
            return b[i]
        except Exception as x:
            raise NotPure(str(x))
    if isinstance(e, ast.BinOp):
        a, b = ev(e.left, env, resolver), ev(e.right, env, resolver)
        op = e.op
        try:
            if isinstance(op, ast.Add):
                return a + b
            if isinstance(op, ast.Sub):
                return a - b
            if isinstance(op, ast.Mult):
                return a * b
            if isinstance(op, ast.FloorDiv):
                return a // b
            if isinstance(op, ast.Mod):
                return a % b
            if isinstance(op, ast.BitAnd):
                return a & b
            if isinstance(op, ast.BitOr):
                return a | b
            if isinstance(op, ast.BitXor):
                return a ^ b
            if isinstance(op, ast.LShift):
                return a << b
            if isinstance(op, ast.RShift):
                return a >> b
            if isinstance(op, ast.Pow) and 0 <= b < 64:
                return a ** b
        except Exception as x:
            raise NotPure(str(x))
        raise NotPure('operator')
    if isinstance(e, ast.UnaryOp):
        v = ev(e.operand, env, resolver)
        if isinstance(e.op, ast.Not):
            return not v
        if isinstance(e.op, ast.USub):
            return -v
        if isinstance(e.op, ast.Invert):
            return ~v
        if isinstance(e.op, ast.UAdd):
            return +v
    if isinstance(e, ast.BoolOp):
        last = None
        for x in e.values:
            last = ev(x, env, resolver)
            if isinstance(e.op, ast.And) and not last:
                return last
            if isinstance(e.op, ast.Or) and last:
                return last
        return last
    if isinstance(e, ast.Compare):
        left = ev(e.left, env, resolver)
        for op, r in zip(e.ops, e.comparators):
            if isinstance(op, (ast.In, ast.NotIn)) and not isinstance(r, (ast.Tuple, ast.List, ast.Set)):
                cont = ev(r, env, resolver)
                if not isinstance(cont, (dict, tuple)):
                    raise NotPure('membership in a non-container')
                res = left in cont
                if isinstance(op, ast.NotIn):
                    res = not res
                if not res:
                    return False
                continue
            if isinstance(op, (ast.In, ast.NotIn)) and isinstance(r, (ast.Tuple, ast.List, ast.Set)):
                vals = [ev(x, env, resolver) for x in r.elts]
                res = left in vals
                if isinstance(op, ast.NotIn):
                    res = not res
                if not res:
                    return False
                continue
            right = ev(r, env, resolver)
            if isinstance(op, ast.Lt):
                res = left < right
            elif isinstance(op, ast.LtE):
                res = left <= right
            elif isinstance(op, ast.Gt):
                res = left > right
            elif isinstance(op, ast.GtE):
                res = left >= right
            elif isinstance(op, ast.Eq):
                res = left == right
            elif isinstance(op, ast.NotEq):
                res = left != right
            elif isinstance(op, ast.Is):
                res = left is right
            elif isinstance(op, ast.IsNot):
                res = left is not right
            else:
                raise NotPure('comparison')
            if not res:
                return False
            left = right
        return True
    if isinstance(e, ast.IfExp):
        return ev(e.body if ev(e.test, env, resolver) else e.orelse, env, resolver)
    if isinstance(e, ast.Call) and isinstance(e.func, ast.Name) and e.func.id == 'bool' and len(e.args) == 1 and not e.keywords:
        return bool(ev(e.args[0], env, resolver))
    if isinstance(e, ast.Call) and isinstance(e.func, ast.Name) and e.func.id in IDENTITY_CALLS \
            and len(e.args) == 1 and not e.keywords:
        return ev(e.args[0], env, resolver)
    if isinstance(e, ast.Call) and isinstance(e.func, ast.Name) and e.func.id in ('max', 'min', 'abs') and not e.keywords and e.args:
        vals = [ev(a, env, resolver) for a in e.args]
        if e.func.id == 'abs' and len(vals) == 1:
            return abs(vals[0])
        if e.func.id in ('max', 'min') and len(vals) >= 2:
            return max(vals) if e.func.id == 'max' else min(vals)
    if isinstance(e, ast.Call) and isinstance(e.func, ast.Name) and e.func.id == 'divmod' and len(e.args) == 2 and not e.keywords:
        a, b = ev(e.args[0], env, resolver), ev(e.args[1], env, resolver)
        try:
            return divmod(a, b)
        except Exception as x:
            raise NotPure(str(x))
    if isinstance(e, ast.Call) and isinstance(e.func, ast.Attribute) and e.func.attr == 'bit_length' and not e.args:
        v = ev(e.func.value, env, resolver)
        if isinstance(v, int):
            return v.bit_length()
    raise NotPure(type(e).__name__)


def accept_set(expr, var, domain, env=None, resolver=None):
    """Values v of `domain` for which `expr` is truthy with `var` bound to v."""
    out = set()
    base = dict(env or {})
    for v in domain:
        base[var] = v
        if ev(expr, base, resolver):
            out.add(v)
    return out


def fmt_set(s, domain_max=255):
    """Compact interval rendering of a set of ints."""
    if not s:
        return '{}'
    xs = sorted(s)
    runs = []
    a = b = xs[0]
    for x in xs[1:]:
        if x == b + 1:
            b = x
        else:
            runs.append((a, b))
            a = b = x
    runs.append((a, b))
    return ','.join(('%d' % a) if a == b else ('%d..%d' % (a, b)) for a, b in runs)
