"""Statement-level control-flow graph for the statement kinds pyasn1 uses.

Nodes: one per simple statement, one per branch test (`if`/`while`), one per
`for` head, one per `except` clause entry, plus ENTRY, EXIT (normal return or
fall off the end) and RAISE (an exception leaves the function).

Exception edges: every node created inside a `try` body gets an edge labelled
'exc' to each handler of every enclosing `try` (over-approximation: any
statement may raise).  Explicit `raise` goes to the enclosing handlers and to
RAISE.  Nested `def`/`lambda`/`class` are opaque simple statements.
"""
import ast

from sa.model import AnalysisError, norm


class Node(object):
    __slots__ = ('id', 'kind', 'ast', 'succs', 'preds', 'loop', 'in_try')

    def __init__(self, id, kind, astnode=None):
        self.id = id
        self.kind = kind
        self.ast = astnode
        self.succs = []   # (node, label)
        self.preds = []   # (node, label)
        self.loop = None  # innermost loop head node (for 'for'/'while' bodies)
        self.in_try = ()

    @property
    def lineno(self):
        return getattr(self.ast, 'lineno', 0)

    def text(self):
        if self.kind in ('entry', 'exit', 'raise'):
            return '<%s>' % self.kind
        if self.kind == 'test':
            return 'if ' + norm(self.ast.test)
        if self.kind == 'while':
            return 'while ' + norm(self.ast.test)
        if self.kind == 'for':
            return 'for %s in %s' % (norm(self.ast.target), norm(self.ast.iter))
        if self.kind == 'except':
            return 'except ' + norm(self.ast.type)
        return norm(self.ast)

    def __repr__(self):
        return '<N%d %s L%d %s>' % (self.id, self.kind, self.lineno, self.text()[:50])


SIMPLE = (ast.Expr, ast.Assign, ast.AugAssign, ast.AnnAssign, ast.Pass, ast.Delete,
          ast.Global, ast.Nonlocal, ast.Import, ast.ImportFrom, ast.Assert,
          ast.FunctionDef, ast.ClassDef, ast.AsyncFunctionDef)


class CFG(object):
    def __init__(self, fnode):
        self.fnode = fnode
        self.nodes = []
        self.node_of = {}    # ast stmt -> node (simple stmt, or head/test of compound)
        self._handlers = []  # stack of lists of handler nodes
        self._loops = []     # stack of (head node, break list)
        self.entry = self._new('entry')
        self.exit = self._new('exit')
        self.raise_exit = self._new('raise')
        out = self._block(fnode.body, [(self.entry, 'next')])
        self._connect(out, self.exit)
        self._dom = None
        self._pdom = None

    # ----------------------------------------------------------- construction
    def _new(self, kind, astnode=None):
        n = Node(len(self.nodes), kind, astnode)
        self.nodes.append(n)
        if astnode is not None and astnode not in self.node_of:
            self.node_of[astnode] = n
        if self._loops:
            n.loop = self._loops[-1][0]
        if kind not in ('entry', 'exit', 'raise'):
            for hs in reversed(self._handlers):
                for h in hs:
                    self._edge(n, h, 'exc')
            n.in_try = tuple(tuple(hs) for hs in self._handlers)
        return n

    def _edge(self, a, b, label):
        a.succs.append((b, label))
        b.preds.append((a, label))

    def _connect(self, preds, node):
        for p, lab in preds:
            self._edge(p, node, lab)

    def _block(self, stmts, preds):
        for s in stmts:
            preds = self._stmt(s, preds)
        return preds

    def _stmt(self, s, preds):
        if isinstance(s, SIMPLE):
            n = self._new('stmt', s)
            self._connect(preds, n)
            return [(n, 'next')]
        if isinstance(s, ast.Return):
            n = self._new('return', s)
            self._connect(preds, n)
            self._edge(n, self.exit, 'return')
            return []
        if isinstance(s, ast.Raise):
            n = self._new('raisestmt', s)
            self._connect(preds, n)
            self._edge(n, self.raise_exit, 'raise')
            return []
        if isinstance(s, ast.Break):
            n = self._new('break', s)
            self._connect(preds, n)
            if not self._loops:
                raise AnalysisError('break outside loop')
            self._loops[-1][1].append((n, 'break'))
            return []
        if isinstance(s, ast.Continue):
            n = self._new('continue', s)
            self._connect(preds, n)
            if not self._loops:
                raise AnalysisError('continue outside loop')
            self._edge(n, self._loops[-1][0], 'continue')
            return []
        if isinstance(s, ast.If):
            t = self._new('test', s)
            self._connect(preds, t)
            a = self._block(s.body, [(t, 'true')])
            b = self._block(s.orelse, [(t, 'false')]) if s.orelse else [(t, 'false')]
            return a + b
        if isinstance(s, ast.While):
            h = self._new('while', s)
            self._connect(preds, h)
            breaks = []
            self._loops.append((h, breaks))
            out = self._block(s.body, [(h, 'true')])
            self._loops.pop()
            for p, lab in out:
                self._edge(p, h, 'back')
            always = isinstance(s.test, ast.Constant) and bool(s.test.value)
            res = list(breaks)
            if not always:
                if s.orelse:
                    res += self._block(s.orelse, [(h, 'false')])
                else:
                    res.append((h, 'false'))
            return res
        if isinstance(s, ast.For):
            h = self._new('for', s)
            self._connect(preds, h)
            breaks = []
            self._loops.append((h, breaks))
            out = self._block(s.body, [(h, 'item')])
            self._loops.pop()
            for p, lab in out:
                self._edge(p, h, 'back')
            res = list(breaks)
            if s.orelse:
                res += self._block(s.orelse, [(h, 'exhausted')])
            else:
                res.append((h, 'exhausted'))
            return res
        if isinstance(s, ast.Try):
            hnodes = []
            # handler entry nodes are created outside the try's own handler scope
            for h in s.handlers:
                hn = self._new('except', h)
                hnodes.append(hn)
            self._handlers.append(hnodes)
            out = self._block(s.body, preds)
            self._handlers.pop()
            out = self._block(s.orelse, out) if s.orelse else out
            res = list(out)
            for h, hn in zip(s.handlers, hnodes):
                res += self._block(h.body, [(hn, 'handler')])
            if s.finalbody:
                # normal completion copy only; the exceptional copy is modelled by a
                # second pass over the same statements leading to RAISE
                res = self._block(s.finalbody, res)
            return res
        if isinstance(s, ast.With):
            # the context expressions are evaluated (and bound) at a header node, then the body runs; exceptions leave
            # through the enclosing handlers like those of any other statement (a suppressing __exit__ is not modelled)
            n = self._new('with', s)
            self._connect(preds, n)
            return self._block(s.body, [(n, 'next')])
        if isinstance(s, (ast.AsyncWith, ast.Match, ast.AsyncFor, ast.TryStar)):
            raise AnalysisError('statement kind %s not supported by the CFG builder (line %d)'
                                % (type(s).__name__, s.lineno))
        raise AnalysisError('unknown statement kind %s (line %d)' % (type(s).__name__, getattr(s, 'lineno', 0)))

    # --------------------------------------------------------------- queries
    def stmt_nodes(self):
        return [n for n in self.nodes if n.kind not in ('entry', 'exit', 'raise')]

    def reachable(self, start, avoid=(), labels_skip=()):
        """Nodes reachable from `start` (exclusive unless on a cycle), never entering `avoid`."""
        avoid = set(avoid)
        seen = set()
        stack = [start]
        first = True
        while stack:
            n = stack.pop()
            for s, lab in n.succs:
                if lab in labels_skip:
                    continue
                if s in avoid or s in seen:
                    continue
                seen.add(s)
                stack.append(s)
        return seen

    def dominators(self):
        if self._dom is None:
            self._dom = _dominators(self.nodes, self.entry, lambda n: [p for p, _ in n.preds])
        return self._dom

    def dominates(self, a, b):
        return a in self.dominators().get(b, ())

    def postdominators(self):
        if self._pdom is None:
            # virtual sink joining EXIT and RAISE
            self._pdom = _dominators(self.nodes, None, lambda n: [s for s, _ in n.succs],
                                     roots=[self.exit, self.raise_exit])
        return self._pdom

    def must_pass(self, src, dst, pred):
        """True iff every path src ->* dst contains a node satisfying pred (src/dst excluded)."""
        blocked = set(n for n in self.nodes if n is not src and n is not dst and pred(n))
        return dst not in self.reachable(src, avoid=blocked)

    def control_deps(self, node):
        """Branch nodes (test/while/for/except) that `node` is control dependent on, with the label taken."""
        pdom = self.postdominators()
        res = []
        for b in self.nodes:
            if len(b.succs) < 2:
                continue
            for s, lab in b.succs:
                if lab == 'exc':
                    continue
                # node is control dependent on (b, lab) if node postdominates s (or is s) but not b
                if (node is s or node in pdom.get(s, ())) and node not in (pdom.get(b, set()) - {b}):
                    res.append((b, lab))
        return res


def _dominators(nodes, entry, preds_of, roots=None):
    allset = set(nodes)
    dom = {}
    roots = roots if roots is not None else [entry]
    for n in nodes:
        dom[n] = set(allset)
    for r in roots:
        dom[r] = {r}
    changed = True
    order = list(nodes)
    while changed:
        changed = False
        for n in order:
            if n in roots:
                continue
            ps = preds_of(n)
            if not ps:
                new = {n}
            else:
                it = iter(ps)
                new = set(dom[next(it)])
                for p in it:
                    new &= dom[p]
                new.add(n)
            if new != dom[n]:
                dom[n] = new
                changed = True
    return dom


# ---------------------------------------------------------------- def/use

def assigned_names(target):
    out = []
    if isinstance(target, ast.Name):
        out.append(target.id)
    elif isinstance(target, (ast.Tuple, ast.List)):
        for e in target.elts:
            out.extend(assigned_names(e))
    elif isinstance(target, ast.Starred):
        out.extend(assigned_names(target.value))
    return out


def node_defs(n):
    """Local names (re)defined at CFG node n."""
    a = n.ast
    if n.kind == 'for':
        return assigned_names(a.target)
    if n.kind == 'except':
        return [a.name] if a.name else []
    if n.kind == 'with':
        out = []
        for i in a.items:
            if i.optional_vars is not None:
                out.extend(assigned_names(i.optional_vars))
        return out
    if n.kind in ('stmt',):
        if isinstance(a, ast.Assign):
            out = []
            for t in a.targets:
                out.extend(assigned_names(t))
            return out
        if isinstance(a, (ast.AugAssign, ast.AnnAssign)):
            return assigned_names(a.target)
        if isinstance(a, (ast.FunctionDef, ast.ClassDef)):
            return [a.name]
        if isinstance(a, (ast.Import, ast.ImportFrom)):
            return [(x.asname or x.name).split('.')[0] for x in a.names]
    # walrus
    return []


def node_exprs(n):
    """Expression roots evaluated at node n (for use analysis)."""
    a = n.ast
    if a is None:
        return []
    if n.kind in ('test', 'while'):
        return [a.test]
    if n.kind == 'for':
        return [a.iter]
    if n.kind == 'except':
        return [a.type] if a.type is not None else []
    if n.kind == 'with':
        return [i.context_expr for i in a.items]
    if isinstance(a, (ast.FunctionDef, ast.ClassDef, ast.AsyncFunctionDef)):
        return []
    return [a]


def names_used(expr_or_stmt):
    out = set()
    for x in ast.walk(expr_or_stmt):
        if isinstance(x, ast.Name) and isinstance(x.ctx, ast.Load):
            out.add(x.id)
    return out


def reaching_defs(cfg, params=()):
    """node -> {name: set(def nodes)} at node entry.  Params are defined at ENTRY."""
    IN = {n: {} for n in cfg.nodes}
    OUT = {n: {} for n in cfg.nodes}
    entry_defs = {p: {cfg.entry} for p in params}
    OUT[cfg.entry] = entry_defs
    work = list(cfg.nodes)
    while work:
        n = work.pop(0)
        if n is cfg.entry:
            newin = {}
        else:
            newin = {}
            for p, lab in n.preds:
                for k, v in OUT[p].items():
                    if k in newin:
                        newin[k] = newin[k] | v
                    else:
                        newin[k] = set(v)
        IN[n] = newin
        if n is cfg.entry:
            newout = entry_defs
        else:
            newout = dict(newin)
            for d in node_defs(n):
                newout[d] = {n}
        if newout != OUT[n]:
            OUT[n] = newout
            for s, _ in n.succs:
                if s not in work:
                    work.append(s)
    return IN


# ------------------------------------------------- boolean-atom path feasibility

def _literals(e):
    """Decompose a test into (kind, [(atom_text, polarity)]): kind 'and'/'or'/'lit'."""
    def lit(x):
        pol = True
        while isinstance(x, ast.UnaryOp) and isinstance(x.op, ast.Not):
            pol = not pol
            x = x.operand
        # `a != b` is the atom `a == b` negated (likewise `is not`, `not in`): one atom however it is spelt
        if isinstance(x, ast.Compare) and len(x.ops) == 1 and isinstance(x.ops[0], (ast.NotEq, ast.IsNot, ast.NotIn)):
            pos = {ast.NotEq: ast.Eq, ast.IsNot: ast.Is, ast.NotIn: ast.In}[type(x.ops[0])]()
            y = ast.Compare(left=x.left, ops=[pos], comparators=x.comparators)
            return (norm(y), not pol, y)
        return (norm(x), pol, x)
    if isinstance(e, ast.BoolOp):
        return ('and' if isinstance(e.op, ast.And) else 'or'), [lit(v) for v in e.values]
    return 'lit', [lit(e)]


def _eval3(e, val):
    kind, lits = _literals(e)
    vals = []
    for text, pol, node in lits:
        if isinstance(node, ast.BoolOp):
            sub = _eval3(node, val)
            vals.append(None if sub is None else (sub if pol else not sub))
        elif text in val:
            vals.append(val[text] if pol else not val[text])
        elif isinstance(node, ast.Constant):
            vals.append(bool(node.value) if pol else not bool(node.value))
        else:
            vals.append(None)
    if kind == 'lit':
        return vals[0]
    if kind == 'and':
        if any(v is False for v in vals):
            return False
        if all(v is True for v in vals):
            return True
        return None
    if any(v is True for v in vals):
        return True
    if all(v is False for v in vals):
        return False
    return None


def _assume(e, branch, val):
    """Valuation extended with what taking `branch` of test `e` implies (only definite implications)."""
    kind, lits = _literals(e)
    new = dict(val)
    simple = [(t, p) for t, p, n in lits if not isinstance(n, (ast.BoolOp, ast.Constant))]
    if kind == 'lit' and len(simple) == 1:
        t, p = simple[0]
        new[t] = branch if p else (not branch)
    elif kind == 'and' and branch is True and len(simple) == len(lits):
        for t, p in simple:
            new[t] = p
    elif kind == 'or' and branch is False and len(simple) == len(lits):
        for t, p in simple:
            new[t] = not p
    elif kind == 'and' and branch is False:
        # if all but one literal are known true, the remaining one is false
        unknown = [(t, p) for t, p in simple if t not in val]
        known_true = [1 for t, p in simple if t in val and (val[t] if p else not val[t])]
        if len(simple) == len(lits) and len(unknown) == 1 and len(known_true) == len(lits) - 1:
            t, p = unknown[0]
            new[t] = not p
    elif kind == 'or' and branch is True:
        unknown = [(t, p) for t, p in simple if t not in val]
        known_false = [1 for t, p in simple if t in val and not (val[t] if p else not val[t])]
        if len(simple) == len(lits) and len(unknown) == 1 and len(known_false) == len(lits) - 1:
            t, p = unknown[0]
            new[t] = p
    return new


def feasible_reach(cfg, start, target, avoid=(), max_states=20000):
    """Is `target` reachable from `start` without entering `avoid`, on a path whose branch decisions are
    consistent for repeated tests of the same (unmodified) sub-expressions?  Over-approximates feasibility:
    returns False only when every CFG path contradicts itself on some boolean atom."""
    avoid = set(avoid)
    seen = set()
    stack = [(start, ())]
    nstates = 0
    while stack:
        n, valt = stack.pop()
        key = (n, valt)
        if key in seen:
            continue
        seen.add(key)
        nstates += 1
        if nstates > max_states:
            return True
        if n is target and n is not start:
            return True
        val = dict(valt)
        # redefinitions invalidate atoms mentioning the name
        ds = node_defs(n)
        if ds:
            for k in list(val):
                if any(_mentions(k, d) for d in ds):
                    del val[k]
            # `x = <constant>`: the truth of the atom `x` is known afterwards
            a = n.ast
            if n.kind == 'stmt' and isinstance(a, ast.Assign) and len(a.targets) == 1 and isinstance(a.targets[0], ast.Name) and \
                    isinstance(a.value, ast.Constant) and not isinstance(a.value.value, (str, bytes)):
                val[a.targets[0].id] = bool(a.value.value)
        for s, lab in n.succs:
            if s in avoid:
                continue
            v2 = val
            if n.kind in ('test', 'while') and lab in ('true', 'false'):
                t = n.ast.test
                cur = _eval3(t, val)
                br = (lab == 'true')
                if cur is not None and cur != br:
                    continue
                v2 = _assume(t, br, val)
            stack.append((s, tuple(sorted(v2.items()))))
    return False


def _mentions(atom_text, name):
    import re
    return re.search(r'(?<![A-Za-z0-9_.])%s(?![A-Za-z0-9_])' % re.escape(name), atom_text) is not None


# ------------------------------------------------- what is known at a node

def _cuts(cfg, t, label, use):
    """Every path ENTRY ->* use goes through the edge (t --label-->)."""
    if not any(lab == label for s, lab in t.succs):
        return False
    seen = set()
    stack = [cfg.entry]
    while stack:
        n = stack.pop()
        for s, lab in n.succs:
            if n is t and lab == label:
                continue
            if s in seen:
                continue
            seen.add(s)
            stack.append(s)
    return use not in seen


def known_at(cfg, node, atom, polarity=True, rd=None):
    """Is the boolean atom (normalised text of an expression) known to have the given truth value whenever `node` is
    reached?  True when some test that contains the atom decides it on the only edge through which `node` can be
    reached: the true edge of `atom` / `atom and ...`, or the false edge of `not atom` / `not atom or ...` (and the
    mirror cases), with no re-definition of the atom's names between the test and the node (reaching definitions
    `rd`, optional).  However the branching is written (nested ifs, elif chains, guard clauses) the answer is the same."""
    names = None
    for t in cfg.nodes:
        if t.kind not in ('test', 'while') or t.ast is None:
            continue
        kind, lits = _literals(t.ast.test)
        for text, pol, expr in lits:
            if text != atom:
                continue
            edge = None
            if kind in ('lit', 'and') and pol == polarity:
                edge = 'true'        # test true => every conjunct true
            if kind in ('lit', 'or') and pol != polarity:
                edge = 'false'       # test false => every disjunct false
            if edge is None or not _cuts(cfg, t, edge, node):
                continue
            if rd is not None:
                if names is None:
                    names = [x.id for x in ast.walk(expr) if isinstance(x, ast.Name)]
                if any(rd[t].get(nm) != rd[node].get(nm) for nm in names):
                    continue
            return True
    return False
