"""Abstract evaluation of module- and class-level initialisers.

This is constant propagation over the *initialisation code* of the package
(table literals, `.copy()`, `.update({...})`, the "fill missing type ids" loops,
class attributes, tag algebra).  It never imports pyasn1: every statement is
interpreted over the abstract domain below, and anything outside the domain
becomes `Unknown` (a rule that needs an Unknown cell is an analysis error).

Domain: Python constants, tuples/lists/dicts of abstract values, VTag, VTagSet,
VTypeId(owner class), VClass, VInstance(class, creation site), VFunc, VModule.
The tag algebra model (initTagSet / tagImplicitly / tagExplicitly / TagSet eq
and hash on (class, number) of the super tags) mirrors pyasn1/type/tag.py; the
C13 rules check that tag.py still has the shape this model assumes.
"""
import ast

from sa.model import (AnalysisError, ClassInfo, External, FuncInfo, Module,
                      ValueRef, norm)


class Unknown(object):
    def __init__(self, why=''):
        self.why = why

    def __repr__(self):
        return '<Unknown %s>' % self.why

    def __bool__(self):
        raise AnalysisError('truth of unknown value needed: %s' % self.why)


def is_unknown(v):
    return isinstance(v, Unknown)


class VTag(object):
    def __init__(self, cls, fmt, num):
        self.tagClass, self.tagFormat, self.tagId = cls, fmt, num

    def key(self):
        return (self.tagClass, self.tagId)

    def __eq__(self, other):
        return isinstance(other, VTag) and self.key() == other.key()

    def __ne__(self, other):
        return not self.__eq__(other)

    def __hash__(self):
        return hash(self.key())

    def __repr__(self):
        return '[%s:%s:%s]' % (self.tagClass, self.tagFormat, self.tagId)


class VTagSet(object):
    def __init__(self, base, supers):
        self.baseTag = base
        self.superTags = tuple(supers)

    def key(self):
        return tuple(t.key() for t in self.superTags)

    def __eq__(self, other):
        return isinstance(other, VTagSet) and self.key() == other.key()

    def __ne__(self, other):
        return not self.__eq__(other)

    def __hash__(self):
        return hash(self.key())

    def __len__(self):
        return len(self.superTags)

    def __repr__(self):
        return 'TagSet(%s)' % '-'.join(repr(t) for t in self.superTags) if self.superTags else 'TagSet()'

    def tagImplicitly(self, t):
        if self.superTags:
            t = VTag(t.tagClass, self.superTags[-1].tagFormat, t.tagId)
        return VTagSet(self.baseTag, self.superTags[:-1] + (t,))

    def tagExplicitly(self, t):
        if t.tagClass == 0:
            raise AnalysisError('explicit UNIVERSAL tag in initialiser')
        if t.tagFormat != 0x20:
            t = VTag(t.tagClass, 0x20, t.tagId)
        return VTagSet(self.baseTag, self.superTags + (t,))


class VTypeId(object):
    """The value of `X.getTypeId()` evaluated in the body of class `owner`."""

    def __init__(self, owner):
        self.owner = owner

    def __eq__(self, other):
        return isinstance(other, VTypeId) and other.owner == self.owner

    def __ne__(self, other):
        return not self.__eq__(other)

    def __hash__(self):
        return hash(('typeid', self.owner))

    def __repr__(self):
        return 'typeId(%s)' % self.owner.split('.')[-1]


class VClass(object):
    def __init__(self, ci):
        self.ci = ci

    def __eq__(self, other):
        return isinstance(other, VClass) and other.ci is self.ci

    def __hash__(self):
        return hash(('cls', self.ci.qualname))

    def __repr__(self):
        return 'class %s' % self.ci.short


class VInstance(object):
    def __init__(self, ci, site, args=(), kwargs=None):
        self.ci = ci
        self.site = site
        self.args = args
        self.kwargs = kwargs or {}
        self.attrs = {}       # instance attributes stored by initialisation code

    def __repr__(self):
        return '%s()@%s' % (self.ci.short, getattr(self.site, 'lineno', '?'))


class VFunc(object):
    def __init__(self, fi, bound=None):
        self.fi = fi
        self.bound = bound

    def __repr__(self):
        return 'func %s' % self.fi.short


class VModule(object):
    def __init__(self, m):
        self.m = m

    def __repr__(self):
        return 'module %s' % self.m.name


class VDict(object):
    """Mutable mapping with aliasing preserved (like the real tables)."""

    def __init__(self, items=None):
        self.d = dict(items or {})
        self.history = []   # (op, key, value, stmt) in program order

    def copy(self):
        n = VDict(self.d)
        n.history = [('copy', None, None, None)]
        return n

    def __repr__(self):
        return 'VDict(%d)' % len(self.d)


def hashable(v):
    try:
        hash(v)
        return True
    except TypeError:
        return False


class Evaluator(object):
    def __init__(self, prog):
        self.prog = prog
        self.menv = {}        # module name -> env dict
        self.cenv = {}        # class qualname -> {attr: value}
        self._evaluating = set()

    # ---------------------------------------------------------- module level
    def module_env(self, m):
        if m.name in self.menv:
            return self.menv[m.name]
        if m.name in self._evaluating:
            return {}
        self._evaluating.add(m.name)
        env = {}
        self.menv[m.name] = env
        self._exec_block(m, m.body, env, None)
        self._evaluating.discard(m.name)
        return env

    def _exec_block(self, m, stmts, env, cls):
        """Returns 'continue' / 'break' when the block was left by that statement (module-level loops with guard
        clauses), else None."""
        for s in stmts:
            if isinstance(s, ast.Continue):
                return 'continue'
            if isinstance(s, ast.Break):
                return 'break'
            r = self._exec(m, s, env, cls)
            if r in ('continue', 'break'):
                return r
        return None

    def _exec(self, m, s, env, cls):
        if isinstance(s, (ast.Import, ast.ImportFrom)):
            return
        if isinstance(s, (ast.FunctionDef, ast.AsyncFunctionDef)):
            if cls is None:
                fi = self.prog.functions.get(m.name + '.' + s.name)
                if fi:
                    env[s.name] = VFunc(fi)
            return
        if isinstance(s, ast.ClassDef):
            ci = self.prog.classes.get((cls.qualname if cls else m.name) + '.' + s.name)
            if ci is None:
                return
            cenv = {}
            self.cenv[ci.qualname] = cenv
            scope = _ClassScope(cenv, env)
            self._exec_block(m, ci.body, scope, ci)
            if cls is None:
                env[s.name] = VClass(ci)
            else:
                env[s.name] = VClass(ci)
            return
        if isinstance(s, ast.Assign):
            v = self.eval(m, s.value, env, cls)
            for t in s.targets:
                self._assign(m, t, v, env, cls, s)
            return
        if isinstance(s, ast.AugAssign):
            cur = self.eval(m, _load(s.target), env, cls)
            v = self._binop(s.op, cur, self.eval(m, s.value, env, cls))
            self._assign(m, s.target, v, env, cls, s)
            return
        if isinstance(s, ast.Expr):
            self.eval(m, s.value, env, cls, stmt=s)
            return
        if isinstance(s, ast.For):
            it = self.eval(m, s.iter, env, cls)
            seq = self._iterate(it)
            if seq is None:
                # unknown iteration: poison every name assigned in the body
                for n in ast.walk(s):
                    if isinstance(n, ast.Name) and isinstance(n.ctx, ast.Store):
                        env[n.id] = Unknown('assigned in loop over unknown iterable')
                    if isinstance(n, ast.Subscript) and isinstance(n.ctx, ast.Store):
                        tgt = self.eval(m, n.value, env, cls)
                        if isinstance(tgt, VDict):
                            tgt.history.append(('unknown-store', None, None, s))
                            tgt.d['<poisoned>'] = Unknown('store in loop over unknown iterable')
                return
            for item in seq:
                self._assign(m, s.target, item, env, cls, s)
                if self._exec_block(m, s.body, env, cls) == 'break':
                    break
            return
        if isinstance(s, ast.If):
            t = self.eval(m, s.test, env, cls)
            if is_unknown(t):
                # cannot decide: execute neither arm but poison their stores
                for n in ast.walk(s):
                    if isinstance(n, ast.Name) and isinstance(n.ctx, ast.Store):
                        env[n.id] = Unknown('assigned under undecidable test %s' % norm(s.test))
                    if isinstance(n, ast.Subscript) and isinstance(n.ctx, ast.Store):
                        tgt = self.eval(m, n.value, env, cls)
                        if isinstance(tgt, VDict):
                            tgt.d['<poisoned>'] = Unknown('store under undecidable test %s' % norm(s.test))
                return
            return self._exec_block(m, s.body if _truth(t) else s.orelse, env, cls)
        if isinstance(s, ast.Try):
            self._exec_block(m, s.body, env, cls)
            self._exec_block(m, s.orelse, env, cls)
            return
        # anything else at module level is ignored (pass, del, global ...)

    def _assign(self, m, t, v, env, cls, stmt):
        if isinstance(t, ast.Name):
            env[t.id] = v
        elif isinstance(t, (ast.Tuple, ast.List)):
            seq = self._iterate(v)
            for i, e in enumerate(t.elts):
                if seq is not None and i < len(seq):
                    self._assign(m, e, seq[i], env, cls, stmt)
                else:
                    self._assign(m, e, Unknown('unpack'), env, cls, stmt)
        elif isinstance(t, ast.Subscript):
            tgt = self.eval(m, t.value, env, cls)
            k = self.eval(m, t.slice, env, cls)
            if isinstance(tgt, VDict):
                if is_unknown(k) or not hashable(k):
                    tgt.d['<poisoned>'] = Unknown('store with unknown key %s' % norm(t.slice))
                else:
                    tgt.d[k] = v
                    tgt.history.append(('setitem', k, v, stmt))
        elif isinstance(t, ast.Attribute):
            tgt = self.eval(m, t.value, env, cls)
            if isinstance(tgt, VInstance):
                tgt.attrs[t.attr] = v

    def _pairs(self, v):
        """[(key, value)] if `v` is a known sequence of 2-sequences with known hashable keys."""
        seq = self._iterate(v)
        if seq is None:
            return None
        out = []
        for it in seq:
            if not isinstance(it, (tuple, list)) or len(it) != 2 or is_unknown(it[0]) or not hashable(it[0]):
                return None
            out.append((it[0], it[1]))
        return out

    def _iterate(self, v):
        if isinstance(v, (tuple, list)):
            return list(v)
        if isinstance(v, _Values):
            return list(v.items)
        if isinstance(v, range):
            return list(v)
        return None

    # ------------------------------------------------------------ class level
    def class_attr(self, ci, name):
        """Abstract value of attribute `name` looked up on class ci (MRO)."""
        for c in ci.mro:
            if not isinstance(c, ClassInfo):
                continue
            self.module_env(c.module)
            ce = self.cenv.get(c.qualname)
            if ce is None:
                # nested / conditionally defined class: evaluate lazily
                ce = {}
                self.cenv[c.qualname] = ce
                self._exec_block(c.module, c.body, _ClassScope(ce, self.module_env(c.module)), c)
            if name in ce:
                return c, ce[name]
            d = c.own(name)
            if d is not None and d[0] == 'func':
                return c, VFunc(d[1])
        return None, Unknown('no attribute %s on %s' % (name, ci.short))

    def inst_attr(self, inst, name):
        """Attribute of a codec instance: instance store first, then the class (MRO)."""
        if name in inst.attrs:
            return inst.attrs[name]
        return self.class_attr(inst.ci, name)[1]

    # ------------------------------------------------------------ expressions
    def eval(self, m, e, env, cls=None, stmt=None):
        try:
            return self._eval(m, e, env, cls, stmt)
        except AnalysisError:
            raise
        except RecursionError:
            return Unknown('recursion')

    def _lookup_name(self, m, name, env):
        if name in env:
            return env[name]
        if name in ('True', 'False', 'None'):
            return {'True': True, 'False': False, 'None': None}[name]
        r = self.prog.resolve_name(m, name)
        return self._from_ref(r, name)

    def _from_ref(self, r, name=''):
        if isinstance(r, Module):
            return VModule(r)
        if isinstance(r, ClassInfo):
            return VClass(r)
        if isinstance(r, FuncInfo):
            return VFunc(r)
        if isinstance(r, ValueRef):
            menv = self.module_env(r.module)
            # find the name this ValueRef was bound to
            for k, bs in r.module.bindings.items():
                if bs and bs[-1][0] == 'value' and bs[-1][1] is r.expr and k in menv:
                    return menv[k]
            return self.eval(r.module, r.expr, menv)
        if isinstance(r, External):
            if r.name in _BUILTINS:
                return _BUILTINS[r.name]
            return Unknown('external %s' % r.name)
        return Unknown('unresolved %s' % name)

    def _eval(self, m, e, env, cls, stmt):
        if isinstance(e, ast.Constant):
            return e.value
        if isinstance(e, ast.Name):
            return self._lookup_name(m, e.id, env)
        if isinstance(e, ast.Tuple):
            return tuple(self._eval(m, x, env, cls, stmt) for x in e.elts)
        if isinstance(e, ast.List):
            return [self._eval(m, x, env, cls, stmt) for x in e.elts]
        if isinstance(e, ast.Set):
            return Unknown('set literal')
        if isinstance(e, ast.Dict):
            d = VDict()
            for k, v in zip(e.keys, e.values):
                if k is None:
                    d.d['<poisoned>'] = Unknown('dict unpacking')
                    continue
                kv = self._eval(m, k, env, cls, stmt)
                vv = self._eval(m, v, env, cls, stmt)
                if is_unknown(kv) or not hashable(kv):
                    d.d['<poisoned>'] = Unknown('unknown key %s' % norm(k))
                else:
                    d.d[kv] = vv
                    d.history.append(('literal', kv, vv, k))
            return d
        if isinstance(e, ast.Attribute):
            base = self._eval(m, e.value, env, cls, stmt)
            return self._getattr(base, e.attr, e)
        if isinstance(e, ast.Call):
            return self._call(m, e, env, cls, stmt)
        if isinstance(e, ast.Subscript):
            base = self._eval(m, e.value, env, cls, stmt)
            if isinstance(e.slice, ast.Slice):
                lo = self._eval(m, e.slice.lower, env, cls, stmt) if e.slice.lower else None
                hi = self._eval(m, e.slice.upper, env, cls, stmt) if e.slice.upper else None
                if isinstance(base, VTagSet):
                    return VTagSet(base.baseTag, base.superTags[lo:hi])
                if isinstance(base, (tuple, list, str, bytes)):
                    return base[lo:hi]
                return Unknown('slice')
            k = self._eval(m, e.slice, env, cls, stmt)
            if is_unknown(base) or is_unknown(k):
                return Unknown('subscript')
            if isinstance(base, VDict):
                return base.d.get(k, Unknown('missing key'))
            if isinstance(base, VTagSet):
                try:
                    return base.superTags[k]
                except Exception:
                    return Unknown('tagset index')
            if isinstance(base, VTag):
                return (base.tagClass, base.tagFormat, base.tagId)[k]
            try:
                return base[k]
            except Exception:
                return Unknown('subscript')
        if isinstance(e, ast.BinOp):
            return self._binop(e.op, self._eval(m, e.left, env, cls, stmt), self._eval(m, e.right, env, cls, stmt))
        if isinstance(e, ast.UnaryOp):
            v = self._eval(m, e.operand, env, cls, stmt)
            if is_unknown(v):
                return v
            try:
                if isinstance(e.op, ast.Not):
                    return not _truth(v)
                if isinstance(e.op, ast.USub):
                    return -v
                if isinstance(e.op, ast.Invert):
                    return ~v
                if isinstance(e.op, ast.UAdd):
                    return +v
            except Exception:
                return Unknown('unary')
        if isinstance(e, ast.BoolOp):
            last = None
            for x in e.values:
                last = self._eval(m, x, env, cls, stmt)
                if is_unknown(last):
                    return last
                if isinstance(e.op, ast.And) and not _truth(last):
                    return last
                if isinstance(e.op, ast.Or) and _truth(last):
                    return last
            return last
        if isinstance(e, ast.Compare):
            left = self._eval(m, e.left, env, cls, stmt)
            for op, r in zip(e.ops, e.comparators):
                right = self._eval(m, r, env, cls, stmt)
                res = self._compare(op, left, right)
                if is_unknown(res):
                    return res
                if not res:
                    return False
                left = right
            return True
        if isinstance(e, ast.IfExp):
            t = self._eval(m, e.test, env, cls, stmt)
            if is_unknown(t):
                return t
            return self._eval(m, e.body if _truth(t) else e.orelse, env, cls, stmt)
        if isinstance(e, (ast.ListComp, ast.GeneratorExp, ast.DictComp)) and len(e.generators) == 1:
            # one `for` over a sequence the evaluator knows; filters must evaluate (a generator expression is evaluated as
            # the list it yields: the tables consume it on the spot)
            g = e.generators[0]
            seq = self._iterate(self._eval(m, g.iter, env, cls, stmt))
            if seq is None:
                return Unknown('comprehension')
            out = []
            for item in seq:
                sub = dict(env) if isinstance(env, dict) else _ClassScope(dict(env.c), env.g)
                self._assign(m, g.target, item, sub, cls, stmt)
                keep = True
                for c in g.ifs:
                    t = self._eval(m, c, sub, cls, stmt)
                    if is_unknown(t):
                        return Unknown('comprehension filter %s' % norm(c))
                    if not _truth(t):
                        keep = False
                        break
                if not keep:
                    continue
                if isinstance(e, ast.DictComp):
                    out.append((self._eval(m, e.key, sub, cls, stmt), self._eval(m, e.value, sub, cls, stmt)))
                else:
                    out.append(self._eval(m, e.elt, sub, cls, stmt))
            if isinstance(e, ast.DictComp):
                d = VDict()
                for kv, vv in out:
                    if is_unknown(kv) or not hashable(kv):
                        d.d['<poisoned>'] = Unknown('unknown key %s' % norm(e.key))
                    else:
                        d.d[kv] = vv
                        d.history.append(('literal', kv, vv, e.key))
                return d
            return out
        if isinstance(e, ast.Lambda):
            return Unknown('lambda')
        if isinstance(e, ast.JoinedStr):
            return Unknown('fstring')
        return Unknown(type(e).__name__)

    def _compare(self, op, a, b):
        if isinstance(op, ast.Is):
            if a is None or b is None or isinstance(a, bool) or isinstance(b, bool):
                if is_unknown(a) or is_unknown(b):
                    return Unknown('is')
                return a is b
            if is_unknown(a) or is_unknown(b):
                return Unknown('is')
            return a is b
        if isinstance(op, ast.IsNot):
            r = self._compare(ast.Is(), a, b)
            return r if is_unknown(r) else (not r)
        if is_unknown(a) or is_unknown(b):
            return Unknown('compare')
        try:
            if isinstance(op, ast.Eq):
                return a == b
            if isinstance(op, ast.NotEq):
                return a != b
            if isinstance(op, ast.Lt):
                return a < b
            if isinstance(op, ast.LtE):
                return a <= b
            if isinstance(op, ast.Gt):
                return a > b
            if isinstance(op, ast.GtE):
                return a >= b
            if isinstance(op, (ast.In, ast.NotIn)):
                if isinstance(b, VDict):
                    if '<poisoned>' in b.d:
                        return Unknown('membership in poisoned dict')
                    r = a in b.d
                else:
                    r = a in b
                return r if isinstance(op, ast.In) else (not r)
        except Exception:
            return Unknown('compare')
        return Unknown('compare')

    def _binop(self, op, a, b):
        if is_unknown(a) or is_unknown(b):
            return Unknown('binop')
        try:
            if isinstance(op, ast.Add):
                if isinstance(a, VTagSet) and isinstance(b, VTag):
                    return VTagSet(a.baseTag, a.superTags + (b,))
                if isinstance(b, VTagSet) and isinstance(a, VTag):
                    return VTagSet(b.baseTag, (a,) + b.superTags)
                return a + b
            if isinstance(op, ast.Sub):
                return a - b
            if isinstance(op, ast.Mult):
                return a * b
            if isinstance(op, ast.BitOr):
                return a | b
            if isinstance(op, ast.BitAnd):
                return a & b
            if isinstance(op, ast.LShift):
                return a << b
            if isinstance(op, ast.RShift):
                return a >> b
            if isinstance(op, ast.Mod):
                if isinstance(a, str):
                    return Unknown('format')
                return a % b
            if isinstance(op, ast.FloorDiv):
                return a // b
        except Exception:
            return Unknown('binop')
        return Unknown('binop')

    def _getattr(self, base, attr, node):
        if is_unknown(base):
            return base
        if isinstance(base, VModule):
            sub = self.prog.modules.get(base.m.name + '.' + attr)
            env = self.module_env(base.m)
            if attr in env:
                return env[attr]
            if sub is not None:
                return VModule(sub)
            return self._from_ref(self.prog.resolve_name(base.m, attr), attr)
        if isinstance(base, VClass):
            if attr == '__name__':
                return base.ci.name
            owner, v = self.class_attr(base.ci, attr)
            if isinstance(v, VFunc) and owner is not None:
                return VFunc(v.fi, bound=base)
            return v
        if isinstance(base, VInstance):
            if attr == '__class__':
                return VClass(base.ci)
            if attr in base.attrs:
                return base.attrs[attr]
            owner, v = self.class_attr(base.ci, attr)
            if isinstance(v, VFunc):
                return VFunc(v.fi, bound=base)
            # instance attributes set by Asn1Type.__init__ from kwargs (tagSet=...)
            if attr in base.kwargs:
                return base.kwargs[attr]
            return v
        if isinstance(base, VTag):
            if attr in ('tagClass', 'tagFormat', 'tagId'):
                return getattr(base, attr)
        if isinstance(base, VTagSet):
            if attr in ('baseTag', 'superTags'):
                return getattr(base, attr)
            if attr in ('tagImplicitly', 'tagExplicitly'):
                return _Bound(base, attr)
        if isinstance(base, VDict):
            if attr in ('copy', 'update', 'values', 'keys', 'items', 'get'):
                return _Bound(base, attr)
        if isinstance(base, (str, bytes, tuple, list)):
            return Unknown('method %s of constant' % attr)
        return Unknown('attr %s' % attr)

    def _call(self, m, e, env, cls, stmt):
        f = self._eval(m, e.func, env, cls, stmt)
        args = [self._eval(m, a, env, cls, stmt) for a in e.args if not isinstance(a, ast.Starred)]
        if any(isinstance(a, ast.Starred) for a in e.args):
            return Unknown('starred call')
        kwargs = {}
        for k in e.keywords:
            if k.arg is None:
                return Unknown('**kwargs call')
            kwargs[k.arg] = self._eval(m, k.value, env, cls, stmt)
        if isinstance(f, _Bound):
            return self._call_bound(f, args, kwargs, e, stmt)
        if isinstance(f, VClass):
            q = f.ci.qualname
            if q == 'pyasn1.type.tag.Tag':
                vals = list(args) + [kwargs.get(k) for k in ('tagClass', 'tagFormat', 'tagId')][len(args):]
                if len(vals) == 3 and not any(is_unknown(v) for v in vals):
                    return VTag(*vals)
                return Unknown('Tag args')
            if q == 'pyasn1.type.tag.TagSet':
                base = args[0] if args else ()
                sup = args[1:]
                if any(is_unknown(a) for a in args):
                    return Unknown('TagSet args')
                return VTagSet(base, sup)
            return VInstance(f.ci, e, tuple(args), kwargs)
        if isinstance(f, VFunc):
            q = f.fi.qualname
            if q == 'pyasn1.type.tag.initTagSet' and len(args) == 1 and isinstance(args[0], VTag):
                return VTagSet(args[0], (args[0],))
            if f.fi.name == 'getTypeId' and f.fi.cls is not None and f.fi.cls.qualname == 'pyasn1.type.base.Asn1Item':
                if cls is None:
                    return Unknown('getTypeId outside class body')
                return VTypeId(cls.qualname)
            if q == 'pyasn1.debug.registerLoggee':
                return 0
            return Unknown('call %s' % f.fi.short)
        if f is _BUILTINS.get('ord') and len(args) == 1 and isinstance(args[0], str) and len(args[0]) == 1:
            return ord(args[0])
        if f is _BUILTINS.get('range') and args and all(isinstance(a, int) for a in args):
            return list(range(*args))
        if f is _BUILTINS.get('len') and len(args) == 1:
            a = args[0]
            if isinstance(a, VDict):
                return len(a.d)
            if isinstance(a, (tuple, list, str, bytes, VTagSet)):
                return len(a)
        if f in (_BUILTINS.get('list'), _BUILTINS.get('tuple')) and len(args) == 1:
            seq = self._iterate(args[0])
            if seq is None:
                return Unknown('list() of unknown')
            return list(seq) if f is _BUILTINS.get('list') else tuple(seq)
        if f is _BUILTINS.get('isinstance') and len(args) == 2:
            obj, classes = args
            classes = classes if isinstance(classes, (tuple, list)) else (classes,)
            if is_unknown(obj) or not all(isinstance(c, VClass) for c in classes):
                return Unknown('isinstance')
            if isinstance(obj, VInstance):
                return any(c.ci in obj.ci.mro for c in classes)
            return False
        if f is _BUILTINS.get('bytes') and len(args) <= 1:
            try:
                return bytes(*args)
            except Exception:
                return Unknown('bytes')
        if f is _BUILTINS.get('dict') and len(args) <= 1:
            if args and isinstance(args[0], VDict):
                d = args[0].copy()          # dict(table): a shallow copy, like table.copy()
            else:
                d = VDict()
                if args:
                    pairs = self._pairs(args[0])
                    if pairs is None:
                        return Unknown('dict() of unknown')
                    for k, v in pairs:
                        d.d[k] = v
                        d.history.append(('literal', k, v, e))
            for k, v in kwargs.items():
                d.d[k] = v
            return d
        return Unknown('call %s' % norm(e.func))

    def _call_bound(self, f, args, kwargs, e, stmt):
        base, name = f.base, f.name
        if isinstance(base, VTagSet):
            if len(args) == 1 and isinstance(args[0], VTag):
                return getattr(base, name)(args[0])
            return Unknown('tag method args')
        if isinstance(base, VDict):
            if name == 'copy':
                return base.copy()
            if name == 'update':
                for a in args:
                    if isinstance(a, VDict):
                        for k, v in a.d.items():
                            base.d[k] = v
                            base.history.append(('update', k, v, stmt))
                    elif self._pairs(a) is not None:
                        for k, v in self._pairs(a):      # update(iterable of (key, value))
                            base.d[k] = v
                            base.history.append(('update', k, v, stmt))
                    else:
                        base.d['<poisoned>'] = Unknown('update with unknown mapping')
                for k, v in kwargs.items():
                    base.d[k] = v
                return None
            if name == 'values':
                return _Values([v for k, v in base.d.items() if k != '<poisoned>'] +
                               ([base.d['<poisoned>']] if '<poisoned>' in base.d else []))
            if name == 'keys':
                return _Values(list(base.d.keys()))
            if name == 'items':
                return _Values([(k, v) for k, v in base.d.items()])
            if name == 'get':
                if args and not is_unknown(args[0]) and hashable(args[0]):
                    return base.d.get(args[0], args[1] if len(args) > 1 else None)
        return Unknown('bound %s' % name)


class _Bound(object):
    def __init__(self, base, name):
        self.base, self.name = base, name


class _Values(object):
    def __init__(self, items):
        self.items = items


class _ClassScope(object):
    """dict-like: class-body scope falling back to module scope."""

    def __init__(self, c, g):
        self.c, self.g = c, g

    def __contains__(self, k):
        return k in self.c or k in self.g

    def __getitem__(self, k):
        return self.c[k] if k in self.c else self.g[k]

    def __setitem__(self, k, v):
        self.c[k] = v

    def keys(self):
        return list(self.c.keys()) + [k for k in self.g.keys() if k not in self.c]

    def __iter__(self):
        return iter(self.keys())


class _Builtin(object):
    def __init__(self, name):
        self.name = name

    def __repr__(self):
        return '<builtin %s>' % self.name


_BUILTINS = {n: _Builtin(n) for n in ('ord', 'range', 'len', 'bytes', 'dict', 'object', 'int', 'str',
                                       'tuple', 'list', 'set', 'frozenset', 'float', 'chr', 'max', 'min', 'isinstance')}


def _truth(v):
    if isinstance(v, VDict):
        return bool(v.d)
    if isinstance(v, (VTagSet,)):
        return len(v) > 0
    if isinstance(v, (VInstance, VClass, VFunc, VModule, VTag, VTypeId)):
        return True
    return bool(v)


def _load(t):
    import copy
    n = copy.copy(t)
    n.ctx = ast.Load()
    return n
