"""Obligations, analysis context, known-findings matching, evidence, driver glue."""
import ast
import json
import os
import sys
import time

from sa.model import AnalysisError, Program, norm
from sa.cfg import CFG
from sa.consteval import Evaluator

VERIF = os.path.dirname(os.path.dirname(os.path.abspath(__file__)))


class Ob(object):
    """One obligation (rule instance) and its verdict."""

    def __init__(self, rule, func, key, ok, detail='', site='', nontrivial=True, note=False):
        self.rule = rule
        self.func = func          # qualified function / table / class the instance lives in
        self.key = key            # normalised instance key (never a line number)
        self.ok = ok
        self.detail = detail
        self.site = site          # file:line, for the reader only
        self.nontrivial = nontrivial
        self.note = note          # informational: never affects the exit code

    def ident(self):
        return (self.rule, self.func, self.key)

    def as_dict(self):
        return {'rule': self.rule, 'func': self.func, 'key': self.key, 'ok': self.ok,
                'site': self.site, 'detail': self.detail}

    def __repr__(self):
        return '<Ob %s %s %s %s>' % (self.rule, self.func, self.key, 'ok' if self.ok else 'FAIL')


class Ctx(object):
    """Per-run analysis context: program model, evaluator, CFG cache."""

    def __init__(self, repo=None, tier='quick'):
        self.tier = tier
        self.prog = Program(repo)
        self.ev = Evaluator(self.prog)
        self._cfg = {}
        self.obs = []
        self.notes = []
        self.cache = {}
        self.consulted = set()      # functions the running rule asked for by name
        self.far = self._far_functions()

    def _far_functions(self):
        """{short name: reason} of the functions that are far from the form on which the rule instances were confirmed: not
        identical to the reference copy, not proven equivalent, and changed in more lines than any confirmed
        behaviour-changing patch changes (sa/alpha.py distance()); functions the reference does not have count as far."""
        out = {}
        for m in self.prog.modules.values():
            base = m.name[len('pyasn1.'):] if m.name.startswith('pyasn1.') else m.name
            for key, (st, d, lim) in getattr(m, 'fn_status', {}).items():
                short = '%s.%s' % (base, key)
                if st == 'new':
                    last = key.split('.')[-1]
                    if last.startswith('_') and not (last.startswith('__') and last.endswith('__')):
                        # a new private helper is what a refactoring leaves behind; a new public or special method
                        # changes the interface and is analysed like any other code
                        out[short] = 'not in the reference tree'
                elif st == 'differs' and d > lim:
                    out[short] = 'differs from its reference form in %d lines (limit %d)' % (d, lim)
        return out

    def scale(self, quick, thorough):
        """Domain size of a truth table: the thorough tier explores a wider one."""
        return thorough if self.tier == 'thorough' else quick

    def cfg(self, f):
        c = self._cfg.get(f.qualname)
        if c is None:
            c = CFG(f.node)
            self._cfg[f.qualname] = c
        return c

    def func(self, q):
        f = self.prog.func(q)
        self.consulted.add(f.short)
        return f

    def cls(self, q):
        return self.prog.cls(q)

    def mod(self, q):
        return self.prog.mod(q)

    def ob(self, rule, f, key, ok, detail='', node=None, nontrivial=True, note=False):
        if hasattr(f, 'short'):
            fname = f.short
            site = f.loc(node) if hasattr(f, 'loc') else ''
            if not hasattr(f, 'loc') and node is not None:
                site = '%s:%d' % (f.module.relpath, getattr(node, 'lineno', 0))
            elif not hasattr(f, 'loc'):
                site = '%s:%d' % (f.module.relpath, f.node.lineno)
        else:
            fname = str(f)
            site = ''
            if isinstance(node, tuple):
                site = '%s:%d' % node
        o = Ob(rule, fname, key if isinstance(key, str) else norm(key), bool(ok), detail, site, nontrivial, note)
        self.obs.append(o)
        return o

    def note(self, text):
        self.notes.append(text)


def load_known():
    p = os.path.join(VERIF, 'known_findings.json')
    if not os.path.exists(p):
        return {'findings': [], 'fixed': []}
    with open(p) as fh:
        return json.load(fh)


def run_property(pid, spec, tier, repo=None):
    """Run all rules of one property.  Returns (exit_code, evidence dict, lines)."""
    t0 = time.time()
    lines = []
    ctx = Ctx(repo, tier)
    per_rule = {}
    errors = []   # a rule that cannot decide must not hide what the other rules found
    na = []       # verdicts withheld because the code is far from the confirmed shape
    floor_exempt = set()
    for rule_fn in spec['rules']:
        before = len(ctx.obs)
        ctx.consulted = set()
        err = None
        try:
            rule_fn(ctx)
        except AnalysisError as e:
            err = '%s: %s' % (rule_fn.__name__, e)
        far_consulted = sorted(q for q in ctx.consulted if q in ctx.far)
        new = ctx.obs[before:]
        if err is not None:
            mentioned = [q for q in ctx.far if q in err or q.split('.', 2)[-1] in err]
            if not (far_consulted or mentioned) and ctx.far:
                mentioned = sorted(ctx.far)     # a rule that cannot find its anchor while some function has been restructured
            if far_consulted or mentioned:
                na.append('%s -- not applicable: %s' % (err, '; '.join('%s %s' % (q, ctx.far[q]) for q in (far_consulted or mentioned)[:3])))
                floor_exempt.update(o.rule for o in new)
                floor_exempt.add(rule_fn.__name__)
            else:
                errors.append(err)
        for o in new:
            if o.ok or o.note:
                continue
            why = None
            inside = sorted(q for q in ctx.far if q.startswith(o.func + '.'))
            if o.func in ctx.far:
                why = '%s %s' % (o.func, ctx.far[o.func])
            elif inside:
                why = '%s %s' % (inside[0], ctx.far[inside[0]])
            elif far_consulted:
                why = '%s %s' % (far_consulted[0], ctx.far[far_consulted[0]])
            if why:
                o.note = True
                o.detail = 'not applicable (no verdict): %s; the rule matches the shape of the confirmed instance -- %s' % (why, o.detail[:300])
                floor_exempt.add(o.rule)
        if far_consulted:
            floor_exempt.update(o.rule for o in new)
        per_rule.setdefault(rule_fn.__name__, 0)
        per_rule[rule_fn.__name__] += len(ctx.obs) - before
    obs = [o for o in ctx.obs if not o.note]
    notes = [o for o in ctx.obs if o.note]
    # instance-count floors: a rule matching too few sites must not pass vacuously
    counts = {}
    for o in obs:
        counts[o.rule] = counts.get(o.rule, 0) + 1
    for rule, floor in spec.get('min', {}).items():
        if counts.get(rule, 0) < floor:
            if ctx.far and (rule in floor_exempt or True):
                # fewer instances than on the reference tree, and some function has been restructured: not a verdict
                na.append('rule %s matched %d instance(s) (reference: %d) -- not applicable: functions far from their reference form: %s' % (
                    rule, counts.get(rule, 0), floor, ', '.join(sorted(ctx.far)[:4])))
                continue
            errors.append('rule %s matched %d instance(s), fewer than the %d confirmed by hand '
                          '(anchor vanished or shape unrecognised)' % (rule, counts.get(rule, 0), floor))
    known = [k for k in load_known()['findings'] if k['property'] == pid]
    kidx = {(k['rule'], k['func'], k['key']): k for k in known}
    failing = [o for o in obs if not o.ok]
    violations, knownhits = [], []
    seen = set()
    for o in failing:
        if o.ident() in seen:
            continue
        seen.add(o.ident())
        if o.ident() in kidx:
            knownhits.append((o, kidx[o.ident()]))
        else:
            violations.append(o)
    for rule in sorted(counts):
        n = counts[rule]
        nf = len([o for o in failing if o.rule == rule])
        lines.append('rule %-14s instances=%-4d failing=%d' % (rule, n, nf))
    for o in notes:
        lines.append('NOTE: %s %s %s: %s' % (o.rule, o.func, o.key, o.detail))
    for t in ctx.notes:
        lines.append('NOTE: %s' % t)
    for t in na:
        lines.append('NOT-APPLICABLE: %s' % t[:400])
    if ctx.far:
        ctx.notes.append('functions far from their reference form (shape-matching verdicts on them are withheld): %s' % '; '.join(
            '%s %s' % kv for kv in sorted(ctx.far.items())))
        ctx.notes.extend('not applicable: %s' % t for t in na)
    ren = [r for m in ctx.prog.modules.values() for r in getattr(m, 'alpha_renames', [])]
    if ren:
        ctx.notes.append('locals alpha-normalised against sa/localnames.json before analysis (%d renames): %s%s' % (
            len(ren), '; '.join(ren[:12]), ' ...' if len(ren) > 12 else ''))
        lines.append('NOTE: %s' % ctx.notes[-1][:400])
    for o, k in knownhits:
        lines.append('KNOWN-FINDING: property=%s %s %s [%s] %s -- %s' % (
            pid, o.rule, o.func, o.key, o.site, k.get('what_fails', '')))
    replay_dir = os.path.join(VERIF, 'evidence', 'replay')
    if violations:
        os.makedirs(replay_dir, exist_ok=True)
    for i, o in enumerate(violations):
        rp = os.path.join(replay_dir, '%s-%d.json' % (pid, i))
        with open(rp, 'w') as fh:
            json.dump({'property': pid, 'obligation': o.as_dict(), 'repo_digest': ctx.prog.digest}, fh, indent=1)
        lines.append('REPORT: %s rule=%s at %s in %s instance=[%s]: %s' % (pid, o.rule, o.site, o.func, o.key, o.detail))
        lines.append('VIOLATION property=%s replay=%s' % (pid, rp))
    distinct_nt = len(set(o.ident() for o in obs if o.nontrivial))
    samples = []
    byrule = {}
    for o in obs:
        byrule.setdefault(o.rule, []).append(o)
    for rule in sorted(byrule):
        for o in byrule[rule][:3]:
            samples.append(o.as_dict())
    for o in failing[:10]:
        if o.as_dict() not in samples:
            samples.append(o.as_dict())
    ev = {
        'property_id': pid,
        'tier': tier,
        'seed': int(os.environ.get('VERIF_SEED', '0') or 0),
        'level': 'other',
        'coverage': {
            'explanation': spec['explanation'],
            'obligations': len(obs),
            'discharged': len([o for o in obs if o.ok]),
            'evaluations': len(obs),
            'distinct_nontrivial': distinct_nt,
            'rule': 'one evaluation = one rule instance (rule id, enclosing function/table, normalised instance key) '
                    'computed from the current source; non-trivial = the verdict needed resolution through the class '
                    'hierarchy, constant evaluation, dominance or dataflow (pure constants/hierarchy facts are trivial)',
            'samples': samples,
            'checker_cmd': './check %s --tier %s' % (pid, tier),
            'trusted_base': ['CPython ast module', 'sa/ analyser (model, cfg, consteval, rules)',
                             'X.680/X.690 reference tables in sa/x690.py', 'frozen allowlists in the rule sources',
                             'sa/equiv.py: a function whose behavioural normal form equals that of its reference copy '
                             '(sa/reference/) is analysed in reference form; every such replacement is listed in notes'],
            'per_rule_instances': counts,
            'known_findings_matched': [o.as_dict() for o, _ in knownhits],
            'violations': [o.as_dict() for o in violations],
            'notes': [o.as_dict() for o in notes] + ctx.notes,
            'analysed': {'modules': len(ctx.prog.modules), 'classes': len(ctx.prog.classes),
                         'functions': len(ctx.prog.functions), 'cfgs_built': len(ctx._cfg)},
            'source_digest': ctx.prog.digest,
            'exhaustive': False,
        },
        'assumptions': spec.get('assumptions', []),
        'wall_s': round(time.time() - t0, 3),
        'violations': len(violations),
    }
    ev['coverage']['undecided'] = errors
    if errors and not violations:
        # nothing is believed from a run in which a rule could not decide: exit 2, no evidence written
        for e in errors:
            lines.append('ANALYSIS-ERROR: property=%s %s' % (pid, e))
        return 2, ev, lines, ctx
    for e in errors:
        lines.append('NOTE: undecided (analysis error) %s' % e)
    return (1 if violations else 0), ev, lines, ctx


def write_evidence(pid, ev):
    d = os.path.join(VERIF, 'evidence')
    os.makedirs(d, exist_ok=True)
    p = os.path.join(d, '%s.json' % pid)
    tmp = '%s.%d.tmp' % (p, os.getpid())      # checks may run concurrently
    with open(tmp, 'w') as fh:
        json.dump(ev, fh, indent=1, sort_keys=True, default=str)
    os.replace(tmp, p)
    return p
