"""Checker self-validation (thorough tier): see sa/mutants.py for the variant catalogue."""
import time


def run(pid, spec):
    t0 = time.time()
    try:
        from sa import mutants
    except ImportError:
        return {'summary': {'variants': 0, 'note': 'no variant catalogue yet'}, 'lines': [], 'broken': None,
                'wall_s': 0.0}
    res = mutants.run_for_property(pid)
    res['wall_s'] = round(time.time() - t0, 3)
    return res
