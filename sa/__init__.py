"""Static analysis machinery for the pyasn1 properties (see /verif/DESIGN.md).

Nothing in this package imports or executes pyasn1: every fact is computed
from the source text under $PYASN1_REPO (default /repo) with `ast`.
"""
