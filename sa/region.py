"""Outcome tables of small loop-free regions over a finite domain.

A region is a list of statements extracted from the analysed function that, depending on pure integer conditions over
one variable, assign, raise, jump or reach a statement the calling rule recognises (a marker).  For every value of the
domain the region is walked with the analyser's own evaluator (sa/intexpr.py: integer / tuple arithmetic and
comparisons only; anything else is "not pure" and makes the rule undecided); the result is the label of the first
marker reached, `raise:<class>`, `jump:<kind>`, or None with the final environment when the region is left at its end.
This generalises the truth tables of single guards to regions whose branches were restructured (guard clauses instead
of elif chains, explaining variables, tuple unpacking): the table does not depend on how the branching is written.
It is a finite table computed from extracted source text, not an execution of pyasn1.
"""
import ast

from sa import intexpr
from sa.model import norm


class Undecided(Exception):
    pass


SKIP = '<skip>'     # a classify() result: leave the statement out (the caller has bound its targets itself)


def _is_log_test(t):
    return isinstance(t, ast.Name) and t.id == 'LOG'


def walk(stmts, env, classify, resolver=None):
    """-> (label, env).  label None: fell through."""
    for s in stmts:
        lab = classify(s, env) if classify else None
        if lab == SKIP:
            continue
        if lab:
            return lab, env
        if isinstance(s, ast.If):
            if _is_log_test(s.test):
                continue
            try:
                t = intexpr.ev(s.test, env, resolver)
            except intexpr.NotPure as x:
                raise Undecided('test `%s` not evaluable (%s)' % (norm(s.test), x))
            lab, env = walk(s.body if t else s.orelse, env, classify, resolver)
            if lab:
                return lab, env
        elif isinstance(s, ast.Assign):
            try:
                v = intexpr.ev(s.value, env, resolver)
                known = True
            except intexpr.NotPure:
                known = False
            for t in s.targets:
                if isinstance(t, ast.Name):
                    if known:
                        env[t.id] = v
                    else:
                        env.pop(t.id, None)
                elif isinstance(t, (ast.Tuple, ast.List)) and all(isinstance(x, ast.Name) for x in t.elts):
                    if known and isinstance(v, tuple) and len(v) == len(t.elts):
                        for x, y in zip(t.elts, v):
                            env[x.id] = y
                    else:
                        for x in t.elts:
                            env.pop(x.id, None)
        elif isinstance(s, ast.AugAssign) and isinstance(s.target, ast.Name):
            try:
                env[s.target.id] = intexpr.ev(ast.BinOp(left=ast.Name(id=s.target.id, ctx=ast.Load()), op=s.op, right=s.value), env, resolver)
            except intexpr.NotPure:
                env.pop(s.target.id, None)
        elif isinstance(s, ast.Raise):
            e = s.exc
            return 'raise:%s' % (norm(e.func if isinstance(e, ast.Call) else e) if e is not None else ''), env
        elif isinstance(s, (ast.Continue, ast.Break, ast.Return)):
            return 'jump:%s' % type(s).__name__, env
        elif isinstance(s, (ast.Expr, ast.Pass)):
            continue
        elif isinstance(s, (ast.While, ast.For, ast.Try)):
            raise Undecided('%s inside the region is not a marker' % type(s).__name__)
        else:
            continue
    return None, env


def table(stmts, var, domain, classify=None, env=None, resolver=None, result=None):
    """{value: label or (None, result value)}"""
    out = {}
    for v in domain:
        e = dict(env or {})
        if callable(var):
            var(e, v)
        else:
            e[var] = v
        lab, e = walk(stmts, e, classify, resolver)
        if lab is None and result is not None:
            out[v] = (None, e.get(result, '?'))
        else:
            out[v] = lab
    return out


def groups(tab):
    """{label: set(values)}"""
    out = {}
    for v, lab in tab.items():
        out.setdefault(lab, set()).add(v)
    return out
