"""Small AST helpers shared by the rules."""
import ast

from sa.model import AnalysisError, ClassInfo, FuncInfo, norm, walk_own
from sa import intexpr


def if_chain(stmt):
    """[(test, body), ...], orelse-body for an if/elif/else statement."""
    arms = []
    cur = stmt
    while True:
        arms.append((cur.test, cur.body))
        if len(cur.orelse) == 1 and isinstance(cur.orelse[0], ast.If):
            cur = cur.orelse[0]
            continue
        return arms, cur.orelse


def chain_partition(stmt, var, domain, env=None, resolver=None):
    """For an if/elif chain over int variable `var`: list of value sets, one per arm, plus the else set.

    Raises intexpr.NotPure when a test is not a pure integer guard on `var`.
    """
    arms, orelse = if_chain(stmt)
    remaining = set(domain)
    parts = []
    for test, body in arms:
        acc = intexpr.accept_set(test, var, remaining, env, resolver)
        parts.append(acc)
        remaining = remaining - acc
    return arms, orelse, parts, remaining


def contains(stmts, types):
    for s in stmts:
        for n in ast.walk(s):
            if isinstance(n, types):
                return True
    return False


def raises_in(stmts):
    out = []
    for s in stmts:
        for n in ast.walk(s):
            if isinstance(n, ast.Raise):
                out.append(n)
    return out


def calls_in(node_or_list, own=False):
    nodes = node_or_list if isinstance(node_or_list, list) else [node_or_list]
    out = []
    for s in nodes:
        it = walk_own(s) if own and hasattr(s, 'body') else ast.walk(s)
        for n in it:
            if isinstance(n, ast.Call):
                out.append(n)
    return out


def call_name(call):
    """Trailing attribute / function name of a call: `a.b.c(...)` -> 'c'."""
    f = call.func
    if isinstance(f, ast.Attribute):
        return f.attr
    if isinstance(f, ast.Name):
        return f.id
    return None


def attr_chain(e):
    """`a.b.c` -> ['a','b','c']; None if not a pure Name/Attribute chain."""
    out = []
    while isinstance(e, ast.Attribute):
        out.append(e.attr)
        e = e.value
    if isinstance(e, ast.Name):
        out.append(e.id)
        return list(reversed(out))
    return None


def is_name(e, name):
    return isinstance(e, ast.Name) and e.id == name


def stmts_of(fnode):
    """All statements of a function body, recursively, excluding nested defs."""
    out = []

    def rec(body):
        for s in body:
            out.append(s)
            for fld in ('body', 'orelse', 'finalbody'):
                sub = getattr(s, fld, None)
                if isinstance(sub, list) and not isinstance(s, (ast.FunctionDef, ast.ClassDef, ast.AsyncFunctionDef)):
                    rec(sub)
            if isinstance(s, ast.Try):
                for h in s.handlers:
                    rec(h.body)
    rec(fnode.body)
    return out


def is_log_test(test):
    """`if LOG:` guard."""
    return isinstance(test, ast.Name) and test.id == 'LOG'


def strip_log(stmts):
    """Statements with `if LOG:` blocks removed (logging-off view), recursively (copy-free: returns list)."""
    out = []
    for s in stmts:
        if isinstance(s, ast.If) and is_log_test(s.test) and not s.orelse:
            continue
        out.append(s)
    return out


def const_int(e, resolver=None):
    try:
        v = intexpr.ev(e, {}, resolver)
    except intexpr.NotPure:
        return None
    return v if isinstance(v, int) and not isinstance(v, bool) else None


def find_loops(fnode, types=(ast.For, ast.While)):
    return [n for n in walk_own(fnode) if isinstance(n, types)]


def parent_stmt_list(node):
    """(list, index) of the statement list containing `node`."""
    p = node.parent
    for fld in ('body', 'orelse', 'finalbody'):
        lst = getattr(p, fld, None)
        if isinstance(lst, list) and node in lst:
            return lst, lst.index(node)
    if isinstance(p, ast.Try):
        for h in p.handlers:
            if node in h.body:
                return h.body, h.body.index(node)
    return None, None
