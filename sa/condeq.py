"""Is this test the condition the rule has in mind, however it is spelt?

`same(test, 'sf > 3')` compares the canonical condition values of sa/equiv.py (not / != / is not / flipped and
shifted integer comparisons / De Morgan / operand order of effect-free conjuncts are one form) and returns +1 when the
test is the expected condition, -1 when it is its negation, 0 otherwise.  Names are compared as written: the loader has
already brought the locals back to their reference names."""
import ast

from sa import equiv


class _Pure(equiv.Exec):
    def __init__(self):
        self.locals = set()
        self.mask_messages = True
        self.regions = []
        self._cond_ctx = False


def _canon(expr):
    ex = _Pure()
    st = equiv.State({}, ('ver', 'entry'))
    out = []
    try:
        v = ex.ev_cond(expr, st, out)
    except (equiv.Unsupported, RecursionError):
        return None
    if out:
        # calls inside the test: keep them as part of the value (kind and operands), identity does not matter here
        pass
    c, neg = equiv.canon_cond(v)
    return equiv.skey(c), neg


def same(test, expected):
    if isinstance(expected, str):
        expected = ast.parse(expected, mode='eval').body
    a, b = _canon(test), _canon(expected)
    if a is None or b is None:
        return 0
    if a[0] != b[0]:
        return 0
    return 1 if a[1] == b[1] else -1


def raising_guards(fnode, expected, raises_in, walk):
    """`if` statements whose raising arm is entered exactly when `expected` holds (the test itself, with the raise in the
    body, or its negation with the raise in the else part)."""
    out = []
    for n in walk(fnode):
        if not isinstance(n, ast.If):
            continue
        r = same(n.test, expected)
        if r == 1 and raises_in(n.body):
            out.append(n)
        elif r == -1 and n.orelse and raises_in(n.orelse):
            out.append(n)
    return out
