"""Independent reference tables taken from ITU-T X.680 / X.690 (not from pyasn1).

X.680 (2002/2008/2015) clause 8.6, table 1: universal class tag assignments.
X.690 clause 8.1.2 (identifier octets), 8.1.3 (length octets), 8.2 (BOOLEAN),
8.23 (restricted character strings are encoded like OCTET STRING), 9 (CER),
10 (DER), 11.1 (BOOLEAN TRUE = 0xFF in CER/DER), 11.6 (SET OF ordering),
X.680 8.6 + X.690 10.3 / 9.3 (SET components ordered by tag).
"""

# class bits of the identifier octet (X.690 8.1.2.2 table 1)
CLASS_UNIVERSAL, CLASS_APPLICATION, CLASS_CONTEXT, CLASS_PRIVATE = 0x00, 0x40, 0x80, 0xC0
FORM_PRIMITIVE, FORM_CONSTRUCTED = 0x00, 0x20

# pyasn1 type class name -> (universal tag number, constructed?)   [X.680 8.6 table 1]
UNIVERSAL = {
    'EndOfOctets': (0, False),
    'Boolean': (1, False),
    'Integer': (2, False),
    'BitString': (3, False),
    'OctetString': (4, False),
    'Null': (5, False),
    'ObjectIdentifier': (6, False),
    'ObjectDescriptor': (7, False),
    'Real': (9, False),
    'Enumerated': (10, False),
    'UTF8String': (12, False),
    'Sequence': (16, True),
    'SequenceOf': (16, True),
    'Set': (17, True),
    'SetOf': (17, True),
    'NumericString': (18, False),
    'PrintableString': (19, False),
    'TeletexString': (20, False),
    'T61String': (20, False),
    'VideotexString': (21, False),
    'IA5String': (22, False),
    'UTCTime': (23, False),
    'GeneralizedTime': (24, False),
    'GraphicString': (25, False),
    'VisibleString': (26, False),
    'ISO646String': (26, False),
    'GeneralString': (27, False),
    'UniversalString': (28, False),
    'BMPString': (30, False),
}
UNTAGGED = ('Choice', 'Any')

# types whose value is a string of octets/bits that may be segmented (X.690 8.6, 8.7, 8.23)
OCTET_LIKE = ('OctetString', 'UTF8String', 'NumericString', 'PrintableString', 'TeletexString',
              'T61String', 'VideotexString', 'IA5String', 'GraphicString', 'VisibleString',
              'ISO646String', 'GeneralString', 'UniversalString', 'BMPString',
              'ObjectDescriptor', 'GeneralizedTime', 'UTCTime')
BIT_LIKE = ('BitString',)
# X.690 8.23.6 / 8.7.3: every segment of a constructed string encoding is an OCTET STRING
# (universal 4); 8.6.4: every segment of a constructed BIT STRING is a BIT STRING (universal 3)
SEGMENT_TAG = {'octet': 4, 'bit': 3}

# X.690 9.2: CER string segments are 1000 octets; 9.1 indefinite length for constructed;
# 10.1 DER definite length; 10.2 no constructed strings.
CER_SEGMENT = 1000

# X.690 8.1.3.4: short form length 0..127; 8.1.3.5 long form 1..126 subsequent octets;
# 8.1.3.6 indefinite 0x80; 8.1.2.4 tag numbers >= 31 use the high-tag-number form.
SHORT_LENGTH_MAX = 127
LONG_LENGTH_OCTETS_MAX = 126
LOW_TAG_MAX = 30

# X.690 11.1 / 8.2.2
BOOLEAN_TRUE_CANONICAL = 0xFF
BOOLEAN_FALSE = 0x00
