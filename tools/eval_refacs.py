#!/usr/bin/env python3
"""Behaviour-preserving changes ("benign refactorings") against the checks: none may alarm.

  tools/eval_refacs.py import /tmp/refac [tag]   confirm each /tmp/refac/Cnn/refac_k.diff in a scratch worktree (applies,
                                                 compiles, unedited suite 1149 passed, the differential transcript of
                                                 refac_demo_k.py is identical with and without the patch) and keep the
                                                 confirmed ones under /verif/benign/<id>/
  tools/eval_refacs.py run [<id> ...]            apply each kept patch to a scratch worktree of /repo and run all 20 checks:
                                                 every check must exit 0 and report the same known findings as on /repo

/repo itself is never edited; scratch worktrees live under $TMPDIR and are removed.
"""
import hashlib
import json
import os
import shutil
import sys

sys.path.insert(0, os.path.dirname(os.path.abspath(__file__)))
from eval_seeds import sh, scratch, drop, VERIF, PY   # noqa: E402


def confirm(patch, demo):
    d, wt = scratch()
    try:
        det = {}
        rc, out = sh('git apply --check %s' % patch, cwd=wt)
        if rc:
            return False, {'error': 'patch does not apply to HEAD: %s' % out[:200]}
        shutil.copy(demo, wt + '/refac_demo.py')
        rc0, out0 = sh('%s refac_demo.py' % PY, cwd=wt, env={'PYTHONPATH': wt}, timeout=600)
        det['demo_without'] = rc0
        det['hash_without'] = hashlib.sha256(out0.encode()).hexdigest()[:16]
        sh('git apply %s' % patch, cwd=wt)
        rc, out = sh('%s -m compileall -q pyasn1' % PY, cwd=wt)
        det['compiles'] = rc == 0
        rc1, out1 = sh('%s refac_demo.py' % PY, cwd=wt, env={'PYTHONPATH': wt}, timeout=600)
        det['demo_with'] = rc1
        det['hash_with'] = hashlib.sha256(out1.encode()).hexdigest()[:16]
        rc, out = sh('%s -m pytest -q -p no:cacheprovider -n 8 -x 2>&1 | tail -1' % PY, cwd=wt, env={'PYTHONPATH': wt})
        det['suite'] = out.strip()
        ok = det['compiles'] and rc0 == 0 and rc1 == 0 and out0 == out1 and '1149 passed' in out
        return ok, det
    finally:
        drop(d)


def cmd_import(src, tag=''):
    os.makedirs(VERIF + '/benign', exist_ok=True)
    for pdir in sorted(os.listdir(src)):
        full = os.path.join(src, pdir)
        if not os.path.isdir(full) or not pdir.startswith('C'):
            continue
        for k in (1, 2, 3, 4):
            patch = os.path.join(full, 'refac_%d.diff' % k)
            demo = os.path.join(full, 'refac_demo_%d.py' % k)
            meta = os.path.join(full, 'refac_meta_%d.json' % k)
            if not (os.path.exists(patch) and os.path.exists(demo)):
                continue
            sid = '%s-%sr%d' % (pdir, tag, k)
            dest = os.path.join(VERIF, 'benign', sid)
            if os.path.exists(dest):
                continue
            ok, det = confirm(patch, demo)
            print(sid, 'CONFIRMED' if ok else 'REJECTED', json.dumps(det)[:300])
            if not ok:
                continue
            os.makedirs(dest)
            shutil.copy(patch, dest + '/patch.diff')
            shutil.copy(demo, dest + '/demo.py')
            m = {}
            if os.path.exists(meta):
                try:
                    m = json.load(open(meta))
                except Exception:
                    m = {}
            m.update({'id': sid, 'property': pdir, 'confirmed': det,
                      'what_i_ran': 'scratch worktree of /repo HEAD: the differential transcript is byte-identical with and without '
                                    'the patch, the patched tree compiles and the unedited suite reports 1149 passed'})
            json.dump(m, open(dest + '/meta.json', 'w'), indent=1)


def baseline():
    base = {}
    for i in range(1, 21):
        p = 'C%02d' % i
        rc, out = sh('./check %s' % p, cwd=VERIF)
        base[p] = (rc, sorted(l.split(' -- ')[0] for l in out.split('\n') if l.startswith('KNOWN-FINDING')))
    return base


def cmd_run(ids):
    from concurrent.futures import ThreadPoolExecutor
    basedir = VERIF + '/benign'
    ids = ids or sorted(os.listdir(basedir))
    base = baseline()
    props = ['C%02d' % i for i in range(1, 21)]
    summary = {}
    for sid in ids:
        patch = os.path.join(basedir, sid, 'patch.diff')
        if not os.path.exists(patch):
            continue
        d, wt = scratch()
        try:
            rc, out = sh('git apply %s' % patch, cwd=wt)
            if rc:
                print(sid, 'patch does not apply:', out[:100])
                continue

            def one(p):
                rc, out = sh('./check %s --repo %s' % (p, wt), cwd=VERIF)
                known = sorted(l.split(' -- ')[0] for l in out.split('\n') if l.startswith('KNOWN-FINDING'))
                # known-finding lines carry file:line, which a refactoring may move: compare without the site
                rep = [l for l in out.split('\n') if l.startswith('REPORT:') or 'ANALYSIS-ERROR' in l]
                return p, rc, known, rep
            with ThreadPoolExecutor(8) as ex:
                res = list(ex.map(one, props))
            alarms = [(p, rep[0][:160] if rep else '') for p, rc, known, rep in res if rc == 1]
            undec = [(p, rep[0][:160] if rep else '') for p, rc, known, rep in res if rc == 2]

            def strip(ls):
                import re
                return sorted(re.sub(r' \S+\.py:\d+', '', x) for x in ls)
            kdiff = [p for p, rc, known, rep in res if rc == 0 and strip(known) != strip(base[p][1])]
            verdict = 'FALSE-ALARM' if alarms else ('undecided' if undec else ('known-findings-differ' if kdiff else 'silent'))
            print('%-9s %-22s alarms=%s undecided=%s%s' % (sid, verdict, alarms, undec, (' knowndiff=%s' % kdiff) if kdiff else ''))
            summary[sid] = {'verdict': verdict, 'alarms': alarms, 'undecided': undec, 'known_differs': kdiff}
        finally:
            drop(d)
    rp = VERIF + '/benign/RESULTS.json'
    allres = {}
    if os.path.exists(rp):
        try:
            allres = json.load(open(rp))
        except Exception:
            allres = {}
    allres.update(summary)
    allres = dict((k, v) for k, v in allres.items() if os.path.isdir(os.path.join(basedir, k)))
    json.dump(allres, open(rp, 'w'), indent=1, sort_keys=True)


if __name__ == '__main__':
    if len(sys.argv) >= 3 and sys.argv[1] == 'import':
        cmd_import(sys.argv[2], sys.argv[3] if len(sys.argv) > 3 else '')
    elif len(sys.argv) >= 2 and sys.argv[1] == 'run':
        cmd_run(sys.argv[2:])
    else:
        print(__doc__)
