import sys, os; sys.path.insert(0, os.path.dirname(os.path.dirname(os.path.abspath(__file__))))
import sys, importlib
from sa.core import Ctx
modname, names = sys.argv[1], sys.argv[2:]
mod = importlib.import_module('sa.rules.'+modname)
c=Ctx()
for nm in names or [n for n in dir(mod) if n.startswith('rule_')]:
    r=getattr(mod,nm)
    n0=len(c.obs)
    try: r(c)
    except Exception as e:
        import traceback; traceback.print_exc(); continue
    obs=c.obs[n0:]
    print(nm, len(obs), 'fail', len([o for o in obs if not o.ok and not o.note]))
    for o in obs:
        if not o.ok or o.note: print('   ', 'NOTE' if o.note else 'FAIL', o.rule,o.func,'|',o.key,'|',o.site,'|',o.detail[:200])
