#!/bin/sh
# tools/seedrules.sh <seed-id> <rules-module> [rule ...]: run single rules against a scratch copy of /repo with one seeded change applied
set -e
sid=$1; shift
d=$(mktemp -d /tmp/pyasn1-seedrules-XXXXXX)
git -C /repo worktree add -q --detach $d/wt HEAD
p=/verif/seeded/$sid/patch.diff; [ -f $p ] || p=/verif/benign/$sid/patch.diff; ( cd $d/wt && git apply $p ) || echo "PATCH DOES NOT APPLY"
PYASN1_REPO=$d/wt /venv/bin/python /verif/tools/runrules.py "$@" 2>&1 | cut -c1-400 || true
git -C /repo worktree remove --force $d/wt; rm -rf $d
