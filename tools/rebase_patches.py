#!/usr/bin/env python3
"""Carry the kept patches (seeded/, benign/) over a `fix:` commit of /repo.

  tools/rebase_patches.py <old-commit> [--write]

A kept patch that no longer applies to /repo HEAD is applied to a plain copy of <old-commit>; every file it touches is
then merged with HEAD's version of the file (`git merge-file`, base = the old version).  Where the merge conflicts -
the patch moved or re-indented a line that the fix rewrote - the fix is redone on the patched file as the expression-level
replacements listed in FIX_REPLACEMENTS below (each must match exactly once, otherwise the patch is reported for manual
work).  The result is written back as a diff against HEAD only with --write and only after it has been confirmed again
(benign: same transcript with and without, suite passes; seeded: demo fails with / passes without, suite passes).

Nothing is committed to /repo; the copies live under $TMPDIR and are removed.
"""
import os
import re
import shutil
import subprocess
import sys
import tempfile

sys.path.insert(0, os.path.dirname(os.path.abspath(__file__)))
from eval_seeds import sh, VERIF, REPO   # noqa: E402

# (file, [(regex in the patched old file, replacement)], [(anchor regex, text inserted after the anchor line)])
FIX_REPLACEMENTS = [
    ('pyasn1/codec/ber/encoder.py',
     [(r"options\.get\('ifNotEmpty', False\)", 'ifNotEmpty')],
     [(r"    def encode\(self, value, asn1Spec=None, encodeFun=None, \*\*options\):\n",
       "\n        # concerns this item only, never its components\n        ifNotEmpty = options.pop('ifNotEmpty', False)\n")]),
    ('pyasn1/codec/streaming.py', 'wrapper_none', None),
    ('pyasn1/codec/ber/encoder.py', 'seg_spec', None),
    ('pyasn1/type/univ.py', 'clone_empty', None),
    ('pyasn1/codec/ber/decoder.py', 'bits_zero_segments', None),
]


def clone_empty(txt):
    """Redo 741c968 on a patched pyasn1/type/univ.py (the first _cloneComponentValues is the SEQUENCE OF one)."""
    key = '    def _cloneComponentValues(self, myClone, cloneValueFlag):\n'
    i = txt.find(key)
    if i < 0:
        return txt, False
    j = i + len(key)
    if txt[j:].lstrip().startswith('if self._componentValues is noValue:'):
        return txt, False
    ins = ('        if self._componentValues is noValue:\n            return\n\n'
           '        # the copy of a value is a value, also when there is nothing in it\n        myClone.clear()\n\n')
    return txt[:j] + ins + txt[j:], True


def bits_zero_segments(txt):
    """Redo 0c086fa on a patched pyasn1/codec/ber/decoder.py."""
    m = re.search(r"        if not length:\n            raise error\.PyAsn1Error\('Empty BIT STRING substrate'\)\n\n"
                  r"((?:        #[^\n]*\n)*)(        if tagSet\[[-0-9]+\]\.tagFormat == tag\.tagFormatSimple:[^\n]*\n)\n?", txt)
    if not m:
        return txt, False
    new = (m.group(1) + m.group(2) + '\n            # (the constructed form may well consist of no segments at all)\n'
           "            if not length:\n                raise error.PyAsn1Error('Empty BIT STRING substrate')\n\n")
    return txt[:m.start()] + new + txt[m.end():], True


def seg_spec(txt):
    """Redo a31a924 on a patched pyasn1/codec/ber/encoder.py."""
    ok = True
    i = txt.find('class OctetStringEncoder')
    j = txt.find('\nclass ', i + 10)
    span = txt[i:j]
    key = '        elif not isOctetsType(value):\n'
    if span.count(key) == 2:
        k = span.rindex(key)
        span = span[:k] + '        else:\n' + span[k + len(key):]
        txt = txt[:i] + span + txt[j:]
    else:
        ok = False
    m = list(re.finditer(r'encodeFun\((alignedValue\[[^\]]+\]), asn1Spec, \*\*options\)', txt))
    if len(m) == 1:
        txt = txt[:m[0].start()] + 'encodeFun(%s, None, **options)' % m[0].group(1) + txt[m[0].end():]
    else:
        ok = False
    return txt, ok


def wrapper_none(txt):
    """Redo 9ec808d on a patched pyasn1/codec/streaming.py whatever the locals are called."""
    ok = True
    m = re.search(r'\n( +)(\w+) = self\._raw\.read\((\w+)\)\n', txt)
    c = re.search(r'\n +(\w+) = self\._cache\.read\(n\)\n', txt)
    if m and c and ('%s is None' % m.group(2)) not in txt:
        ind, raw = m.group(1), m.group(2)
        txt = txt[:m.end()] + '\n%sif %s is None:  # non-blocking stream has nothing yet\n%s    return %s or None\n' % (
            ind, raw, ind, c.group(1)) + txt[m.end():]
    else:
        ok = False
    m = re.search(r'\n( +)(\w+) = self\.read\(n\)\n( +)self\._cache\.seek\(-len\(\2\), os\.SEEK_CUR\)\n', txt)
    if m:
        ind, v = m.group(1), m.group(2)
        txt = txt[:m.start()] + '\n%s%s = self.read(n)\n%sif %s:\n%s    self._cache.seek(-len(%s), os.SEEK_CUR)\n' % (
            ind, v, ind, v, ind, v) + txt[m.end():]
    else:
        ok = False
    return txt, ok


def export(commit, dest):
    os.makedirs(dest)
    rc, out = sh('git -C %s archive %s pyasn1 | tar -x -C %s' % (REPO, commit, dest))
    if rc:
        raise SystemExit(out)


def touched(patch):
    out = []
    for line in open(patch):
        m = re.match(r'^\+\+\+ b/(.*)$', line.rstrip('\n'))
        if m:
            out.append(m.group(1))
    return out


def rebase(patch, old):
    d = tempfile.mkdtemp(prefix='pyasn1-rebase-')
    try:
        export(old, d + '/old')
        export(old, d + '/mine')
        export('HEAD', d + '/new')
        rc, out = sh('git apply %s' % patch, cwd=d + '/mine')
        if rc:
            return None, 'does not apply to %s either: %s' % (old, out[:120])
        shutil.copytree(d + '/new', d + '/res')
        how = []
        for rel in touched(patch):
            mine, base, new, res = (d + '/%s/%s' % (x, rel) for x in ('mine', 'old', 'new', 'res'))
            if not os.path.exists(base) or not os.path.exists(new):
                if os.path.exists(mine):
                    os.makedirs(os.path.dirname(res), exist_ok=True)
                    shutil.copy(mine, res)
                continue
            shutil.copy(mine, res)
            rc, out = sh('git merge-file -q %s %s %s' % (res, base, new))
            if rc == 0:
                how.append('%s merged' % rel)
                continue
            # conflict: redo the fix on the patched file
            txt = open(mine).read()
            done = False
            for frel, subs, inserts in FIX_REPLACEMENTS:
                if frel != rel:
                    continue
                if isinstance(subs, str):
                    txt, ok = globals()[subs](txt)
                    if ok:
                        done = True
                    continue
                ok = True
                if all(ins.strip().splitlines()[-1] in txt for rx, ins in inserts) and not any(re.findall(rx, txt) for rx, new_ in subs):
                    continue            # this repair is already in the old tree
                for rx, new_ in subs:
                    if len(re.findall(rx, txt)) != 1:
                        ok = False
                    txt = re.sub(rx, new_, txt)
                for rx, ins in inserts:
                    ms = list(re.finditer(rx, txt))
                    if len(ms) != 1:
                        ok = False
                        continue
                    txt = txt[:ms[0].end()] + ins + txt[ms[0].end():]
                if ok:
                    done = True
            if not done:
                return None, 'conflict in %s and the fix could not be redone on the patched file' % rel
            # the other fixes to the same file that did not conflict are NOT in `txt`: merge again against a base that has the
            # redone part, i.e. require that after redoing, merging is clean
            open(res, 'w').write(txt)
            tmpb = d + '/base_redone'
            btxt = open(base).read()
            for frel, subs, inserts in FIX_REPLACEMENTS:
                if frel != rel:
                    continue
                if isinstance(subs, str):
                    btxt = globals()[subs](btxt)[0]
                    continue
                if all(ins.strip().splitlines()[-1] in btxt for rx, ins in inserts) and not any(re.findall(rx, btxt) for rx, new_ in subs):
                    continue
                for rx, new_ in subs:
                    btxt = re.sub(rx, new_, btxt)
                for rx, ins in inserts:
                    ms = list(re.finditer(rx, btxt))
                    if len(ms) == 1:
                        btxt = btxt[:ms[0].end()] + ins + btxt[ms[0].end():]
            open(tmpb, 'w').write(btxt)
            rc, out = sh('git merge-file -q %s %s %s' % (res, tmpb, new))
            if rc:
                return None, 'conflict in %s remains after redoing the fix' % rel
            how.append('%s: fix redone on the patched file' % rel)
        rc, out = sh('%s -m compileall -q pyasn1' % sys.executable, cwd=d + '/res')
        if rc:
            return None, 'result does not compile'
        sh('find . -name __pycache__ -type d -prune -exec rm -rf {} +', cwd=d)
        p = subprocess.run('git diff --no-index --no-prefix new res', shell=True, cwd=d, capture_output=True, text=True)
        diff = p.stdout
        diff = re.sub(r'^(diff --git )new/(\S+) res/(\S+)$', r'\1a/\2 b/\3', diff, flags=re.M)
        diff = re.sub(r'^--- new/', '--- a/', diff, flags=re.M)
        diff = re.sub(r'^\+\+\+ res/', '+++ b/', diff, flags=re.M)
        if not diff.strip():
            return None, 'empty result'
        return diff, '; '.join(how)
    finally:
        shutil.rmtree(d, ignore_errors=True)


def main():
    old = sys.argv[1]
    write = '--write' in sys.argv
    import eval_refacs
    import eval_seeds
    d0 = tempfile.mkdtemp(prefix='pyasn1-rebase-chk-')
    export('HEAD', d0 + '/new')
    n = 0
    for kind in ('seeded', 'benign'):
        base = os.path.join(VERIF, kind)
        for sid in sorted(os.listdir(base)):
            patch = os.path.join(base, sid, 'patch.diff')
            if not os.path.exists(patch):
                continue
            rc, out = sh('git apply --check %s' % patch, cwd=d0 + '/new')
            if rc == 0:
                continue
            n += 1
            diff, how = rebase(patch, old)
            if diff is None:
                print('%s %s: MANUAL - %s' % (kind, sid, how))
                continue
            tmp = tempfile.NamedTemporaryFile('w', suffix='.diff', delete=False)
            tmp.write(diff)
            tmp.close()
            demo = os.path.join(base, sid, 'demo.py')
            ok, det = (eval_refacs.confirm if kind == 'benign' else eval_seeds.confirm)(tmp.name, demo)
            print('%s %s: rebased (%s) -> %s' % (kind, sid, how, 'CONFIRMED' if ok else 'NOT CONFIRMED %s' % str(det)[:200]))
            if ok and write:
                shutil.copy(patch, patch + '.orig-%s' % old[:7])
                shutil.copy(tmp.name, patch)
            os.unlink(tmp.name)
    shutil.rmtree(d0, ignore_errors=True)
    print('%d patch(es) did not apply to HEAD' % n)


if __name__ == '__main__':
    main()
