#!/usr/bin/env python3
"""tools/variant_tree.py <variant-id> <dir>: materialise one self-test variant of sa/mutants.py in <dir> (a copy of /repo/pyasn1)."""
import os, sys
sys.path.insert(0, os.path.dirname(os.path.dirname(os.path.abspath(__file__))))
from sa import mutants
vid, d = sys.argv[1], sys.argv[2]
v = [x for x in mutants.VARIANTS if x['id'] == vid][0]
mutants._copy_tree('/repo', d)
print(mutants._apply(v, d))
